"""Spec vocabulary + abstract callee contracts (DESIGN.md §4).

* the abstract inner generative function `G` (class GenerativeFunction): its GFI contract is ASSUMED here (assume-guarantee:
  the same clauses are PROVED of every combinator class by the tasks in /verif/contracts);
* abstract traces, choice maps, selections, edit requests;
* Diff helpers on opaque pytrees (the laws used are the C21 lemmas, proved of the real bodies on structured trees).
"""
from __future__ import annotations

import z3

from pyvc.interp_ops import zbool, zint, zreal
from pyvc.values import (BoundMethod, ClassRef, FuncVal, NativeFn, Obj, PyRaise, SBool, SInt, SReal, Stacked, TupleT,
                         U, UVal, Unsupported)
from . import externals

GF = "genjax._src.core.generative.generative_function"
CM = "genjax._src.core.generative.choice_map"
CONCEPTS = "genjax._src.core.generative.concepts"
INC = "genjax._src.core.compiler.interpreters.incremental"

R, B, Z = z3.RealSort(), z3.BoolSort(), z3.IntSort()

ASSUMED = []


def _note(s):
    if s not in ASSUMED:
        ASSUMED.append(s)


class T:
    """theory instance (one per path)"""

    def __init__(self, I):
        self.I, self.c = I, I.ctx
        c = self.c
        f = c.fn
        self.tr_args, self.tr_retval = f("tr_args", U, U), f("tr_retval", U, U)
        self.tr_score, self.tr_choices, self.tr_genfn = f("tr_score", U, R), f("tr_choices", U, U), f("tr_genfn", U, U)
        self.assess_score, self.assess_ret = f("assess_score", U, U, U, R), f("assess_ret", U, U, U, U)
        self.sim = f("gf_simulate", U, U, U, U)
        self.gen_tr, self.gen_w = f("gf_generate_tr", U, U, U, U, U), f("gf_generate_w", U, U, U, U, R)
        self.edit_tr, self.edit_w = f("gf_edit_tr", U, U, U, U, U, U), f("gf_edit_w", U, U, U, U, U, R)
        self.edit_rd, self.edit_bwd = f("gf_edit_rd", U, U, U, U, U, U), f("gf_edit_bwd", U, U, U, U, U, U)
        self.proj = f("gf_project", U, U, U, R)          # (G, trace, selection): key-independent (exact densities)
        self.cdens = f("constrained_density", U, U, R)   # (trace, constraint): log-density of constrained choices
        self.agrees = f("agrees", U, U, B)               # (choices, constraint)
        self.fresh = f("introduces_new_choice", U, U, U, U, B)   # (G, trace, request, argdiffs)
        self.covers_all = f("constraint_covers_every_choice", U, U, U, B)   # (G, constraint, args)
        self.d_primal, self.d_tangent = f("d_primal", U, U), f("d_tangent", U, U)
        self.d_nc_all, self.d_is_tree = f("d_all_nochange", U, B), f("d_is_diff_tree", U, B)
        self.mk_nc, self.mk_uc, self.mk_diff = f("mk_no_change", U, U), f("mk_unknown_change", U, U), f("mk_tree_diff", U, U, U)
        self.nc_tree = f("nochange_tangents", U, U)
        self.is_Mask = f("is_Mask", U, B)
        self.is_None = f("is_None", U, B)
        self.EMPTY = z3.Const("chm_empty", U)
        self.chm_value = f("chm_value", U, U)
        self.chm_inner = f("chm_inner", U, U, U)
        self.chm_filter_sel = f("chm_filter_sel", U, U, U)
        self.chm_or = f("chm_or", U, U, U)
        self.chm_static_empty = f("chm_static_is_empty", U, B)
        self.chm_sel = f("chm_get_selection", U, U)
        self.sel_check, self.sel_sub = f("sel_check", U, B), f("sel_sub", U, U, U)
        self.sel_not, self.sel_or, self.sel_and = f("sel_not", U, U), f("sel_or", U, U, U), f("sel_and", U, U, U)
        self.SEL_ALL, self.SEL_NONE = z3.Const("sel_all", U), z3.Const("sel_none", U)
        c.assume(self.is_None(self.chm_value(self.EMPTY)))
        c.assume(self.chm_static_empty(self.EMPTY))
        c.assume(z3.Not(self.is_Mask(z3.Const("u_None", U))))
        c.assume(self.is_None(z3.Const("u_None", U)))
        c.assume(self.sel_check(self.SEL_ALL))
        c.assume(z3.Not(self.sel_check(self.SEL_NONE)))

    # ------------------------------------------------------------------ well-formedness of abstract traces
    def wf(self, t):
        g, ch, a = self.tr_genfn(t), self.tr_choices(t), self.tr_args(t)
        return z3.And(self.assess_score(g, ch, a) == self.tr_score(t), self.assess_ret(g, ch, a) == self.tr_retval(t))

    def trace_facts(self, t, g=None, args=None):
        c = self.c
        if g is not None:
            c.assume(self.tr_genfn(t) == g)
        if args is not None:
            c.assume(self.tr_args(t) == args)
        c.assume(self.wf(t))
        c.assume(self.d_primal(self.tr_retval(t)) == self.tr_retval(t))
        c.assume(self.d_primal(self.tr_args(t)) == self.tr_args(t))
        c.assume(z3.Not(self.is_Mask(self.tr_retval(t))))
        c.assume(z3.Not(self.is_None(self.tr_retval(t))))
        _note("inner generative function G satisfies the GFI contract (assume-guarantee; proved of every combinator class)")
        _note("return values of the ABSTRACT inner generative function are not Mask instances (a callee that returns a mask - mask of "
              "mask - is covered by the separate task mask.nested on real MaskTrace objects)")

    def abstract_trace(self, name, g=None):
        """an arbitrary well-formed trace of the abstract generative function"""
        t = self.c.const(name, U)
        self.trace_facts(t, g=g)
        return UVal(t, "Trace")

    # ------------------------------------------------------------------ GenerativeFunction
    def gf_simulate(self, I, g, key, args):
        t = self.sim(g.t, I.to_u(key), I.to_u(args))
        self.trace_facts(t, g.t, I.to_u(args))
        return UVal(t, "Trace")

    def gf_assess(self, I, g, sample, args):
        s, a = I.to_u(sample), I.to_u(args)
        ret = self.assess_ret(g.t, s, a)
        self.c.assume(z3.Not(self.is_Mask(ret)))
        return (SReal(self.assess_score(g.t, s, a)), UVal(ret))

    def gf_generate(self, I, g, key, constraint, args):
        k, cn, a = I.to_u(key), I.to_u(constraint), I.to_u(args)
        t = self.gen_tr(g.t, k, cn, a)
        self.trace_facts(t, g.t, a)
        w = self.gen_w(g.t, k, cn, a)
        c = self.c
        c.assume(w == self.cdens(t, cn))                       # C03.weight for G
        c.assume(self.agrees(self.tr_choices(t), cn))          # C03.agree for G
        c.assume(self.cdens(t, self.EMPTY) == 0)
        # C03 corollary for G: a constraint covering every choice gives weight == score
        c.assume(z3.Implies(self.covers_all(g.t, cn, a), w == self.tr_score(t)))
        # an empty constraint reduces generate to simulate with the same key (C03/C35 for G)
        c.assume(z3.Implies(cn == self.EMPTY, t == self.sim(g.t, k, a)))
        return (UVal(t, "Trace"), SReal(w))

    def gf_project(self, I, g, key, trace, selection):
        p = self.proj(g.t, I.to_u(trace), I.to_u(selection))
        return SReal(p)

    def proj_facts(self, t, s):
        """C10 for G: project(all)=score, project(none)=0, project(S)+project(~S)=score"""
        c = self.c
        g = self.tr_genfn(t)
        c.assume(self.proj(g, t, self.SEL_ALL) == self.tr_score(t))
        c.assume(self.proj(g, t, self.SEL_NONE) == 0)
        c.assume(self.proj(g, t, s) + self.proj(g, t, self.sel_not(s)) == self.tr_score(t))

    def gf_edit(self, I, g, key, trace, request, argdiffs):
        k, tr, rq, ad = I.to_u(key), I.to_u(trace), I.to_u(request), I.to_u(argdiffs)
        t2 = self.edit_tr(g.t, k, tr, rq, ad)
        w = self.edit_w(g.t, k, tr, rq, ad)
        rd = self.edit_rd(g.t, k, tr, rq, ad)
        bw = self.edit_bwd(g.t, k, tr, rq, ad)
        c = self.c
        new_args = self.primal_u(argdiffs)
        self.trace_facts(t2, g.t, new_args)                               # C05.args + C01.wf for G
        c.assume(z3.Implies(z3.Not(self.fresh(g.t, tr, rq, ad)), w == self.tr_score(t2) - self.tr_score(tr)))   # C05.weight
        c.assume(self.d_primal(rd) == self.tr_retval(t2))                 # C08: retdiff carries the new return value
        c.assume(z3.Implies(self.d_nc_all(rd), self.tr_retval(t2) == self.tr_retval(tr)))    # C08.nochange
        c.assume(self.d_is_tree(rd))
        c.assume(z3.Not(self.is_Mask(rd)))
        inc = getattr(I, "INCR", None)
        if inc is not None:       # C08 for G, leafwise: NoChange-tagged leaves of the retdiff equal the previous return value's
            inc.link(rd)
            c.assume(inc.hu(self.tr_retval(tr), self.d_primal(rd), self.d_tangent(rd)))
        self.c06_for_callee(I, g, tr, request, rq, new_args, t2, w)
        ci_update = I.repo.resolve_qual(GF + ":Update")[1]
        bwd = UVal(bw, "EditRequest")
        if isinstance(request, Obj) and request.cls.name == "Update":
            bc = self.c.fn("update_bwd_constraint", U, U)(bw)
            bwd = Obj(ci_update, {"constraint": UVal(bc, "ChoiceMap")})
            c.assume(bw == I.to_u(bwd))
            # an empty update with unchanged arguments is the identity (C38/C08 for G)
            # C06 for G: applying the backward request with the original arguments restores the trace
        return (UVal(t2, "Trace"), SReal(w), UVal(rd, "retdiff"), bwd)

    def c06_for_callee(self, I, g, tr, request, rq, ad, t2, w):
        """C06 assumed of the abstract callee, instantiated lazily (no quantifier): when G.edit is applied to a trace that is
        syntactically the result  t1 = gf_edit_tr(G, k0, t0, r0, ad0)  of an earlier G.edit, with the backward request of THAT
        edit (gf_edit_bwd(G, k0, t0, r0, ad0), possibly as Update(update_bwd_constraint(.)), possibly under if-then-else), and
        the argdiffs lead back to t0's arguments, the result has t0's view (choices, score, return value, arguments) and the
        weight is the negation of the first edit's weight.  The same clause is PROVED of every class (C06 obligations)."""
        def alternatives(e, cond):
            e = z3.simplify(e)
            if z3.is_app(e) and e.decl().kind() == z3.Z3_OP_ITE:
                c_, x, y = e.children()
                yield from alternatives(x, z3.And(cond, c_))
                yield from alternatives(y, z3.And(cond, z3.Not(c_)))
            else:
                yield e, cond
        for tr_alt, tr_cond in alternatives(tr, z3.BoolVal(True)):
            if z3.is_app(tr_alt) and tr_alt.decl().name() == "gf_edit_tr" and tr_alt.num_args() == 5:
                # (that the earlier edit was G's is a semantic premise too: the function may be written tr_genfn(slice) there)
                self._c06_instance(I, tr_alt, z3.And(tr_cond, tr_alt.arg(0) == g.t), request, rq, ad, t2, w, alternatives)

    def _c06_instance(self, I, tr, tr_cond, request, rq, ad, t2, w, alternatives):
        a = [tr.arg(j) for j in range(5)]
        want = self.edit_bwd(*a)
        ubc = self.c.fn("update_bwd_constraint", U, U)
        # the request IS the backward request of that edit: a semantic premise (decided by the solver under the path condition,
        # e.g. when the request was picked with an index that equals the trace's index only by the loop invariant)
        if isinstance(request, Obj) and request.cls.name == "Update" and isinstance(request.fields.get("constraint"), UVal):
            cands = [request.fields["constraint"].t == ubc(want)]
        else:
            cands = [rq == want]
        t0 = a[2]
        w0 = self.edit_w(*a)
        back = ad == self.tr_args(t0)          # `ad` here: the primal of the argdiffs (the new arguments)
        restored = z3.And(self.tr_choices(t2) == self.tr_choices(t0), self.tr_score(t2) == self.tr_score(t0),
                          self.tr_retval(t2) == self.tr_retval(t0), w == -w0)
        self.c.assume(z3.Implies(z3.And(tr_cond, z3.Or(cands), back), restored))
        _note("C06 for the abstract callee G (assume-guarantee, instantiated lazily): applying an edit's backward request to its "
              "result with argdiffs leading back to the original arguments restores the original view with weight -w")

    # ------------------------------------------------------------------ Diff on partly opaque trees
    def primal_u(self, v):
        return self.I.to_u(self.d_map("primal", v))

    def has_opaque(self, v):
        if isinstance(v, (UVal, TupleT)):
            if isinstance(v, UVal) and v.cls in ("array", "key", "leaf"):
                return False
            return True
        if isinstance(v, (tuple, list)):
            return any(self.has_opaque(x) for x in v)
        if isinstance(v, dict):
            return any(self.has_opaque(x) for x in v.values())
        if isinstance(v, Obj):
            if v.cls.name == "Diff":
                return False
            return any(self.has_opaque(x) for x in v.fields.values())
        return False

    def NoChange(self):
        return self.I.qual(INC + ":NoChange")

    def UnknownChange(self):
        return self.I.qual(INC + ":UnknownChange")

    def Diff(self, p, t):
        ci = self.I.repo.resolve_qual(INC + ":Diff")[1]
        return Obj(ci, {"primal": p, "tangent": t})

    def d_map(self, kind, v):
        I = self.I
        if isinstance(v, Obj) and v.cls.name == "Diff":
            if kind == "primal":
                return v.fields["primal"]
            if kind == "tangent":
                return v.fields["tangent"]
        if isinstance(v, TupleT):
            head = tuple(self.d_map(kind, x) for x in v.head)
            tail = self.d_map(kind, UVal(v.tail, "tuple"))
            return TupleT(head, tail.t)
        if isinstance(v, UVal) and v.cls not in ("array", "key", "leaf"):
            if kind == "primal":
                r = self.d_primal(v.t)
                self.c.assume(self.d_primal(r) == r)
                return UVal(r, v.cls)
            if kind == "tangent":
                return UVal(self.d_tangent(v.t), "tangents")
            if kind in ("no_change", "unknown_change"):
                p = self.d_primal(v.t)
                mk = self.mk_nc if kind == "no_change" else self.mk_uc
                r = mk(p)
                self.c.assume(self.d_primal(r) == p)
                self.c.assume(self.d_primal(p) == p)
                self.c.assume(self.d_is_tree(r))
                if kind == "no_change":
                    self.c.assume(self.d_nc_all(r))
                    self.c.assume(self.d_tangent(r) == self.nc_tree(p))
                else:
                    self.c.assume(self.d_nc_all(r) == self.c.fn("has_no_leaves", U, B)(p))
                return UVal(r, v.cls if v.cls == "tuple" else "retdiff")
        if isinstance(v, Stacked):          # a batch of diff trees (lax.scan / vmap output): the tree map acts on every element
            return Stacked(v.n, lambda i: self.d_map(kind, v.at(i)), tag=f"d_{kind}")
        ch = externals.tree_children(I, v)
        if ch is not None:
            cs, rebuild = ch
            return rebuild([self.d_map(kind, x) for x in cs])
        # leaves
        if kind == "primal":
            return v
        if kind == "tangent":
            return self.NoChange()
        if kind == "no_change":
            return self.Diff(v, self.NoChange())
        if kind == "unknown_change":
            return self.Diff(v, self.UnknownChange())
        raise Unsupported(kind)

    def all_nochange(self, v):
        """z3 Bool: static_check_no_change(v)"""
        I = self.I
        if isinstance(v, Obj) and v.cls.name == "Diff":
            return z3.BoolVal(v.fields["tangent"].cls.name == "_NoChange") if isinstance(v.fields["tangent"], Obj) else \
                self.c.fn("is__NoChange", U, B)(I.to_u(v.fields["tangent"]))
        if isinstance(v, TupleT):
            return z3.And([self.all_nochange(x) for x in v.head] + [self.d_nc_all(v.tail)])
        if isinstance(v, UVal) and v.cls not in ("array", "key", "leaf"):
            return self.d_nc_all(v.t)
        ch = externals.tree_children(I, v)
        if ch is not None:
            ps = [self.all_nochange(x) for x in ch[0]]
            return z3.And(ps) if ps else z3.BoolVal(True)
        return z3.BoolVal(True)

    def is_diff_tree(self, v):
        I = self.I
        if isinstance(v, Obj) and v.cls.name == "Diff":
            return z3.BoolVal(True)
        if isinstance(v, TupleT):
            return z3.And([self.is_diff_tree(x) for x in v.head] + [self.d_is_tree(v.tail)])
        if isinstance(v, UVal) and v.cls not in ("array", "key", "leaf"):
            return self.d_is_tree(v.t)
        ch = externals.tree_children(I, v)
        if ch is not None:
            ps = [self.is_diff_tree(x) for x in ch[0]]
            return z3.And(ps) if ps else z3.BoolVal(True)
        return z3.BoolVal(False)

    # ------------------------------------------------------------------ choice maps (opaque)
    def chm_filter(self, I, c, x):
        if isinstance(x, (bool, SBool)):
            return UVal(z3.If(zbool(x), c.t, self.EMPTY), "ChoiceMap")
        if isinstance(x, Obj) or (isinstance(x, UVal) and x.cls == "Selection"):
            s = I.to_u(x)
            r = self.chm_filter_sel(c.t, s)
            self.c.assume(z3.Implies(s == self.SEL_ALL, r == c.t))
            self.c.assume(z3.Implies(s == self.SEL_NONE, r == self.EMPTY))
            return UVal(r, "ChoiceMap")
        if isinstance(x, UVal):
            return UVal(z3.If(I.ctx.fn("u_truth", U, B)(x.t), c.t, self.EMPTY), "ChoiceMap")
        raise Unsupported(f"ChoiceMap.filter({x!r})")

    def not_zero_length(self, t):
        """values are not zero-length arrays (Choice.build maps those to the empty choice map; listed precondition)"""
        self.c.assume(self.c.fn("shape_of", U, U)(t) != self.I.to_u((0,)))
        self.c.assume(z3.Implies(z3.Not(self.is_Mask(t)), self.d_primal(t) == t))      # choice values carry no Diff leaves
        _note("choice values are not zero-length arrays (Choice.build turns a shape-(0,) array into the empty map)")

    def chm_get_value(self, I, c):
        v = self.chm_value(c.t)
        self.c.assume(z3.Not(z3.And(self.is_None(v), self.is_Mask(v))))
        self.not_zero_length(v)
        return UVal(v, "maybe")

    def chm_get_inner_map(self, I, c, addr):
        a = I.to_u(addr)
        self.c.assume(self.chm_inner(self.EMPTY, a) == self.EMPTY)
        return UVal(self.chm_inner(c.t, a), "ChoiceMap")

    def chm_static_is_empty(self, I, c):
        return SBool(self.chm_static_empty(c.t), True)

    def chm_or_(self, I, a, b):
        bt = I.to_u(b)
        r = self.chm_or(a.t, bt)
        self.c.assume(z3.Implies(bt == self.EMPTY, r == a.t))
        self.c.assume(z3.Implies(a.t == self.EMPTY, r == bt))
        return UVal(r, "ChoiceMap")

    def chm_get_selection(self, I, c):
        return UVal(self.chm_sel(c.t), "Selection")

    # ------------------------------------------------------------------ selections (opaque)
    def sel_check_(self, I, s):
        return SBool(self.sel_check(s.t), True)

    def sel_sub_(self, I, s, addr):
        t = s.t
        a = I.to_u(addr)
        if z3.is_app(t) and t.decl().name() == "sel_not":
            return self.sel_invert(I, self.sel_sub_(I, UVal(t.arg(0), "Selection"), addr))
        r = self.sel_sub(t, a)
        self.sel_nf(r)
        self.c.assume(z3.Implies(t == self.SEL_ALL, r == self.SEL_ALL))
        self.c.assume(z3.Implies(t == self.SEL_NONE, r == self.SEL_NONE))
        return UVal(r, "Selection")

    def sel_nf(self, t):
        """normal form of selections (established by the simplifying constructors, proved in contracts/selection.py):
        a ComplementSel never wraps AllSel / NoneSel / ComplementSel"""
        f = self.c.fn
        isC, isA, isN = f("is_ComplementSel", U, B), f("is_AllSel", U, B), f("is_NoneSel", U, B)
        s = f("ComplementSel.s", U, U)(t)
        self.c.assume(z3.Implies(isC(t), z3.And(z3.Not(isA(s)), z3.Not(isN(s)), z3.Not(isC(s)))))

    def view_hook(self, I, v, o):
        if v.cls == "Selection":
            for x in o.fields.values():
                if isinstance(x, UVal) and x.cls == "Selection":
                    self.sel_nf(x.t)
        if o.cls.name == "Mask":
            x = o.fields["value"]
            if isinstance(x, UVal):          # Mask.__init__ asserts that a Mask never wraps a Mask
                self.c.assume(z3.Not(self.is_Mask(x.t)))
                self.c.assume(z3.Not(self.is_None(x.t)))
                self.not_zero_length(x.t)

    def unpack_hook(self, I, v, outs):
        """Diff.tree_primal / tree_tangent are tree maps: they commute with tuple projection"""
        n = len(outs)
        for i, o in enumerate(outs):
            pr = self.c.fn(f"proj_{n}_{i}", U, U)
            self.c.assume(self.d_primal(o.t) == pr(self.d_primal(v.t)))
            self.c.assume(self.d_tangent(o.t) == pr(self.d_tangent(v.t)))

    def sel_invert(self, I, s):
        r = self.sel_not(s.t)
        self.c.assume(self.sel_check(r) == z3.Not(self.sel_check(s.t)))
        self.c.assume(z3.Implies(s.t == self.SEL_ALL, r == self.SEL_NONE))
        self.c.assume(z3.Implies(s.t == self.SEL_NONE, r == self.SEL_ALL))
        _note("C18 lemmas used on opaque selections: check(~S) = not check(S); (~S)(a) = ~(S(a))")
        return UVal(r, "Selection")


class Theory:
    """installs externals + the abstract GFI vocabulary into an interpreter"""

    def __init__(self):
        self.t = None

    def install(self, I):
        externals.install(I)
        self.t = t = T(I)
        I.T = t
        I.view_hook = t.view_hook
        I.unpack_hook = t.unpack_hook
        from . import dist, incr, static_lang
        dist.install(I)
        incr.install(I)
        static_lang.install(I)
        from . import vector, adev
        vector.install(I)
        adev.install(I)

        # observational meaning of concrete choice-map nodes when they flow into abstract callees (C17 lemmas):
        #   Static({})                      is the empty map
        #   Switch(idx, [m_0..m_{n-1}])     (built only by Switch.build / get_inner_map, so m_j is masked by j == idx)
        #                                   is m_idx, and empty when idx is out of range
        def chm_switch_meaning(I, o):
            idx, chms = o.fields["idx"], o.fields["chms"]
            if not isinstance(chms, list):
                return None
            it = zint(idx)
            r = t.EMPTY
            for j in range(len(chms) - 1, -1, -1):
                r = z3.If(it == j, I.to_u(chms[j]), r)
            _note("C17 lemma: ChoiceMap.switch(idx, cs) is observationally cs[idx] (empty when idx is out of range)")
            return r

        def chm_static_meaning(I, o):
            if isinstance(o.fields.get("mapping"), dict) and not o.fields["mapping"]:
                return t.EMPTY
            return None
        I.to_u_hooks = {CM + ":Switch": chm_switch_meaning, CM + ":Static": chm_static_meaning}
        I.abstract_classes = {
            "Trace": GF + ":Trace", "GenerativeFunction": GF + ":GenerativeFunction", "ChoiceMap": CM + ":ChoiceMap",
            "Selection": CM + ":Selection", "EditRequest": CONCEPTS + ":EditRequest",
        }
        am = I.abstract_methods
        am[("Trace", "get_args")] = lambda I, s: UVal(t.tr_args(s.t), "tuple")
        am[("Trace", "get_retval")] = lambda I, s: UVal(t.tr_retval(s.t))
        am[("Trace", "get_score")] = lambda I, s: SReal(t.tr_score(s.t))
        am[("Trace", "get_choices")] = lambda I, s: UVal(t.tr_choices(s.t), "ChoiceMap")
        am[("Trace", "get_gen_fn")] = lambda I, s: UVal(t.tr_genfn(s.t), "GenerativeFunction")
        am[("Trace", "get_inner_trace")] = lambda I, s, addr: UVal(I.ctx.fn("tr_inner", U, U, U)(s.t, I.to_u(addr)), "Trace")
        am[("GenerativeFunction", "simulate")] = t.gf_simulate
        am[("GenerativeFunction", "assess")] = t.gf_assess
        am[("GenerativeFunction", "generate")] = t.gf_generate
        am[("GenerativeFunction", "project")] = t.gf_project
        am[("GenerativeFunction", "edit")] = t.gf_edit

        def req_edit(I, rq, key, tr, argdiffs):
            # an opaque request applied to a trace: PrimitiveEditRequest.edit = tr.get_gen_fn().edit(key, tr, rq, argdiffs);
            # for an opaque generative function gf_edit_* are uninterpreted in the request, i.e. this is the general
            # EditRequest.edit contract (some well-formed trace of the same function at the new arguments)
            _note("opaque sub-requests are applied through the trace's generative function (PrimitiveEditRequest.edit)")
            g = I.call_method(tr, "get_gen_fn", [], {})
            return I.call_method(g, "edit", [key, tr, rq, argdiffs], {})
        am[("EditRequest", "edit")] = req_edit
        am[("ChoiceMap", "filter")] = t.chm_filter
        am[("ChoiceMap", "get_value")] = t.chm_get_value
        am[("ChoiceMap", "get_inner_map")] = t.chm_get_inner_map
        am[("ChoiceMap", "static_is_empty")] = t.chm_static_is_empty
        am[("ChoiceMap", "__or__")] = t.chm_or_
        am[("ChoiceMap", "merge")] = t.chm_or_
        am[("ChoiceMap", "get_selection")] = t.chm_get_selection
        am[("Selection", "check")] = t.sel_check_
        am[("Selection", "get_subselection")] = t.sel_sub_
        am[("Selection", "__invert__")] = t.sel_invert

        def prim_bind(I, prim, *args, **params):
            f = I.ctx.fn("prim_bind", U, U, U, U)
            r = f(prim.t, I.to_u(tuple(args)), I.to_u(params))
            I.ctx.assume(t.d_primal(r) == r)      # outputs of a primitive are plain arrays (no Diff leaves)
            return UVal(r)
        am[("Primitive", "bind")] = prim_bind

        # Diff helpers: real bodies on structured trees, laws (C21 lemmas) on opaque sub-trees
        def wrap(kind):
            def f(I, v):
                if not t.has_opaque(v):
                    return I.call_function(I.qual(INC + ":Diff." + NAMES[kind]), [v], {}, no_override=True)
                return t.d_map(kind, v)
            return f
        NAMES = {"primal": "tree_primal", "tangent": "tree_tangent", "no_change": "no_change", "unknown_change": "unknown_change"}
        for kind, nm in NAMES.items():
            I.overrides[INC + ":Diff." + nm] = wrap(kind)

        def scnc(I, v):
            if not t.has_opaque(v):
                return I.call_function(I.qual(INC + ":Diff.static_check_no_change"), [v], {}, no_override=True)
            return SBool(t.all_nochange(v), True)

        def sctd(I, v):
            if not t.has_opaque(v):
                return I.call_function(I.qual(INC + ":Diff.static_check_tree_diff"), [v], {}, no_override=True)
            return SBool(t.is_diff_tree(v), True)

        def tdiff(I, p, tg):
            if not (t.has_opaque(p) or t.has_opaque(tg)):
                return I.call_function(I.qual(INC + ":Diff.tree_diff"), [p, tg], {}, no_override=True)
            if isinstance(p, TupleT) and isinstance(tg, TupleT) and len(p.head) == len(tg.head):
                head = tuple(tdiff(I, a, b) for a, b in zip(p.head, tg.head))
                tail = tdiff(I, UVal(p.tail, "tuple"), UVal(tg.tail, "tangents"))
                return TupleT(head, tail.t)
            if isinstance(tg, Obj) and tg.cls.name in ("_NoChange", "_UnknownChange") and not isinstance(p, (UVal, TupleT)):
                return t.Diff(p, tg)
            chp, cht = externals.tree_children(I, p), externals.tree_children(I, tg)
            if chp is not None and cht is not None and len(chp[0]) == len(cht[0]) and not isinstance(p, UVal):
                return chp[1]([tdiff(I, a, b) for a, b in zip(chp[0], cht[0])])
            pt, tt = I.to_u(p), I.to_u(tg)
            r = t.mk_diff(pt, tt)
            I.ctx.assume(t.d_primal(r) == pt)
            I.ctx.assume(t.d_tangent(r) == tt)
            I.ctx.assume(t.d_is_tree(r))
            if getattr(I, "INCR", None) is not None:
                I.INCR.link(r)
            I.ctx.assume(z3.Implies(tt == t.nc_tree(pt), t.d_nc_all(r)))
            I.ctx.assume(z3.Implies(z3.And(tt == t.nc_tree(pt), t.d_primal(pt) == pt), r == t.mk_nc(pt)))
            return UVal(r, p.cls if isinstance(p, UVal) else None)
        I.overrides[INC + ":Diff.static_check_no_change"] = scnc
        I.overrides[INC + ":Diff.static_check_tree_diff"] = sctd
        I.overrides[INC + ":Diff.tree_diff"] = tdiff
        # shape validation of Mask: shapes are not modelled (flags are scalar under each contract's `requires`)
        FT = "genjax._src.core.generative.functional_types"
        I.overrides[FT + ":Mask._validate_init"] = externals.noop
        I.overrides[FT + ":Mask._validate_mask_shapes"] = externals.noop
