"""The static modelling language: what running an ARBITRARY source program under a handler does.

"All programs" of the static language = all finite sequences of `trace(addr, gen_fn, args)` sites whose arguments are
functions of the program inputs and of earlier return values (everything else is handler-free JAX code, C36).
The proof is split in two, as in DESIGN.md §1:

 * step obligations (contracts/static_handlers.py): the REAL `handle_trace` of each handler, executed symbolically on an
   arbitrary handler state, preserves the handler invariant and has the stated effect on one site;
 * glue obligations (contracts/static_gfi.py): the REAL transforms / StaticTrace / StaticGenerativeFunction methods, with
   `stateful(f)(handler, *args)` and `incremental(f)(handler, primals, tangents)` replaced by THIS model, which leaves the
   handler in an arbitrary state satisfying the invariant the step obligations establish (induction over the sites; for the
   relation between two runs of the same program the induction additionally uses A11: staging is deterministic, so equal
   inputs and equal site return values give the same site sequence).
"""
from __future__ import annotations

import z3

from pyvc.interp_call import SymMapView
from pyvc.values import NativeFn, Obj, SBool, SInt, SReal, StarOpaque, SymMap, TupleT, U, UVal, Unsupported
from . import externals

STATIC = "genjax._src.generative_functions.static"
STATEFUL = "genjax._src.core.compiler.interpreters.stateful"
INC = "genjax._src.core.compiler.interpreters.incremental"
R, B = z3.RealSort(), z3.BoolSort()
AB, AU = z3.ArraySort(U, B), z3.ArraySort(U, U)


class MapImage:
    """[f(x) for x in d.values()] over a symbolic dict"""

    def __init__(self, m, fn):
        self.m, self.fn = m, fn


class SL:
    def __init__(self, I):
        self.I, self.c, self.T = I, I.ctx, I.T
        f = self.c.fn
        self.chm_of_traces = f("choices_of_subtraces", AB, AU, U)
        self.chm_of_chms = f("choicemap_from_mapping", AB, AU, U)
        self.prog_ret = f("program_retval", U, U, AB, AU, U)          # (source, args, site map)
        self.prog_retdiff = f("program_retdiff", U, U, U, AB, AU, U)    # (source, primals, tangents, site map)
        self.sim_sites_has = f("simulate_sites_dom", U, U, U, AB)      # (source, key, args)
        self.sim_sites_val = f("simulate_sites", U, U, U, AU)
        self.EMPTY_HAS = z3.K(U, z3.BoolVal(False))

    # ------------------------------------------------------------------ finite-map sums (A6 on finite maps)
    def mapsum(self, m: SymMap, key: str):
        return self.c.fn("mapsum:" + key, AB, AU, R)(m.has, m.val)

    def sum_of_image(self, img: MapImage):
        x = UVal(self.c.const("elem", U), img.m.elem_cls)
        r = img.fn(x)
        if not isinstance(r, SReal):
            raise Unsupported("sum over a dict image of non-reals")
        key = str(z3.substitute(r.t, (x.t, z3.Const("x", U))))
        externals._used("A6: a finite sum over the values of a dict is extensional and additive under insertion of a new key")
        return SReal(self.mapsum(img.m, key))

    def insert_fact(self, before: SymMap, k, v_term, key: str, inc):
        """ghost lemma instance: sum over (m + {k: v}) = sum over m + f(v)   when k is not in m"""
        after = SymMap(z3.Store(before.has, k, z3.BoolVal(True)), z3.Store(before.val, k, v_term))
        self.c.assume(z3.Implies(z3.Not(z3.Select(before.has, k)), self.mapsum(after, key) == self.mapsum(before, key) + inc))

    def empty_fact(self, m: SymMap, key: str):
        self.c.assume(z3.Implies(m.has == self.EMPTY_HAS, self.mapsum(m, key) == 0))

    # ------------------------------------------------------------------ StaticTrace over a symbolic site map
    def trace_get_choices(self, I, tr):
        m = tr.fields["subtraces"]
        if not isinstance(m, SymMap):
            return I.call_function(I.qual(STATIC + ":StaticTrace.get_choices"), [tr], {}, no_override=True)
        externals._used("C17/C22 lemma: ChoiceMap.d({a: c_a}) over prefix-free addresses has submap c_a at a and is empty elsewhere")
        return UVal(self.chm_of_traces(m.has, m.val), "ChoiceMap")

    def submap_fact(self, m: SymMap, addr_t):
        """lemma instance (C17/C22): lookup of one traced address in the trace's choice map"""
        T = self.T
        c = self.chm_of_traces(m.has, m.val)
        self.c.assume(T.chm_inner(c, addr_t) == z3.If(z3.Select(m.has, addr_t), T.tr_choices(z3.Select(m.val, addr_t)), T.EMPTY))
        self.c.assume(z3.Implies(z3.Select(m.has, addr_t), z3.Not(T.chm_static_empty(T.tr_choices(z3.Select(m.val, addr_t))))))

    def fresh_sites(self, name, elem_cls="Trace"):
        return SymMap(self.c.const(name + "_dom", AB), self.c.const(name + "_val", AU), elem_cls, name)

    # ------------------------------------------------------------------ running a program under a handler
    def stateful(self, I, f):
        def run(I, handler, *args):
            return self.run_program(I, f, handler, args)
        return NativeFn("stateful(f)", run)

    def args_u(self, args):
        args = list(args)
        return self.I.pack_args(args)

    def run_program(self, I, f, handler, args):
        T = self.T
        cls = handler.cls.name
        src, au = I.to_u(f), self.args_u(args)
        if cls == "SimulateHandler":
            k = I.to_u(handler.fields["key"])
            sites = SymMap(self.sim_sites_has(src, k, au), self.sim_sites_val(src, k, au), "Trace", "sim_sites")
            n = self.c.const("n_sites", z3.IntSort())
            self.c.assume(n >= 0)
            handler.fields["traces"] = sites
            handler.fields["key_counter"] = SInt(1 + n, True)
            return UVal(self.prog_ret(src, au, sites.has, sites.val))
        if cls == "AssessHandler":
            sample = handler.fields["choice_map_sample"]
            st = I.to_u(sample)
            score = self.c.fn("static_assess_score", U, U, U, R)(src, st, au)
            ret = self.c.fn("static_assess_ret", U, U, U, U)(src, st, au)
            handler.fields["score"] = I.binop("Add", handler.fields["score"], SReal(score))
            return UVal(ret)
        if cls == "GenerateHandler":
            k, cn = I.to_u(handler.fields["key"]), I.to_u(handler.fields["choice_map"])
            sites = SymMap(self.c.fn("generate_sites_dom", U, U, U, U, AB)(src, k, cn, au),
                           self.c.fn("generate_sites", U, U, U, U, AU)(src, k, cn, au), "Trace", "gen_sites")
            handler.fields["traces"] = sites
            handler.fields["weight"] = I.binop("Add", handler.fields["weight"],
                                               SReal(self.c.fn("generate_sites_weight", U, U, U, U, R)(src, k, cn, au)))
            return UVal(self.prog_ret(src, au, sites.has, sites.val))
        raise Unsupported(f"stateful run under {cls}")

    def lockstep_assess(self, sites: SymMap, src_t, args_t):
        """LEMMA INSTANCE (by induction over the sites from the step obligations `C01.AssessHandler.handle_trace.lockstep`
        and A11): assessing the choices of a run of program `src` on `args`, whose sites hold well-formed traces, visits the
        same sites, returns the same value and accumulates the sum of the site scores."""
        st = self.chm_of_traces(sites.has, sites.val)
        score = self.c.fn("static_assess_score", U, U, U, R)(src_t, st, args_t)
        ret = self.c.fn("static_assess_ret", U, U, U, U)(src_t, st, args_t)
        self.c.assume(score == self.mapsum(sites, "tr_score(x)"))
        self.c.assume(ret == self.prog_ret(src_t, args_t, sites.has, sites.val))
        externals._used("static language: induction over the trace sites of a program (step obligations on the real handle_trace "
                        "methods + A11 deterministic staging) lifts the per-site lockstep to whole runs")

    def incremental(self, I, f):
        inner = I.INCR.incremental(I, f)

        def run(I, handler, primals, tangents):
            if handler is None:
                return inner.fn(I, None, primals, tangents)
            return self.run_incremental(I, f, handler, primals, tangents)
        return NativeFn("incremental(f)", run)

    def run_incremental(self, I, f, handler, primals, tangents):
        T = self.T
        cls = handler.cls.name
        src, pu, tu = I.to_u(f), I.to_u(primals), I.to_u(tangents)
        prev = handler.fields["previous_trace"]
        pt = I.to_u(prev)
        k = I.to_u(handler.fields["key"])
        if cls == "UpdateHandler":
            what = I.to_u(handler.fields["constraint"])
        elif cls == "StaticEditRequestHandler":
            what = I.to_u(handler.fields["addressed"])
        elif cls == "RegenerateRequestHandler":
            what = I.to_u(handler.fields["selection"])
        else:
            raise Unsupported(f"incremental run under {cls}")
        fn = self.c.fn
        sites = SymMap(fn("edit_sites_dom", U, U, U, U, U, U, AB)(src, k, pt, what, pu, tu),
                       fn("edit_sites", U, U, U, U, U, U, AU)(src, k, pt, what, pu, tu), "Trace", "edit_sites")
        handler.fields["traces"] = sites
        w = fn("edit_sites_weight", U, U, U, U, U, U, R)(src, k, pt, what, pu, tu)
        handler.fields["weight"] = I.binop("Add", handler.fields["weight"], SReal(w))
        bw = fn("edit_sites_bwd", U, U, U, U, U, U, U)(src, k, pt, what, pu, tu)
        key = "bwd_constraints" if cls == "UpdateHandler" else "bwd_requests"
        handler.fields[key] = UVal(bw, "bwd-list")
        rd = self.prog_retdiff(src, pu, tu, sites.has, sites.val)
        self.c.assume(T.d_primal(rd) == self.prog_ret(src, pu, sites.has, sites.val))
        self.c.assume(T.d_primal(self.prog_ret(src, pu, sites.has, sites.val)) == self.prog_ret(src, pu, sites.has, sites.val))
        I.INCR.link(rd)
        return UVal(rd, "retdiff")


def install(I):
    sl = SL(I)
    I.SL = sl
    I.overrides[STATEFUL + ":stateful"] = sl.stateful
    I.overrides[INC + ":incremental"] = sl.incremental
    I.overrides[STATIC + ":StaticTrace.get_choices"] = sl.trace_get_choices
    # comprehension over dict.values() of a symbolic dict, jnp.array / jnp.sum of it
    old_array, old_sum = I.ext["jax.numpy.array"], I.ext["jax.numpy.sum"]

    def arr(I, x, *a, **k):
        if isinstance(x, MapImage):
            return x
        return old_array(I, x, *a, **k)

    def sm(I, x, *a, **k):
        if isinstance(x, MapImage):
            return sl.sum_of_image(x)
        return old_sum(I, x, *a, **k)
    CMQ = "genjax._src.core.generative.choice_map:ChoiceMap.from_mapping"

    def from_mapping(I, pairs):
        from pyvc.interp_call import ZippedSites
        if isinstance(pairs, ZippedSites):
            vals = I.ctx.fn("per_site_values", U, AU)(pairs.values.t)
            externals._used("C17/C22 lemma: ChoiceMap.from_mapping(zip(addresses, maps)) has maps[i] under addresses[i]")
            return UVal(sl.chm_of_chms(pairs.m.has, vals), "ChoiceMap")
        return I.call_function(I.qual(CMQ), [pairs], {}, no_override=True)
    I.overrides[CMQ] = from_mapping
    I.ext["jax.numpy.array"] = arr
    I.ext["jax.numpy.asarray"] = arr
    I.ext["jax.numpy.sum"] = sm
    I.map_image = MapImage
