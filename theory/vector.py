"""jax.vmap / jnp.take / lax.scan: the defining equations of the vector primitives (assumption A4).

 vmap(f, in_axes)(xs...)      = Stacked(n, i -> f(slice_i(xs...)))          n symbolic (>= 0)
 lax.scan(f, init, xs, length)  = left fold; modelled by per-call uninterpreted "carry at step i" functions with the
                                  unfolding equations available at any index (see `Scan` below)
"""
from __future__ import annotations

import z3

from pyvc.interp_ops import zint
from pyvc.values import NativeFn, Obj, PyRaise, SBool, SInt, SReal, Stacked, StarOpaque, TupleT, U, UVal, Unsupported
from . import externals

Z = z3.IntSort()


def index0(I, v, i):
    """element i along the leading axis of a (pytree of) batched value(s)"""
    if isinstance(v, Stacked):
        return v.at(i)
    if isinstance(v, UVal):
        externals._used("A4: v[i] / jnp.take(v, i, axis=0) of a batched pytree is its i-th slice")
        return UVal(I.ctx.fn("axis0_index", U, Z, U)(v.t, i), v.cls)
    if isinstance(v, TupleT):
        raise Unsupported("slice of tuple with opaque tail")
    ch = externals.tree_children(I, v)
    if ch is not None:
        return ch[1]([index0(I, c, i) for c in ch[0]])
    raise Unsupported(f"leading-axis index of scalar {type(v).__name__}")


def slice_spec(I, spec, arg, i):
    if spec is None:
        return arg
    if isinstance(spec, bool):
        raise Unsupported("bool in_axes")
    if isinstance(spec, int):
        if spec != 0:
            raise Unsupported("in_axes other than 0 / None")
        return index0(I, arg, i)
    if isinstance(spec, (tuple, list)):
        if isinstance(arg, (tuple, list)) and len(arg) == len(spec):
            return type(arg)(slice_spec(I, s, a, i) for s, a in zip(spec, arg))
        if isinstance(arg, UVal) and arg.cls == "tuple":
            parts = I.unpack(arg, len(spec))
            return tuple(slice_spec(I, s, a, i) for s, a in zip(spec, parts))
        raise PyRaise("ValueError", ("vmap in_axes does not match the arguments",))
    if isinstance(spec, UVal):
        externals._used("A4: vmap slices each argument as prescribed by in_axes (opaque in_axes: uninterpreted slicing)")
        return UVal(I.ctx.fn("vmap_slice", U, U, Z, U)(spec.t, I.to_u(arg), i), getattr(arg, "cls", None))
    raise Unsupported(f"in_axes spec {spec!r}")


def batch_len(I, spec, arg):
    """symbolic length of the mapped axis"""
    if spec is None:
        return None
    if isinstance(spec, int):
        if isinstance(arg, Stacked):
            return arg.n if not isinstance(arg.n, int) else z3.IntVal(arg.n)
        if isinstance(arg, UVal):
            n = I.ctx.fn("axis0_len", U, Z)(arg.t)
            I.ctx.assume(n >= 0)
            return n
        ch = externals.tree_children(I, arg)
        if ch:
            for c in ch[0]:
                r = batch_len(I, spec, c)
                if r is not None:
                    return r
        return None
    if isinstance(spec, (tuple, list)):
        if isinstance(arg, UVal) and arg.cls == "tuple":
            arg = I.unpack(arg, len(spec))
        if isinstance(arg, (tuple, list)):
            for s, a in zip(spec, arg):
                r = batch_len(I, s, a)
                if r is not None:
                    return r
        return None
    if isinstance(spec, UVal):
        n = I.ctx.fn("vmap_len", U, U, Z)(spec.t, I.to_u(arg))
        I.ctx.assume(n >= 0)
        return n
    return None


def jax_vmap(I, f, in_axes=0, out_axes=0, **kw):
    externals._used("A4: jax.vmap(f, in_axes)(xs)[i] = f(slices_i(xs)); the mapped axis lengths agree")

    def mapped(I, *args, **kwargs):
        if kwargs:
            raise Unsupported("vmap with keyword arguments")
        spec = in_axes
        if isinstance(spec, int) or spec is None:
            spec = tuple(spec for _ in args)
        n = batch_len(I, spec, tuple(args))
        if n is None:
            raise PyRaise("ValueError", ("vmap must have at least one non-None value in in_axes",))

        def elem(i):
            sl = slice_spec(I, spec, tuple(args), i)
            return I.call(f, list(sl), {})
        return Stacked(n, elem, tag="vmap")
    return NativeFn("vmap(f)", mapped)


def jnp_take(I, v, idx, axis=None):
    if axis not in (0, None):
        raise Unsupported("jnp.take on axis != 0")
    return index0(I, v, zint(idx))


def install(I):
    I.ext["jax.vmap"] = jax_vmap
    I.ext["jax.numpy.take"] = jnp_take
