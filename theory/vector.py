"""jax.vmap / jnp.take / lax.scan: the defining equations of the vector primitives (assumption A4).

 vmap(f, in_axes)(xs...)      = Stacked(n, i -> f(slice_i(xs...)))          n symbolic (>= 0)
 lax.scan(f, init, xs, length)  = left fold; modelled by per-call uninterpreted "carry at step i" functions with the
                                  unfolding equations available at any index (see `Scan` below)
"""
from __future__ import annotations

import z3

from pyvc.interp_ops import zint
from pyvc.values import NativeFn, Obj, PyRaise, SBool, SInt, SReal, Stacked, StarOpaque, TupleT, U, UVal, Unsupported
from . import externals

Z = z3.IntSort()


def index0(I, v, i):
    """element i along the leading axis of a (pytree of) batched value(s)"""
    if isinstance(v, Stacked):
        return v.at(i)
    if isinstance(v, UVal):
        externals._used("A4: v[i] / jnp.take(v, i, axis=0) of a batched pytree is its i-th slice")
        return UVal(I.ctx.fn("axis0_index", U, Z, U)(v.t, i), v.cls)
    if isinstance(v, TupleT):
        raise Unsupported("slice of tuple with opaque tail")
    ch = externals.tree_children(I, v)
    if ch is not None:
        return ch[1]([index0(I, c, i) for c in ch[0]])
    raise Unsupported(f"leading-axis index of scalar {type(v).__name__}")


def index_axis(I, v, axis, i):
    """slice i along `axis` of a (pytree of) batched value(s)"""
    if axis == 0:
        return index0(I, v, i)
    if isinstance(v, UVal):
        externals._used("A4: jnp.take(v, i, axis=k) / vmap with in_axes=k slice along axis k")
        return UVal(I.ctx.fn("axis_index", U, Z, Z, U)(v.t, z3.IntVal(axis), i), v.cls)
    ch = externals.tree_children(I, v)
    if ch is not None:
        return ch[1]([index_axis(I, c, axis, i) for c in ch[0]])
    raise Unsupported(f"axis-{axis} index of {type(v).__name__}")


def slice_spec(I, spec, arg, i):
    if spec is None:
        return arg
    if isinstance(spec, bool):
        raise Unsupported("bool in_axes")
    if isinstance(spec, int):
        if spec < 0:
            raise Unsupported("negative in_axes")
        return index_axis(I, arg, spec, i)
    if isinstance(spec, (tuple, list)):
        if isinstance(arg, (tuple, list)) and len(arg) == len(spec):
            return type(arg)(slice_spec(I, s, a, i) for s, a in zip(spec, arg))
        if isinstance(arg, UVal) and arg.cls == "tuple":
            parts = I.unpack(arg, len(spec))
            return tuple(slice_spec(I, s, a, i) for s, a in zip(spec, parts))
        raise PyRaise("ValueError", ("vmap in_axes does not match the arguments",))
    if isinstance(spec, UVal):
        externals._used("A4: vmap slices each argument as prescribed by in_axes (opaque in_axes: uninterpreted slicing)")
        return UVal(I.ctx.fn("vmap_slice", U, U, Z, U)(spec.t, I.to_u(arg), i), getattr(arg, "cls", None))
    raise Unsupported(f"in_axes spec {spec!r}")


def batch_len(I, spec, arg):
    """symbolic length of the mapped axis"""
    if spec is None:
        return None
    if isinstance(spec, int):
        if isinstance(arg, Stacked):
            return arg.n if not isinstance(arg.n, int) else z3.IntVal(arg.n)
        if isinstance(arg, UVal):
            n = I.ctx.fn("axis0_len", U, Z)(arg.t) if spec == 0 else I.ctx.fn("axis_len", U, Z, Z)(arg.t, z3.IntVal(spec))
            I.ctx.assume(n >= 0)
            return n
        ch = externals.tree_children(I, arg)
        if ch:
            for c in ch[0]:
                r = batch_len(I, spec, c)
                if r is not None:
                    return r
        return None
    if isinstance(spec, (tuple, list)):
        if isinstance(arg, UVal) and arg.cls == "tuple":
            arg = I.unpack(arg, len(spec))
        if isinstance(arg, (tuple, list)):
            for s, a in zip(spec, arg):
                r = batch_len(I, s, a)
                if r is not None:
                    return r
        return None
    if isinstance(spec, UVal):
        n = I.ctx.fn("vmap_len", U, U, Z)(spec.t, I.to_u(arg))
        I.ctx.assume(n >= 0)
        return n
    return None


def jax_vmap(I, f, in_axes=0, out_axes=0, **kw):
    externals._used("A4: jax.vmap(f, in_axes)(xs)[i] = f(slices_i(xs)); the mapped axis lengths agree")

    def mapped(I, *args, **kwargs):
        if kwargs:
            raise Unsupported("vmap with keyword arguments")
        spec = in_axes
        if isinstance(spec, int) or spec is None:
            spec = tuple(spec for _ in args)
        n = batch_len(I, spec, tuple(args))
        if n is None:
            raise PyRaise("ValueError", ("vmap must have at least one non-None value in in_axes",))

        def elem(i):
            sl = slice_spec(I, spec, tuple(args), i)
            if isinstance(sl, UVal):          # opaque in_axes: the slice of the argument tuple is an opaque tuple
                sl = I.unpack(sl, len(args))
            return I.call(f, list(sl), {})
        st = Stacked(n, elem, tag="vmap")
        # jax traces the mapped function once whatever the length: Python-level errors (wrong arity ...) surface here
        st.at(I.ctx.const("ivmap_trace", Z))
        return st
    return NativeFn("vmap(f)", mapped)


def jnp_take(I, v, idx, axis=None):
    if axis is not None and not isinstance(axis, int):
        raise Unsupported("jnp.take with a symbolic axis")
    return index_axis(I, v, axis or 0, zint(idx))


def install(I):
    I.ext["jax.vmap"] = jax_vmap
    I.ext["jax.numpy.take"] = jnp_take
    I.ext["jax.lax.scan"] = lax_scan
    I.ext["jax.numpy.concatenate"] = jnp_concatenate
    I.newaxis_cls = NewAxis


# ====================================================================================== lax.scan
class ScanCall:
    """one call  lax.scan(f, init, xs, length): the fold is represented by per-leaf functions of the step index
    (`carry_at(i)`), with the defining equations  carry_at(0) = init,  (carry_at(i+1), ys[i]) = f(carry_at(i), xs[i])
    available at any index (A4).  Properties of all iterations are obtained through `prove_invariant` (induction)."""

    def __init__(self, I, f, init, xs, n, tag):
        self.I, self.f, self.init, self.xs, self.n, self.tag = I, f, init, xs, n, tag
        self.leaf_fns = []
        self.invariants = []
        self._mk_leaf_fns(init)
        self.unfolded = set()
        c0 = self.carry_at(z3.IntVal(0))
        e = I.veq(c0, init, obs=False)
        I.ctx.assume(e if not isinstance(e, bool) else z3.BoolVal(e))

    def _mk_leaf_fns(self, init):
        c = self.I.ctx
        k = [0]

        def mk(leaf):
            k[0] += 1
            nm = c.fresh_name(f"scan_{self.tag}_leaf{k[0]}")
            if isinstance(leaf, (SReal, float)):
                return ("real", c.fn(nm, Z, z3.RealSort()))
            if isinstance(leaf, (SInt, int)) and not isinstance(leaf, bool):
                return ("int", c.fn(nm, Z, Z))
            if isinstance(leaf, (SBool, bool)):
                return ("bool", c.fn(nm, Z, z3.BoolSort()))
            if isinstance(leaf, UVal):
                return ("u:" + str(leaf.cls), c.fn(nm, Z, U))
            raise Unsupported(f"scan carry leaf {type(leaf).__name__}")
        self.shape = externals.map_leaves(self.I, mk, init)

    def _inst(self, make):
        def rec(s):
            if isinstance(s, tuple) and len(s) == 2 and isinstance(s[0], str) and not isinstance(s[1], (tuple, list, dict, str)):
                return make(*s)
            if isinstance(s, tuple):
                return tuple(rec(x) for x in s)
            if isinstance(s, list):
                return [rec(x) for x in s]
            if isinstance(s, dict):
                return {k: rec(v) for k, v in s.items()}
            if s is None:
                return None
            if isinstance(s, Obj):
                return Obj(s.cls, {k: rec(v) for k, v in s.fields.items()})
            raise Unsupported("scan carry structure")
        return rec(self.shape)

    @staticmethod
    def _wrap(kind, t):
        if kind == "real":
            return SReal(t)
        if kind == "int":
            return SInt(t, False)
        if kind == "bool":
            return SBool(t, False)
        cls = kind[2:]
        return UVal(t, None if cls == "None" else cls)

    def carry_at(self, i):
        return self._inst(lambda kind, fn: self._wrap(kind, fn(i)))

    def arbitrary_carry(self):
        c = self.I.ctx
        sorts = {"real": z3.RealSort(), "int": Z, "bool": z3.BoolSort()}
        return self._inst(lambda kind, fn: self._wrap(kind, c.const("carry_any", sorts.get(kind, U))))

    def x_at(self, i):
        if self.xs is None:
            return None
        return index0(self.I, self.xs, i)

    def step(self, carry, i):
        r = self.I.call(self.f, [carry, self.x_at(i)], {})
        c2, y = self.I.unpack(r, 2)
        return c2, y

    def unfold(self, i):
        """defining equation at index i: carry_at(i+1) == f(carry_at(i), xs[i]).carry ; returns ys[i]"""
        from pyvc import values as _v
        key = i.get_id()
        if not hasattr(self, "_ys"):
            self._ys = {}
        hit = self._ys.get(key)
        if hit is not None and hit[0].eq(i) and _v.scope_valid(hit[2]):
            return hit[1]
        for inv in self.invariants:
            self.I.ctx.assume(z3.Implies(z3.And(i >= 0, i <= self.n), inv(i, self.carry_at(i))))
        c2, y = self.step(self.carry_at(i), i)
        e = self.I.veq(self.carry_at(i + 1), c2, obs=False)
        self.I.ctx.assume(z3.Implies(z3.And(i >= 0, i < self.n), e if not isinstance(e, bool) else z3.BoolVal(e)))
        self._ys[key] = (i, y, tuple(_v.SCOPES))
        return y

    def use_invariants(self, i):
        for inv in self.invariants:
            self.I.ctx.assume(z3.Implies(z3.And(i >= 0, i <= self.n), inv(i, self.carry_at(i))))

    def prove_invariant(self, E, name, inv):
        """induction: inv(0, init) and inv(i, c) & 0 <= i < n  =>  inv(i+1, f(c, xs[i]).carry), c arbitrary"""
        I, ctx = self.I, self.I.ctx
        E.prove(name + ".base", inv(z3.IntVal(0), self.init))
        holder = {}

        def body():
            i = ctx.const("iscan", Z)
            c = self.arbitrary_carry()
            ctx.assume(z3.And(i >= 0, i < self.n))
            for old in self.invariants:
                ctx.assume(old(i, c))
            ctx.assume(inv(i, c))
            c2, _ = self.step(c, i)
            ob = ctx.oblige(name + ".step", inv(i + 1, c2))
            holder.setdefault("obs", []).append(ob)
            return ob.status == "proved"
        # the obligations recorded inside the scope stay in ctx.obligations
        ok = I.forall_paths(body)
        if ok:
            self.invariants.append(inv)
            ctx.assume(z3.Implies(self.n >= 0, inv(self.n, self.carry_at(self.n))))     # conclusion of the induction at i = n
        return ok


def lax_scan(I, f, init, xs=None, length=None, **kw):
    externals._used("A4: lax.scan(f, init, xs, length) is the left fold of f over the leading axis with stacked outputs")
    n = None
    if xs is not None:
        n = batch_len(I, 0, xs)
    if n is None:
        if length is None:
            raise PyRaise("ValueError", ("scan needs xs or length",))
        n = zint(length)
    elif length is not None:
        I.ctx.assume(n == zint(length))
    if not hasattr(I, "scans"):
        I.scans = []
    sc = ScanCall(I, f, init, xs, n, str(len(I.scans)))
    I.scans.append(sc)
    ys = Stacked(n, lambda i: sc.unfold(i), tag="scan-ys")
    sc.ys = ys
    final = sc.carry_at(n)
    return (final, ys)


def jnp_concatenate(I, parts, axis=0):
    externals._used("A4: jnp.concatenate([a[None], xs])[0] = a and [i+1] = xs[i]")
    parts = I.iterate(parts)
    if len(parts) == 2 and isinstance(parts[0], NewAxis) and isinstance(parts[1], Stacked):
        a, xs = parts[0].v, parts[1]
        n = xs.n
        return Stacked(n + 1, lambda i: externals.ite(I, i == 0, a, xs.at(i - 1)), tag="prepend")
    raise Unsupported("jnp.concatenate shape")


class NewAxis:
    def __init__(self, v):
        self.v = v
