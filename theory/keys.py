"""PRNG key discipline (C04) - a derivation-tree abstraction of keys, quantifier-free.

Under the PRNG idealisation A8 a key is identified with its *derivation path*: `fold_in(k, a)` and `split(k, n)[a]` are the
child number `a` of `k` (the two are deliberately put in ONE namespace: with jax_threefry_partitionable, the default of the
pinned JAX, `split(k, n)[a] == fold_in(k, a)` bit for bit, so handing one consumer `split(k, 2)[1]` and another `fold_in(k, 1)`
is a reuse).  A consumer of a key (a sampler, a callee's GFI method) draws from the key it is given and from keys it derives
below it - it can never reach a key outside the subtree of its own key.  Hence

    two consumers draw independent randomness   iff   neither key is an ancestor-or-equal of the other.       (antichain)

`independent(I, a, b)` is that statement as a z3 formula over

    depth : U -> Int          length of the derivation path
    up    : U x Int -> U      up(x, d) = the ancestor of x at depth d   (defined for 0 <= d <= depth(x); up(x, depth x) = x)
    slot  : U -> U            the path itself (mk(slot(parent), tag)), so that split/fold_in children with the same tag coincide

with the defining equations INSTANTIATED for the derivation nodes that occur in the two terms and for the two query depths
(no quantifier reaches the solver).  Terms that are not derivation nodes (the method's key parameter, a loop-carried key at
an arbitrary iteration) are leaves of unknown depth >= 0 and unknown ancestry - which is exactly what makes the obligations
hold for every caller and every iteration."""
from __future__ import annotations

import z3

from pyvc.values import U

Z, B = z3.IntSort(), z3.BoolSort()


def _fns(I):
    f = I.ctx.fn
    return f("key_depth", U, Z), f("key_up", U, Z, U), f("key_slot", U, U), f("key_mk", U, Z, U), \
        f("key_mk_parent", U, U), f("key_mk_tag", U, Z)


def node(t):
    """(parent, tag) when `t` is syntactically a derivation node, else None"""
    if z3.is_app(t) and t.num_args() > 0:
        nm = t.decl().name()
        if nm == "fold_in" and t.num_args() == 2:
            return t.arg(0), t.arg(1)
        if nm == "split" and t.num_args() == 3:
            return t.arg(0), t.arg(2)
    return None


def chain(t, limit=12):
    """t and its syntactic ancestors, nearest first"""
    out = [t]
    while len(out) < limit:
        nd = node(out[-1])
        if nd is None:
            break
        out.append(nd[0])
    return out


def facts(I, terms, depths):
    """defining equations of depth / up / slot for every derivation node on the chains of `terms`, `up` instantiated at `depths`"""
    depth, up, slot, mk, mkp, mkt = _fns(I)
    out = []
    seen = set()
    for t0 in terms:
        for t in chain(t0):
            if t.get_id() in seen:
                continue
            seen.add(t.get_id())
            out.append(depth(t) >= 0)
            out.append(up(t, depth(t)) == t)
            nd = node(t)
            if nd is None:
                continue
            p, a = nd
            out.append(depth(t) == depth(p) + 1)
            s = mk(slot(p), a)
            out += [slot(t) == s, mkp(s) == slot(p), mkt(s) == a]         # mk is injective (its projections)
            for d in depths:
                out.append(z3.Implies(z3.And(d >= 0, d <= depth(p)), up(t, d) == up(p, d)))
    # two keys on the same derivation slot are the same key (A8: a key is its path); distinct slots are distinct keys
    ts = [t for t0 in terms for t in chain(t0)]
    for i, x in enumerate(ts):
        for y in ts[i + 1:]:
            if not x.eq(y):
                out.append((slot(x) == slot(y)) == (x == y))
    return out


def ancestor_or_equal(I, a, b):
    """a is b or an ancestor of b"""
    depth, up = _fns(I)[:2]
    return z3.And(depth(a) <= depth(b), up(b, depth(a)) == a)


def independent(I, a, b):
    """z3 formula (with its instantiated definitions as hypotheses): neither key can be reached from the other"""
    depth = _fns(I)[0]
    hyp = facts(I, [a, b], [depth(a), depth(b)])
    return z3.Implies(z3.And(hyp), z3.And(z3.Not(ancestor_or_equal(I, a, b)), z3.Not(ancestor_or_equal(I, b, a))))


def derived_from(I, t, root):
    """`root` occurs on the syntactic derivation chain of `t` (the only source of randomness is the caller's key):
    a z3 formula - some element of the chain equals root"""
    return z3.Or([x == root for x in chain(t)])


def strictly_below(I, t, root):
    """t is a proper descendant of root: a consumer is never handed the method's own key unchanged while other consumers get
    keys derived from it"""
    return z3.Or([x == root for x in chain(t)[1:]]) if len(chain(t)) > 1 else z3.BoolVal(False)


def keys_in(term, root):
    """the PRNG keys a value was computed from: the maximal derivation nodes (fold_in / split applications) occurring in
    `term`, plus `root` itself when it occurs outside any derivation node (i.e. the caller's key was consumed unsplit)"""
    out, seen = [], set()

    def walk(e):
        if e.get_id() in seen:
            return
        seen.add(e.get_id())
        if node(e) is not None or e.eq(root):
            if not any(e.eq(x) for x in out):
                out.append(e)
            return
        for ch in e.children():
            walk(ch)
    walk(term)
    return out


def key_of(term, fname, pos=1):
    """the key argument of a callee application such as gf_simulate(G, key, args) (None when the term has another shape)"""
    if z3.is_app(term) and term.decl().name() == fname and term.num_args() > pos:
        return term.arg(pos)
    return None
