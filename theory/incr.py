"""Callee contract of `incremental(f)(None, primals, tangents)` (no stateful handler), used by Dimap.
This is the statement of property C09 (proved / bounded-checked separately for the interpreter itself):
  (P)  tree_primal(out) == f(*primals)
  (S)  change tags are sound leafwise: for every previous input `prev` that agrees with `primals` on all NoChange-tagged
       leaves, every NoChange-tagged leaf of `out` equals the corresponding leaf of f(*prev).
(S) is instantiated explicitly by the contracts through `use_sound` (an instance of the lemma, never an assumption about the
code under proof)."""
from __future__ import annotations

import z3

from pyvc.values import NativeFn, Obj, SReal, StarOpaque, TupleT, U, UVal, Unsupported
from . import externals

INC = "genjax._src.core.compiler.interpreters.incremental"
B = z3.BoolSort()


class Incr:
    def __init__(self, I):
        self.I, self.c, self.T = I, I.ctx, I.T
        f = self.c.fn
        self.honest_u = f("honest_leafwise", U, U, U, B)      # (previous value, new primal, tangents)
        self.tang_nc = f("tangents_all_nochange", U, B)
        self.inc_out = f("incremental_out", U, U, U, U)
        self.calls = []

    def tangents_of(self, diff_tree):
        return self.I.call_function(self.I.qual(INC + ":Diff.tree_tangent"), [diff_tree], {})

    def honest(self, prev, prim, tang):
        """z3 Bool: prev agrees with prim wherever tang says NoChange (structural; opaque parts via honest_u)"""
        I = self.I
        if isinstance(tang, Obj) and tang.cls.name in ("_NoChange", "_UnknownChange"):
            if tang.cls.name == "_NoChange":
                return I.veq(prev, prim)
            return True
        if isinstance(prim, (tuple, list)) and isinstance(prev, (tuple, list)) and isinstance(tang, (tuple, list)) \
                and len(prim) == len(prev) == len(tang):
            return I._and([self.honest(a, p, t) for a, p, t in zip(prev, prim, tang)])
        if isinstance(prim, TupleT) and isinstance(tang, TupleT) and len(prim.head) == len(tang.head):
            k = len(prim.head)
            ph = prev.head if isinstance(prev, TupleT) else None
            if ph is not None and len(ph) == k:
                parts = [self.honest(a, p, t) for a, p, t in zip(ph, prim.head, tang.head)]
                parts.append(self.hu(prev.tail, prim.tail, tang.tail))
                return I._and(parts)
        return self.hu(I.to_u(prev), I.to_u(prim), I.to_u(tang))

    def hu(self, a, p, t):
        h = self.honest_u(a, p, t)
        self.c.assume(z3.Implies(z3.And(h, self.tang_nc(t)), a == p))
        return h

    def link(self, x):
        """d_all_nochange(x) == tangents_all_nochange(d_tangent(x)) for an opaque diff tree x"""
        T = self.T
        self.c.assume(T.d_nc_all(x) == self.tang_nc(T.d_tangent(x)))

    def incremental(self, I, f):
        def wrapped(I, handler, primals, tangents):
            if handler is not None:
                raise Unsupported("incremental() with a stateful handler (static language) has its own contract")
            T = self.T
            val = I.call(f, [StarOpaque(primals)] if isinstance(primals, (UVal, TupleT)) else list(primals), {})
            vt = I.to_u(val)
            out = self.inc_out(I.to_u(f), I.to_u(primals), I.to_u(tangents))
            self.c.assume(T.d_primal(out) == vt)                               # (P)
            self.c.assume(T.d_primal(vt) == vt)
            self.link(out)
            # all inputs NoChange  =>  all outputs NoChange  (default_propagation_rule, literals are untagged = NoChange)
            self.c.assume(z3.Implies(self.all_nc_tangents(tangents), T.d_nc_all(out)))
            self.calls.append((out, f, primals, tangents))
            externals._used("C09 (callee contract): incremental(f)(None, p, t) has primal f(*p) and leafwise-sound change tags")
            return UVal(out, "retdiff")
        return NativeFn("incremental(f)", wrapped)

    def all_nc_tangents(self, tang):
        I = self.I
        if isinstance(tang, Obj) and tang.cls.name in ("_NoChange", "_UnknownChange"):
            return z3.BoolVal(tang.cls.name == "_NoChange")
        if isinstance(tang, (tuple, list)):
            ps = [self.all_nc_tangents(t) for t in tang]
            return z3.And(ps) if ps else z3.BoolVal(True)
        if isinstance(tang, TupleT):
            return z3.And([self.all_nc_tangents(t) for t in tang.head] + [self.tang_nc(tang.tail)])
        return self.tang_nc(I.to_u(tang))

    def use_sound(self, out: UVal, prev):
        """instantiate (S) of the incremental call that produced `out` at the previous inputs `prev`"""
        I, T = self.I, self.T
        for o, f, primals, tangents in self.calls:
            if o.eq(out.t):
                pv = I.call(f, [StarOpaque(prev)] if isinstance(prev, (UVal, TupleT)) else list(prev), {})
                h_in = self.honest(prev, primals, tangents)
                h_out = self.hu(I.to_u(pv), T.d_primal(o), T.d_tangent(o))
                self.c.assume(z3.Implies(I_z(h_in), h_out))
                return
        raise Unsupported("use_sound: no incremental call produced this value")


def I_z(x):
    return z3.BoolVal(x) if isinstance(x, bool) else x


def install(I):
    inc = Incr(I)
    I.INCR = inc
    I.overrides[INC + ":incremental"] = inc.incremental
