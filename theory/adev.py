"""Models used by the ADEV contracts: jax.jvp on arithmetic closures (forward-mode dual numbers, assumption A7: jax.jvp
computes the total derivative), zeros, and abstract continuations."""
from __future__ import annotations

import z3

from pyvc.interp_ops import JDual, is_num, zreal
from pyvc.values import NativeFn, Obj, PyRaise, SBool, SInt, SReal, Stacked, TupleT, U, UVal, Unsupported
from . import externals

ADEV = "genjax._src.adev.core"
PRIMS = "genjax._src.adev.primitives"
R = z3.RealSort()


def jax_jvp(I, f, primals, tangents):
    externals._used("A7: jax.jvp(f, primals, tangents) is (f(primals), total derivative of f at primals applied to tangents)")
    ps, ts = I.iterate(primals), I.iterate(tangents)
    if len(ps) != len(ts):
        raise PyRaise("TypeError", ("primal and tangent arguments to jax.jvp must have the same tree structure",))
    if isinstance(f, UVal):
        # opaque differentiable function: primal = f(primals); tangent = uninterpreted linearisation
        out = I.call(f, list(ps), {})
        tan = I.ctx.fn("jvp_tangent", U, U, U, R)(f.t, I.to_u(tuple(ps)), I.to_u(tuple(ts)))
        if isinstance(out, UVal):
            out = SReal(I.ctx.fn("as_real", U, R)(out.t))
        return (out, SReal(tan))
    duals = []
    for p, t in zip(ps, ts):
        if is_num(p):
            duals.append(JDual(p, t if is_num(t) else 0.0))
        elif isinstance(p, Stacked):
            duals.append(Stacked(p.n, lambda i, p=p, t=t: JDual(p.at(i), t.at(i) if isinstance(t, Stacked) else 0.0), tag="dual"))
        else:
            raise Unsupported(f"jax.jvp over {type(p).__name__}")
    r = I.call(f, duals, {})
    if isinstance(r, JDual):
        return (r.p, r.t)
    if is_num(r):
        return (r, SReal(0.0))
    raise Unsupported("jax.jvp result")


def zeros_like(I, x, *a, **k):
    return externals.map_leaves(I, lambda l: externals.zero_like(I, l), x)


def install(I):
    I.ext["jax.jvp"] = jax_jvp
    I.ext["jax.numpy.zeros_like"] = zeros_like
    I.overrides[PRIMS + ":zero"] = lambda I, v: externals.zero_like(I, v)


class Kont:
    """abstract continuations of the ADEV interpreter with the interpreter's call shapes:
         kpure(key, *args) -> value              kdual(key, dual_tree) -> Dual(primal, tangent)
       kdual is differentiable in its dual argument: primal = k(key, v), tangent = dk(key, v, dv) with dk(key, v, 0) the
       derivative of the downstream program through its parameters only."""

    def __init__(self, E):
        self.E = E
        c = E.ctx
        self.k = c.fn("kont_value", U, U, R)
        self.dk = c.fn("kont_tangent", U, U, U, R)
        I = E.I
        dual_ci = I.repo.resolve_qual(ADEV + ":Dual")[1]

        def kdual(I, *args, **kwargs):
            if kwargs or len(args) != 2:
                raise PyRaise("TypeError", (f"_sample_dual_kont() takes 2 positional arguments but {len(args)} were given",))
            key, dual_tree = args
            prim = I.call_function(I.qual(ADEV + ":Dual.tree_primal"), [dual_tree], {})
            tan = I.call_function(I.qual(ADEV + ":Dual.tree_tangent"), [dual_tree], {})
            kt, vt = I.to_u(key), I.to_u(prim)
            return Obj(dual_ci, {"primal": SReal(self.k(kt, vt)), "tangent": SReal(self.dk(kt, vt, I.to_u(tan)))})

        def kpure(I, key, *args, **kwargs):
            return SReal(self.k(I.to_u(key), I.to_u(args[0] if len(args) == 1 else tuple(args))))
        self.kdual, self.kpure = NativeFn("kdual", kdual), NativeFn("kpure", kpure)

    def val(self, key_t, v):
        return self.k(key_t, self.E.I.to_u(v))

    def tan(self, key_t, v, dv):
        return self.dk(key_t, self.E.I.to_u(v), self.E.I.to_u(dv))
