"""Trusted axioms about JAX / numpy / pytrees (assumptions A3, A4, A5 of DESIGN.md §3).
Every function here is an *assumption* about an external library; `selftest/axioms.py` runs each of them against the
real library on sampled inputs (tested, never counted as proved)."""
from __future__ import annotations

import z3

from pyvc.interp_call import AtIdx, AtRef
from pyvc.interp_ops import conc_of, is_num, zbool, zint, zreal
from pyvc.values import (Builtin, BoundMethod, ClassRef, ExtRef, FuncVal, NativeFn, Obj, PyRaise, SBool, SInt, SReal,
                         Stacked, StarOpaque, TupleT, U, UVal, Unsupported)

AXIOMS = []   # names of the trusted facts actually used (copied into the evidence)


def _used(name):
    if name not in AXIOMS:
        AXIOMS.append(name)


def flagish(v):
    return isinstance(v, (bool, SBool))


def as_flag_term(I, v):
    if isinstance(v, (bool, SBool, int, SInt)):
        return zbool(v)
    if isinstance(v, UVal):
        return I.ctx.fn("u_truth", U, z3.BoolSort())(v.t)
    raise Unsupported(f"flag term of {v!r}")


# ---------------------------------------------------------------------------------- selection
def select(I, c, a, b):
    """jnp.where / lax.select / lax.cond on values: ite, structurally"""
    if isinstance(c, bool):
        return a if c else b
    ct = as_flag_term(I, c)
    return ite(I, ct, a, b)


def ite(I, ct, a, b):
    if a is b:
        return a
    if is_num(a) and is_num(b):
        if isinstance(a, (bool, SBool)) and isinstance(b, (bool, SBool)):
            return SBool(z3.If(ct, zbool(a), zbool(b)), False)
        if isinstance(a, (float, SReal)) or isinstance(b, (float, SReal)):
            return SReal(z3.If(ct, zreal(a), zreal(b)))
        return SInt(z3.If(ct, zint(a), zint(b)), False)
    if isinstance(a, (tuple, list)) and isinstance(b, (tuple, list)) and len(a) == len(b):
        return type(a)(ite(I, ct, x, y) for x, y in zip(a, b))
    if isinstance(a, dict) and isinstance(b, dict) and set(a) == set(b):
        return {k: ite(I, ct, a[k], b[k]) for k in a}
    if isinstance(a, Obj) and isinstance(b, Obj) and a.cls == b.cls and set(a.fields) == set(b.fields):
        statics = {f.name for f, _ in I.all_fields(a.cls) if f.static}
        out = {}
        for k in a.fields:
            if k in statics:
                out[k] = a.fields[k]
            else:
                out[k] = ite(I, ct, a.fields[k], b.fields[k])
        return Obj(a.cls, out)
    if isinstance(a, Stacked) and isinstance(b, Stacked):
        return Stacked(a.n, lambda i: ite(I, ct, a.at(i), b.at(i)), tag="ite")
    if a is None and b is None:
        return None
    ta, tb = I.to_u(a), I.to_u(b)
    cls = a.cls if isinstance(a, UVal) else (b.cls if isinstance(b, UVal) else None)
    return UVal(z3.If(ct, ta, tb), cls)


def jnp_where(I, c, a=None, b=None):
    _used("A4: jnp.where(c,a,b) = ite(c,a,b), elementwise")
    if isinstance(c, Stacked) or isinstance(a, Stacked) or isinstance(b, Stacked):
        n = [x.n for x in (c, a, b) if isinstance(x, Stacked)][0]
        g = lambda x, i: x.at(i) if isinstance(x, Stacked) else x
        return Stacked(n, lambda i: select(I, g(c, i), g(a, i), g(b, i)), tag="where")
    return select(I, c, a, b)


def lax_cond(I, pred, tf, ff, *args):
    _used("A4: lax.cond(p,t,f,*a) = t(*a) if p else f(*a) (both branches pure)")
    if isinstance(pred, bool):
        return I.call(tf if pred else ff, list(args), {})
    rt = I.call(tf, list(args), {})
    rf = I.call(ff, list(args), {})
    return select(I, pred, rt, rf)


# ---------------------------------------------------------------------------------- logic
def _logical(op):
    def f(I, a, b=None):
        _used("A4: jnp.logical_{and,or,xor,not} are the Boolean connectives, elementwise; the result is an array")
        if isinstance(a, Stacked) or isinstance(b, Stacked):
            n = a.n if isinstance(a, Stacked) else b.n
            g = lambda x, i: x.at(i) if isinstance(x, Stacked) else x
            return Stacked(n, lambda i: f(I, g(a, i), g(b, i)) if op != "not" else f(I, g(a, i)), tag=op)
        ta = as_flag_term(I, a)
        if op == "not":
            return SBool(z3.Not(ta), False)
        tb = as_flag_term(I, b)
        return SBool({"and": z3.And, "or": z3.Or, "xor": z3.Xor}[op](ta, tb), False)
    return f


def jnp_all(I, x):
    if isinstance(x, (bool, SBool)):
        return SBool(zbool(x), False)
    raise Unsupported("jnp.all of non-scalar")


# ---------------------------------------------------------------------------------- arrays
def jnp_array(I, x, dtype=None, copy=None):
    """jnp.array / jnp.asarray: value-preserving, result is an array (not a Python scalar)"""
    _used("A4: jnp.array/asarray preserve the value; the result is a JAX array")
    if isinstance(x, bool):
        x = SBool(x, False)
    if isinstance(x, SBool):
        if dtype is not None and _is_int_dtype(dtype):
            return SInt(zint(x), False)
        return SBool(x.t, False)
    if isinstance(x, int):
        return SInt(x, False)
    if isinstance(x, SInt):
        return SInt(x.t, False)
    if isinstance(x, float):
        return SReal(x)
    if isinstance(x, SReal):
        return x
    if isinstance(x, (list, tuple)):
        if all(isinstance(e, (SReal, float, int)) and not isinstance(e, bool) for e in x):
            n = len(x)
            xs = list(x)
            return Stacked(n, lambda i: _pick(I, xs, i), tag="array")
        return Stacked(len(x), lambda i, xs=list(x): _pick(I, xs, i), tag="array")
    if isinstance(x, (UVal, Stacked)):
        return x
    raise Unsupported(f"jnp.array of {type(x).__name__}")


def _pick(I, xs, i):
    if z3.is_int_value(i):
        return xs[i.as_long()]
    r = xs[-1]
    for k in range(len(xs) - 2, -1, -1):
        r = ite(I, i == k, xs[k], r)
    return r


def _is_int_dtype(d):
    if isinstance(d, Builtin):
        return d.name == "int"
    if isinstance(d, ExtRef):
        return "int" in d.path.split(".")[-1]
    return False


def jnp_zeros(I, shape=(), dtype=None):
    if isinstance(shape, ShapeTok):
        return zero_like(I, shape.v)
    if shape == () or shape == []:
        return SReal(0.0)
    if isinstance(shape, int):
        return Stacked(shape, lambda i: SReal(0.0), tag="zeros")
    if isinstance(shape, SInt):
        return Stacked(shape.t, lambda i: SReal(0.0), tag="zeros")
    if isinstance(shape, tuple) and len(shape) == 1:
        return jnp_zeros(I, shape[0])
    raise Unsupported(f"jnp.zeros shape {shape!r}")


def jnp_sum(I, x, axis=None):
    _used("A6: finite sums are linear and extensional; sum over an empty axis is 0; sum of a scalar is itself")
    if isinstance(x, (SReal,)):
        if x.vec:
            if axis is not None:
                # a sum along ONE axis of an array of unknown rank is not the total (they coincide only for rank 1)
                ax = zint(axis) if isinstance(axis, (int, SInt)) else z3.IntVal(0)
                return SReal(I.ctx.fn("sum_axis", z3.RealSort(), z3.IntSort(), z3.RealSort())(x.t, ax), vec=True)
            return SReal(I.ctx.fn("sum_all", z3.RealSort(), z3.RealSort())(x.t))
        return x
    if isinstance(x, (int, float)):
        return SReal(x)
    if isinstance(x, Stacked):
        probe = x.at(I.ctx.const("iprobe", z3.IntSort()))
        if isinstance(probe, (bool, SBool, int, SInt)):
            # integer-valued sum (a count of flags): an integer with the same weak theory (empty sum, explicit small sums,
            # bounds); no extensionality lemma is recorded for it
            n = z3.IntVal(x.n) if isinstance(x.n, int) else x.n
            c = I.ctx.const("isum", z3.IntSort())
            term = lambda e: z3.If(zbool(e), 1, 0) if isinstance(e, (bool, SBool)) else zint(e)
            I.ctx.assume(z3.Implies(n <= 0, c == 0))
            if isinstance(probe, (bool, SBool)):
                I.ctx.assume(z3.And(c >= 0, z3.Implies(n >= 0, c <= n)))
            if isinstance(x.n, int) and 0 < x.n <= 6:
                I.ctx.assume(c == z3.Sum([term(x.at(z3.IntVal(k))) for k in range(x.n)]))
            return SInt(c, False)
        return I.make_sum(x)
    if isinstance(x, (list, tuple)):
        acc = SReal(0.0)
        for e in x:
            acc = I.binop("Add", acc, e)
        return acc
    raise Unsupported(f"jnp.sum of {type(x).__name__}")


def logsumexp(I, x, *a, **k):
    _used("A4: logsumexp of a length-1 vector is its element; otherwise an uninterpreted function of the vector")
    if isinstance(x, (SReal, float, int)):
        return SReal(zreal(x))
    if isinstance(x, Stacked):
        f = I.ctx.fn("logsumexp", U, z3.RealSort())
        t = I.to_u(x)
        r = f(t)
        n = x.n if not isinstance(x.n, int) else z3.IntVal(x.n)
        I.ctx.assume(z3.Implies(n == 1, r == zreal(x.at(z3.IntVal(0)))))
        if not hasattr(I.ctx, "lse"):
            I.ctx.lse = []
        I.ctx.lse.append((r, x))
        return SReal(r)
    if isinstance(x, UVal):
        return SReal(I.ctx.fn("logsumexp", U, z3.RealSort())(x.t))
    raise Unsupported("logsumexp")


def jnp_log(I, x):
    if isinstance(x, int) and x == 1:
        return SReal(0.0)
    if isinstance(x, (int, float, SReal, SInt)):
        f = I.ctx.fn("log", z3.RealSort(), z3.RealSort())
        I.ctx.assume(f(z3.RealVal(1)) == 0)
        return SReal(f(zreal(x)))
    raise Unsupported("jnp.log")


def _jnp_minmax(which):
    def f(I, a, b):
        _used("A4: jnp.maximum / jnp.minimum on scalars are max / min")
        num = (bool, int, float, SBool, SInt, SReal)
        if isinstance(a, num) and isinstance(b, num) and not getattr(a, "vec", False) and not getattr(b, "vec", False):
            ca = zreal(a) >= zreal(b) if which == "max" else zreal(a) <= zreal(b)
            if all(isinstance(x, (bool, int, SBool, SInt)) for x in (a, b)):
                return SInt(z3.If(ca, zint(a), zint(b)), False)
            return SReal(z3.If(ca, zreal(a), zreal(b)))
        raise Unsupported(f"jnp.{which}imum of non-scalars")
    return f


def jnp_expand_dims(I, v, axis=0):
    _used("A4: expand_dims(v, 0) is the length-1 stack [v]")
    if axis != 0:
        raise Unsupported("expand_dims axis != 0")
    return Stacked(1, lambda i: v, tag="expand_dims")


def jnp_shape(I, x):
    if isinstance(x, (bool, int, float, SBool, SInt)):
        return ()
    if isinstance(x, SReal):
        return ("?",) if x.vec else ()
    if isinstance(x, Stacked):
        return (x.n,)
    if isinstance(x, UVal):
        return UVal(I.ctx.fn("shape_of", U, U)(x.t), "shape")
    raise Unsupported(f"jnp.shape of {type(x).__name__}")


def jnp_arange(I, n):
    _used("A4: jnp.arange(n)[i] = i")
    if isinstance(n, int):
        return Stacked(n, lambda i: SInt(i, False), tag="arange")
    if isinstance(n, SInt):
        return Stacked(n.t, lambda i: SInt(i, False), tag="arange")
    raise Unsupported("arange")


def jnp_choose(I, idx, choices, mode=None):
    _used("A4: jnp.choose(i, vs, mode='wrap') = vs[i mod len(vs)]")
    if mode != "wrap":
        raise Unsupported("jnp.choose without mode='wrap'")
    vs = list(choices) if isinstance(choices, (list, tuple)) else None
    if vs is None:
        if isinstance(choices, Stacked):
            n = choices.n
            it = zint(idx)
            return choices.at(it % n)
        raise Unsupported("jnp.choose over opaque choices")
    n = len(vs)
    it = zint(idx) % n
    r = vs[-1]
    for k in range(n - 2, -1, -1):
        r = ite(I, it == k, vs[k], r)
    if n == 1:
        r = vs[0]
    # result of choose is an array
    if isinstance(r, bool):
        r = SBool(r, False)
    if isinstance(r, SBool):
        r = SBool(r.t, False)
    if isinstance(r, int):
        r = SInt(r, False)
    if isinstance(r, SInt):
        r = SInt(r.t, False)
    if isinstance(r, float):
        r = SReal(r)
    return r


def jnp_clip(I, x, lo=None, hi=None):
    _used("A4: jnp.clip(x, lo, hi) = min(max(x, lo), hi); the result is an array")
    if isinstance(x, (int, SInt, bool, SBool)) and isinstance(lo, (int, SInt)) and isinstance(hi, (int, SInt)):
        t, l, h = zint(x), zint(lo), zint(hi)
        return SInt(z3.If(t < l, l, z3.If(t > h, h, t)), False)
    raise Unsupported("jnp.clip on non-integers")


def jnp_asarray_dtype(I, x, dtype=None, copy=None):
    return jnp_array(I, x, dtype=dtype)


# ---------------------------------------------------------------------------------- pytrees
def is_leaf_value(v):
    return isinstance(v, (SReal, SInt, SBool, bool, int, float, Stacked)) or (isinstance(v, UVal))


def tree_children(I, v):
    """(kind, children, rebuild) for pytree nodes, None for leaves"""
    if isinstance(v, (tuple, list)):
        return list(v), (lambda cs, t=type(v): t(cs))
    if isinstance(v, dict):
        ks = sorted(v.keys(), key=repr)
        return [v[k] for k in ks], (lambda cs: dict(zip(ks, cs)))
    if isinstance(v, Obj) and v.cls.is_dataclass:
        fs = [f for f, _ in I.all_fields(v.cls)]
        dyn = [f.name for f in fs if not f.static and f.name in v.fields]

        def rebuild(cs, v=v, dyn=dyn):
            d = dict(v.fields)
            d.update(zip(dyn, cs))
            return Obj(v.cls, d)
        return [v.fields[n] for n in dyn], rebuild
    if v is None:
        return [], (lambda cs: None)
    return None


def tree_map(I, f, tree, *rest, is_leaf=None):
    _used("A5: jtu.tree_map applies f leafwise over an inductive pytree; Pytree dataclasses flatten to their non-static fields")
    def rec(t, others):
        if is_leaf is not None and I.truth(I.call(is_leaf, [t], {}), tag="is_leaf"):
            return I.call(f, [t] + others, {})
        if isinstance(t, TupleT):
            heads = [rec(x, [I.getitem(o, j) for o in others]) for j, x in enumerate(t.head)]
            tail = rec(UVal(t.tail, "tuple"), [I.getitem(o, slice(len(t.head), None, None)) for o in others])
            return TupleT(tuple(heads), I.to_u(tail))
        ch = tree_children(I, t)
        if ch is None:
            if isinstance(t, UVal) and (t.cls is None or t.cls not in ("array", "key", "leaf")):
                return opaque_tree_map(I, f, t, others, is_leaf)
            return I.call(f, [t] + others, {})
        cs, rebuild = ch
        ocs = []
        for o in others:
            och = tree_children(I, o)
            if isinstance(t, Obj) and isinstance(o, Obj) and t.cls != o.cls:
                # jax: "Custom node type mismatch" - the node TYPE is part of the tree structure (e.g. the change tags
                # _NoChange / _UnknownChange of two Diff leaves)
                raise PyRaise("ValueError", (f"Custom node type mismatch: expected {t.cls.name}, value {o.cls.name}",))
            if och is None:
                if isinstance(o, UVal):
                    raise Unsupported("tree_map: opaque second tree against structured first tree")
                raise PyRaise("ValueError", ("tree structure mismatch",))
            if len(och[0]) != len(cs):
                raise PyRaise("ValueError", ("tree structure mismatch",))
            ocs.append(och[0])
        return rebuild([rec(c, [oc[j] for oc in ocs]) for j, c in enumerate(cs)])
    return rec(tree, list(rest))


def opaque_tree_map(I, f, t, others, is_leaf):
    """tree_map over an opaque subtree.  The function is applied to fresh leaves to recognise the shapes
    'leafwise select' and 'projection', for which treewise = leafwise (A5); otherwise an uninterpreted function of
    (f, trees)."""
    k = len(others) + 1
    if any(isinstance(o, Stacked) for o in others) and not isinstance(t, Stacked):
        r = _batched_tree_map(I, f, [t] + list(others))
        if r is not None:
            return r
    leaves = [UVal(I.ctx.const("leaf", U), "leaf") for _ in range(k)]
    try:
        saved = (len(I.ctx.pc),)
        r = I.call(f, list(leaves), {})
    except (Unsupported, PyRaise):
        r = None
    trees = [t] + [o if isinstance(o, UVal) else UVal(I.to_u(o)) for o in others]
    if isinstance(r, Stacked):
        # leafwise stacking (expand_dims / broadcasting a leaf) is treewise stacking of the tree (A5)
        e0 = r.at(z3.IntVal(0))
        for l, tr_ in zip(leaves, trees):
            if isinstance(e0, UVal) and e0.t.eq(l.t):
                return Stacked(r.n, lambda i, tr_=tr_: tr_, tag="stack-of-tree")
    if isinstance(r, UVal):
        sub = [(l.t, tr.t) for l, tr in zip(leaves, trees)]
        for l, tr in zip(leaves, trees):
            if r.t.eq(l.t):
                return tr
        def select_shape(e):
            """e is built from the leaf variables by if-then-else on conditions that do not mention the leaves"""
            if any(e.eq(l.t) for l in leaves):
                return True
            if z3.is_app(e) and e.decl().kind() == z3.Z3_OP_ITE:
                c, x, y = e.children()
                return (not any(_mentions(c, l.t) for l in leaves)) and select_shape(x) and select_shape(y)
            return False
        if select_shape(r.t):
            return UVal(z3.substitute(r.t, *sub), trees[0].cls)
        # general leafwise expression over opaque leaves: the treewise result is denoted by the same expression over the
        # trees (A5: tree_map applies f leafwise; all operators on opaque values are uninterpreted pure functions)
        if all(l.cls == "leaf" for l in leaves):
            return UVal(z3.substitute(r.t, *sub), trees[0].cls)
        # general leafwise expression: substitute trees for leaves inside an uninterpreted lifting
    fn = I.ctx.fn(f"tree_map{k}", *([U] * (k + 1)), U)
    return UVal(fn(I.to_u(f), *[x.t for x in trees]), t.cls if t.cls not in ("leaf",) else None)


def _batched_tree_map(I, f, trees):
    """tree_map(f, opaque tree, batch of trees, ...) whose leafwise result is a batch (e.g. a leafwise jnp.where against
    jnp.arange(n) == idx): f is applied to probe leaves - a fresh leaf per opaque tree, a fresh BATCHED leaf per batch -
    and the elementwise expression it returns denotes the treewise result with trees substituted for leaves (A5)."""
    cnt = I.__dict__.setdefault("_probe_cnt", [0])
    cnt[0] += 1
    probes, consts, fns = [], [], []
    for j, tr_ in enumerate(trees):
        if isinstance(tr_, Stacked):
            fn = I.ctx.fn(f"probe_leaf!{cnt[0]}!{j}", z3.IntSort(), U)
            fns.append((fn, tr_))
            probes.append(Stacked(tr_.n, lambda i, fn=fn: UVal(fn(i), "leaf"), tag="probe"))
        else:
            c = I.ctx.const("leaf", U)
            consts.append((c, tr_ if isinstance(tr_, UVal) else UVal(I.to_u(tr_))))
            probes.append(UVal(c, "leaf"))
    try:
        r = I.call(f, list(probes), {})
    except (Unsupported, PyRaise):
        return None
    if not isinstance(r, Stacked):
        return None

    def rewrite(e):
        for c, tr_ in consts:
            if e.eq(c):
                return tr_.t
        if z3.is_app(e) and e.num_args() > 0:
            for fn, st in fns:
                if e.decl().eq(fn):
                    return I.to_u(st.at(rewrite(e.arg(0))))
            return e.decl()(*[rewrite(c) for c in e.children()])
        return e

    def elem(i):
        e = r.at(i)
        if not isinstance(e, UVal):
            raise Unsupported("batched tree_map: non-opaque leaf result")
        return UVal(rewrite(e.t), trees[0].cls if isinstance(trees[0], UVal) else None)
    _used("A5: tree_map applies f leafwise; leafwise select / broadcast against a batch is the treewise one")
    return Stacked(r.n, elem, tag="tree_map-batched")


def _mentions(e, x):
    if e.eq(x):
        return True
    return any(_mentions(c, x) for c in e.children())


def tree_leaves(I, tree, is_leaf=None):
    out = []

    def rec(t):
        if is_leaf is not None and I.truth(I.call(is_leaf, [t], {}), tag="is_leaf"):
            out.append(t)
            return
        if isinstance(t, TupleT):
            raise Unsupported("tree_leaves of tuple with opaque tail")
        ch = tree_children(I, t)
        if ch is None:
            if isinstance(t, UVal) and t.cls not in ("array", "key", "leaf"):
                raise Unsupported("tree_leaves of opaque tree")
            out.append(t)
            return
        for c in ch[0]:
            rec(c)
    rec(tree)
    return out


def tree_structure(I, tree):
    def rec(t):
        ch = tree_children(I, t)
        if ch is None:
            return "*"
        if isinstance(t, Obj):
            return (t.cls.name, tuple(rec(c) for c in ch[0]))
        return (type(t).__name__, tuple(rec(c) for c in ch[0]))
    try:
        d = rec(tree)
    except Exception:
        raise Unsupported("tree_structure")
    # the description compares like a treedef (==); the tree it was taken from is remembered as the template for unflatten
    I.__dict__.setdefault("_treedefs", []).append((d, tree))
    return d


def tree_unflatten(I, treedef, leaves):
    """jtu.tree_unflatten(treedef, leaves): the template tree of `treedef` with its leaves replaced, in order (A5)"""
    tmpl = None
    for d, t in reversed(I.__dict__.get("_treedefs", [])):
        if d is treedef:
            tmpl = t
            break
    if tmpl is None:
        raise Unsupported("tree_unflatten with a treedef that did not come from tree_structure")
    if isinstance(leaves, Stacked):
        if not isinstance(leaves.n, int):
            raise Unsupported("tree_unflatten with a symbolic number of leaves")
        items = [leaves.at(z3.IntVal(j)) for j in range(leaves.n)]
    else:
        items = list(I.iterate(leaves))
    pos = [0]

    def rec(t):
        ch = tree_children(I, t)
        if ch is None:
            if pos[0] >= len(items):
                raise PyRaise("ValueError", ("too few leaves for treedef",))
            pos[0] += 1
            return items[pos[0] - 1]
        return ch[1]([rec(c) for c in ch[0]])
    out = rec(tmpl)
    if pos[0] != len(items):
        raise PyRaise("ValueError", ("too many leaves for treedef",))
    return out


# ---------------------------------------------------------------------------------- randomness (A8)
def random_split(I, key, num=2):
    _used("A8: jax.random.split(k, n)[i] and fold_in(k, a) are pure, injective in i / a, and differ from k")
    kt = I.to_u(key)
    f = I.ctx.fn("split", U, z3.IntSort(), z3.IntSort(), U)
    def sub(n, i):
        t = f(kt, n, i)
        I.ctx.assume(t != kt)            # A8: a derived key differs from its parent
        return UVal(t, "key")
    if isinstance(num, int):
        # an ARRAY of `num` keys (it unpacks like a tuple and maps like a batch)
        return Stacked(num, lambda i: sub(z3.IntVal(num), i), tag="split")
    n = zint(num)
    return Stacked(n, lambda i: sub(n, i), tag="split")


def random_fold_in(I, key, data):
    _used("A8: jax.random.split(k, n)[i] and fold_in(k, a) are pure, injective in i / a, and differ from k")
    f = I.ctx.fn("fold_in", U, z3.IntSort(), U)
    return UVal(f(I.to_u(key), zint(data)), "key")


def random_key(I, seed):
    return UVal(I.ctx.fn("prng_key", z3.IntSort(), U)(zint(seed)), "key")


# ---------------------------------------------------------------------------------- shapes / switch
class ShapeLeaf:
    """jax.ShapeDtypeStruct of a leaf: only .shape/.dtype are observable, and only to build zeros of the same kind"""

    def __init__(self, v):
        self.v = v

    def pyvc_getattr(self, I, name):
        if name in ("shape", "dtype"):
            return ShapeTok(self.v, name)
        raise Unsupported(f"ShapeDtypeStruct.{name}")


class ShapeTok:
    def __init__(self, v, what):
        self.v, self.what = v, what


def zero_like(I, v):
    if isinstance(v, (bool, SBool)):
        return SBool(False, False)
    if isinstance(v, (int, SInt)):
        return SInt(0, False)
    if isinstance(v, (float, SReal)):
        return SReal(0.0)
    if isinstance(v, UVal):
        return UVal(I.ctx.fn("zeros_like", U, U)(v.t), v.cls)
    if isinstance(v, Stacked):
        return Stacked(v.n, lambda i: zero_like(I, v.at(i)), tag="zeros")
    raise Unsupported(f"zeros like {type(v).__name__}")


def map_leaves(I, f, v):
    if isinstance(v, TupleT):
        raise Unsupported("map_leaves over tuple with opaque tail")
    ch = tree_children(I, v)
    if ch is None:
        return f(v)
    return ch[1]([map_leaves(I, f, c) for c in ch[0]])


def eval_shape(I, f, *args, **kwargs):
    _used("A4: jax.eval_shape(f, *a) returns the pytree structure of f(*a) (f pure, A3); to_shape_fn(.., jnp.zeros) fills it with zeros")
    r = I.call(f, list(args), kwargs)
    return map_leaves(I, lambda leaf: ShapeLeaf(leaf), r)


def lax_switch(I, idx, fns, *operands, operand=None):
    _used("A4: lax.switch(i, fs, x) runs fs[clamp(i, 0, len(fs)-1)](x)")
    ops = list(operands) if operands else [operand]
    fns = I.iterate(fns)
    n = len(fns)
    if n == 0:
        raise PyRaise("ValueError", ("Empty branch sequence",))
    def run(k):
        xs = [list(o) if isinstance(o, list) else o for o in ops]
        return I.call(fns[k], xs, {})
    if isinstance(idx, bool):
        idx = int(idx)
    if isinstance(idx, int):
        return run(min(max(idx, 0), n - 1))
    it = zint(idx)
    r = run(n - 1)
    for k in range(n - 2, -1, -1):
        cond = (it <= 0) if k == 0 else (it == k)
        r = ite(I, cond, run(k), r)
    return r


# ---------------------------------------------------------------------------------- misc
def identity(I, x, *a, **k):
    return x


def noop(I, *a, **k):
    return None


def functools_reduce(I, f, seq, *init):
    items = I.iterate(seq)
    if init:
        acc = init[0]
    else:
        if not items:
            raise PyRaise("TypeError", ("reduce() of empty sequence with no initial value",))
        acc, items = items[0], items[1:]
    for x in items:
        acc = I.call(f, [acc, x], {})
    return acc


def itertools_groupby(I, seq, key=None):
    """itertools.groupby on a concrete sequence: consecutive runs of equal keys (Python semantics, not modelled: a library
    function with a fixed meaning)"""
    items = I.iterate(seq)
    out, cur_k, cur = [], None, None
    for it in items:
        k = I.call(key, [it], {}) if key is not None else it
        if cur is not None and I.truth(I.py_eq(k, cur_k)):
            cur.append(it)
        else:
            cur_k, cur = k, [it]
            out.append((k, cur))
    return out


def operator_itemgetter(I, *idx):
    if len(idx) == 1:
        return NativeFn("itemgetter", lambda I, x: I.getitem(x, idx[0]))
    return NativeFn("itemgetter", lambda I, x: tuple(I.getitem(x, j) for j in idx))


def operator_or(I, a, b):
    return I.binop("BitOr", a, b)


def safe_map(I, f, *xs):
    ls = [I.iterate(x) for x in xs]
    n = len(ls[0])
    if any(len(l) != n for l in ls):
        raise PyRaise("ValueError", ("safe_map length mismatch",))
    return [I.call(f, list(t), {}) for t in zip(*ls)]


def unzip2(I, pairs):
    xs, ys = [], []
    for it in I.iterate(pairs):
        a, b = I.unpack(it, 2)
        xs.append(a)
        ys.append(b)
    return (tuple(xs), tuple(ys))


def typing_cast(I, t, v):
    return v


def pytree_dataclass(I, cls=None, **kw):
    """penzai's pytree_dataclass: the class becomes a (frozen) dataclass over its annotated fields"""
    if isinstance(cls, ClassRef):
        cls.ci.is_dataclass = True
        return cls
    raise Unsupported("pytree_dataclass as a decorator factory")


def jnp_size(I, x):
    if isinstance(x, (bool, int, float, SBool, SInt)) or (isinstance(x, SReal) and not x.vec):
        return 1
    if isinstance(x, Stacked):
        probe = x.at(I.ctx.const("iprobe", z3.IntSort()))
        if isinstance(probe, (SReal, SInt, SBool)) and not getattr(probe, "vec", False):
            return x.n if isinstance(x.n, int) else SInt(x.n, True)
    raise Unsupported(f"jnp.size of {type(x).__name__}")


def install(I):
    e = I.ext
    pi = SReal(z3.Real("pi"))
    # +infinity: an uninterpreted real constant (floats range over the extended reals, so `x > -inf` is NOT valid for every
    # float x; nothing is assumed about it - whatever is proved holds however large it is)
    inf = SReal(z3.Real("float_inf"))
    I.ext_consts = {"jax.numpy.pi": pi, "numpy.pi": pi, "math.pi": pi, "jax.numpy.inf": inf, "numpy.inf": inf, "math.inf": inf}
    e["jax.numpy.size"] = jnp_size
    e["penzai.pz.pytree_dataclass"] = pytree_dataclass
    for p in ("jax.numpy.where", "jax.lax.select"):
        e[p] = jnp_where
    e["jax.lax.cond"] = lax_cond
    e["jax.numpy.logical_and"] = _logical("and")
    e["jax.numpy.logical_or"] = _logical("or")
    e["jax.numpy.logical_xor"] = _logical("xor")
    e["jax.numpy.logical_not"] = _logical("not")
    e["jax.numpy.all"] = jnp_all
    e["jax.numpy.array"] = jnp_array
    e["jax.numpy.asarray"] = jnp_array
    e["jax.numpy.zeros"] = jnp_zeros
    e["jax.numpy.sum"] = jnp_sum
    e["jax.numpy.shape"] = jnp_shape
    e["jax.scipy.special.logsumexp"] = logsumexp
    e["jax.numpy.log"] = jnp_log
    e["jax.numpy.maximum"] = _jnp_minmax("max")
    e["jax.numpy.minimum"] = _jnp_minmax("min")
    e["jax.numpy.expand_dims"] = jnp_expand_dims
    e["jax.numpy.arange"] = jnp_arange
    e["jax.numpy.choose"] = jnp_choose
    e["jax.numpy.clip"] = jnp_clip
    e["jax.eval_shape"] = eval_shape
    e["jax.lax.switch"] = lax_switch
    for p in ("jax.tree_util.tree_map", "jax.tree.map"):
        e[p] = tree_map
    e["jax.tree_util.tree_leaves"] = tree_leaves
    e["jax.tree_util.tree_structure"] = tree_structure
    e["jax.tree_util.tree_unflatten"] = tree_unflatten
    e["jax.random.split"] = random_split
    e["jax.random.fold_in"] = random_fold_in
    e["jax.random.key"] = random_key
    e["jax.random.PRNGKey"] = random_key
    e["functools.reduce"] = functools_reduce
    e["operator.or_"] = operator_or
    e["itertools.groupby"] = itertools_groupby
    e["operator.itemgetter"] = operator_itemgetter
    e["jax.util.safe_map"] = safe_map
    e["jax.util.unzip2"] = unzip2
    e["typing.cast"] = typing_cast
    e["warnings.warn"] = noop
    e["textwrap.dedent"] = identity
    e["genjax._src.checkify.optional_check"] = noop
