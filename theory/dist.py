"""An arbitrary exact-density distribution: `sample` and `logpdf` of ExactDensity are abstract in the repository; here they
are uninterpreted pure functions (A3/A10).  Everything else of Distribution / ExactDensity is the real code."""
from __future__ import annotations

import z3

from pyvc.values import Obj, SBool, SReal, StarOpaque, TupleT, U, UVal, Unsupported

DIST = "genjax._src.generative_functions.distributions.distribution"
R, B = z3.RealSort(), z3.BoolSort()


def pack_args(I, args):
    """positional *args (possibly ending in an opaque star) as one U term"""
    args = list(args)
    if args and isinstance(args[-1], StarOpaque):
        tail = args.pop().v
        if isinstance(tail, TupleT):
            return I.to_u(TupleT(tuple(args) + tail.head, tail.tail))
        return I.to_u(TupleT(tuple(args), tail.t)) if args else tail.t
    return I.to_u(tuple(args))


def install(I):
    c = I.ctx
    sample_f = c.fn("dist_sample", U, U, U, U)
    logpdf_f = c.fn("dist_logpdf", U, U, U, R)
    vec_f = c.fn("dist_logpdf_is_vector", U, U, B)
    is_mask = c.fn("is_Mask", U, B)
    is_none = c.fn("is_None", U, B)

    def sample(I, self, key, *args):
        v = sample_f(I.to_u(self), I.to_u(key), pack_args(I, args))
        I.ctx.assume(z3.Not(is_mask(v)))
        I.ctx.assume(z3.Not(is_none(v)))
        I.ctx.assume(I.T.d_primal(v) == v)
        I.T.not_zero_length(v)
        return UVal(v, "value")

    def logpdf(I, self, v, *args, **kwargs):
        if kwargs:
            raise Unsupported("abstract logpdf with kwargs")
        st, vt, at = I.to_u(self), I.to_u(v), pack_args(I, args)
        # the log-density array may be a scalar or a vector of per-element terms: both explored
        vec = I.ctx.branch(vec_f(st, vt), tag="logpdf_is_vector")
        return SReal(logpdf_f(st, vt, at), vec=vec)

    I.overrides[DIST + ":ExactDensity.sample"] = sample
    I.overrides[DIST + ":ExactDensity.logpdf"] = logpdf
    I.dist_sample, I.dist_logpdf = sample_f, logpdf_f


def density(I, dist, v, args):
    """spec: the summed log-density of value v under dist(args)  (what estimate_logpdf must return)"""
    c = I.ctx
    st, vt = I.to_u(dist), I.to_u(v)
    at = I.to_u(args)
    lp = I.dist_logpdf(st, vt, at)
    vec = c.fn("dist_logpdf_is_vector", U, U, B)(st, vt)
    return z3.If(vec, c.fn("sum_all", R, R)(lp), lp)
