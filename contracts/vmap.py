"""Contracts for combinators/vmap.py (Vmap, VmapTrace) and repeat.py  (C11; vector cases of C01-C06, C10).

The mapped length n is an unbounded symbolic integer (n >= 0); `in_axes` is schematic: (0, None) over args (xs, c).
Element i of a batched value is `Stacked.at(i)`; sums are compared by the pointwise rule (A6)."""
from pyvc.task import task
from pyvc.values import Obj, SBool, SInt, SReal, Stacked, TupleT, UVal
from .common import *

M = COMB + ".vmap"
FUNCS = [M + ":Vmap." + m for m in ("_static_broadcast_dim_length", "simulate", "generate", "project", "edit_choice_map",
                                    "edit_index", "edit", "assess")] + [M + ":VmapTrace.build", M + ":VmapTrace.get_retval"]


AXIS = {"axis": 0}      # mapped axis of the first argument (schematic: 0 and 1)


def setup(E, axis=0):
    AXIS["axis"] = axis
    g = G(E)
    vm = E.new(M + ":Vmap", gen_fn=g, in_axes=(axis, None))
    xs, c = E.opaque("xs", "array"), E.opaque("c")
    E.assume(E.I.T.d_primal(c.t) == c.t)          # argument values carry no Diff leaves
    Z = E.z3.IntSort()
    n = E.ctx.fn("axis0_len", U, Z)(xs.t) if axis == 0 else E.ctx.fn("axis_len", U, Z, Z)(xs.t, E.z3.IntVal(axis))
    return vm, g, (xs, c), n


def elem_args(E, args, i):
    xs, c = args
    Z = E.z3.IntSort()
    if AXIS["axis"] == 0:
        return (UVal(E.ctx.fn("axis0_index", U, Z, U)(xs.t, i), "array"), c)
    return (UVal(E.ctx.fn("axis_index", U, Z, Z, U)(xs.t, E.z3.IntVal(AXIS["axis"]), i), "array"), c)


def subkey(E, k, n, i):
    return E.ctx.fn("split", U, E.z3.IntSort(), E.z3.IntSort(), U)(k.t, n, i)


def forall_i(E, n, body):
    """goal: for a fresh index i with 0 <= i < n : body(i)"""
    i = E.ctx.const("i", E.z3.IntSort())
    return E.Implies(E.z3.And(i >= 0, i < n), body(i))


def wf(E, vm, tr):
    score, ret = E.method(vm, "assess", E.method(tr, "get_choices"), E.method(tr, "get_args"))
    return E.And(E.eq(score, E.method(tr, "get_score")), E.eq(ret, E.method(tr, "get_retval")))


@task("vmap.simulate", props=["C01", "C02", "C04", "C11"], functions=FUNCS)
def t_simulate(E):
    z3, T = E.z3, E.I.T
    vm, g, args, n = setup(E)
    k = key(E)
    tr = E.method(vm, "simulate", k, args)
    E.cover("vmap.simulate.reached")
    sim = lambda i: UVal(T.sim(g.t, subkey(E, k, n, i), E.I.to_u(elem_args(E, args, i))), "Trace")
    E.prove("C11.Vmap.simulate.length_is_leading_axis", E.eq(tr.fields["dim_length"], SInt(n, True)))
    E.prove("C11.Vmap.simulate.element_i_is_an_independent_call_on_slice_i_with_its_own_key",
            forall_i(E, n, lambda i: E.eq(tr.fields["inner"].at(i), sim(i))))
    batch_key_discipline(E, k, lambda i: callee_key(E, tr.fields["inner"].at(i), "gf_simulate", "Vmap.simulate element"),
                         n, "Vmap.simulate")
    spec_score = E.I.make_sum(Stacked(n, lambda i: SReal(T.tr_score(sim(i).t))))
    E.prove("C11.Vmap.simulate.score_is_sum_of_element_scores", E.eq(E.method(tr, "get_score"), spec_score))
    E.prove("C11.Vmap.simulate.retval_stacks_element_retvals",
            forall_i(E, n, lambda i: E.eq(E.method(tr, "get_retval").at(i), E.method(sim(i), "get_retval"))))
    ch = E.method(tr, "get_choices")
    E.prove("C11.Vmap.simulate.index_i_holds_element_i_choices", forall_i(
        E, n, lambda i: E.eq(E.I.call(ch, [SInt(i, False)], {}), E.method(sim(i), "get_choices"))) if isinstance(ch, Stacked)
        else E.And(n == 0, E.I.to_u(ch) == T.EMPTY))
    E.prove("C11.Vmap.simulate.zero_length_is_empty_with_score_0",
            E.Implies(n == 0, E.And(E.eq(E.method(tr, "get_score"), 0.0), not isinstance(ch, Stacked))))
    E.prove("C01.Vmap.simulate.wf", wf(E, vm, tr))
    E.prove("C01.Vmap.simulate.args", E.eq(E.method(tr, "get_args"), args))
    E.refutable("vmap.simulate", E.eq(E.method(tr, "get_score"), 0.0))


@task("vmap.generate_assess", props=["C01", "C02", "C03", "C04", "C11", "C35"], functions=FUNCS)
def t_generate(E):
    z3, T = E.z3, E.I.T
    vm, g, args, n = setup(E)
    k, c = key(E), chm(E, "constraint")
    tr, w = E.method(vm, "generate", k, c, args)
    # element i receives the constraint's submap at index i
    sub = lambda i: T.chm_inner(c.t, E.I.to_u(SInt(i, False)))
    gen = lambda i: UVal(T.gen_tr(g.t, subkey(E, k, n, i), sub(i), E.I.to_u(elem_args(E, args, i))), "Trace")
    # (C35, elementwise: a vectorised mask in the constraint reaches element i only through submap i, where
    # C35.Indexed.masked_entry_is_present_iff_index_hit_and_flag and C35.Distribution.* decide what flag[i] does)
    E.prove("C11.Vmap.generate.element_i_gets_constraint_submap_i",
            forall_i(E, n, lambda i: E.eq(tr.fields["inner"].at(i), gen(i))), also=["C35"])
    spec_w = E.I.make_sum(Stacked(n, lambda i: SReal(T.cdens(gen(i).t, sub(i)))))
    batch_key_discipline(E, k, lambda i: callee_key(E, tr.fields["inner"].at(i), "gf_generate_tr", "Vmap.generate element"),
                         n, "Vmap.generate")
    E.prove("C03.Vmap.generate.weight_is_sum_of_element_weights", E.eq(w, spec_w))
    E.prove("C03.Vmap.generate.elements_agree_with_their_subconstraints",
            forall_i(E, n, lambda i: T.agrees(T.tr_choices(tr.fields["inner"].at(i).t), sub(i))))
    E.prove("C01.Vmap.generate.wf", wf(E, vm, tr))
    s, r = E.method(vm, "assess", c, args)
    spec_s = E.I.make_sum(Stacked(n, lambda i: SReal(T.assess_score(g.t, sub(i), E.I.to_u(elem_args(E, args, i))))))
    E.prove("C02.Vmap.assess.score_is_sum_of_element_densities_at_submap_i", E.eq(s, spec_s))
    E.prove("C11.Vmap.assess.retval_stacks", forall_i(
        E, n, lambda i: E.eq(r.at(i), UVal(T.assess_ret(g.t, sub(i), E.I.to_u(elem_args(E, args, i)))))))
    E.refutable("vmap.generate_assess", E.eq(w, 0.0))


def an_old_trace(E, vm, g, args, n):
    """arbitrary VmapTrace as built by the real VmapTrace.build from an arbitrary batch of well-formed element traces"""
    T = E.I.T
    batch = E.ctx.fn("old_elem", E.z3.IntSort(), U)

    def el(i):
        t = batch(i)
        T.trace_facts(t, g=g.t, args=E.I.to_u(elem_args(E, args, i)))
        return UVal(t, "Trace")
    inner = Stacked(n, el, tag="old_inner")
    E.assume(n >= 0)
    old = E.call(M + ":VmapTrace.build", vm, inner, args, SInt(n, True))
    return old, inner


@task("vmap.edit_update", props=["C01", "C04", "C05", "C06", "C11", "C35"], functions=FUNCS)
def t_edit_update(E):
    z3, T = E.z3, E.I.T
    vm, g, args, n = setup(E)
    k, c = key(E), chm(E, "constraint")
    old, inner = an_old_trace(E, vm, g, args, n)
    new_xs = E.opaque("new_xs", "array")
    E.assume(E.ctx.fn("axis0_len", U, z3.IntSort())(new_xs.t) == n)      # argument changes keep shapes
    t1, t2 = sym_tangent(E, "xs_nochange"), sym_tangent(E, "c_nochange")
    ad = (diff(E, new_xs, t1), diff(E, args[1], t2))
    new, w, rd, bwd = E.method(vm, "edit", k, old, update(E, c), ad)
    new_args = (new_xs, args[1])
    sub = lambda i: update(E, UVal(T.chm_inner(c.t, E.I.to_u(SInt(i, False))), "ChoiceMap"))
    ad_i = lambda i: (diff(E, elem_args(E, new_args, i)[0], t1), diff(E, args[1], t2))
    ed = lambda f, i: f(g.t, subkey(E, k, n, i), inner.at(i).t, E.I.to_u(sub(i)), E.I.to_u(ad_i(i)))
    E.cover("vmap.edit_update.reached")
    E.prove("C11.Vmap.edit_update.element_i_is_edited_with_submap_i_and_sliced_argdiffs",
            forall_i(E, n, lambda i: E.eq(new.fields["inner"].at(i), UVal(ed(T.edit_tr, i), "Trace"))), also=["C35"])
    batch_key_discipline(E, k, lambda i: callee_key(E, new.fields["inner"].at(i), "gf_edit_tr", "Vmap.edit element"),
                         n, "Vmap.edit_update")
    # (C11: the trace of the N independent calls on the NEW argument slices records those arguments)
    E.prove("C05.Vmap.edit_update.args", E.eq(E.method(new, "get_args"), new_args), also=["C11"])
    spec_w = E.I.make_sum(Stacked(n, lambda i: SReal(ed(T.edit_w, i))))
    E.prove("C05.Vmap.edit_update.weight_is_sum_of_element_weights", E.eq(w, spec_w))
    E.prove("C01.Vmap.edit_update.wf", wf(E, vm, new))
    E.prove("C06.Vmap.edit_update.bwd_is_update_of_stacked_element_constraints", E.And(
        isinstance(bwd, Obj) and bwd.cls.name == "Update",
        forall_i(E, n, lambda i: E.eq(fld(E, bwd, "constraint").at(i), UVal(E.ctx.fn("update_bwd_constraint", U, U)(ed(T.edit_bwd, i)), "ChoiceMap")))))
    # C06 round trip: the real edit on its own output with its own backward request and argdiffs leading back to the old args
    back_ad = (diff(E, args[0], UnknownChange(E)), diff(E, args[1], UnknownChange(E)))
    st2, back = E.attempt(lambda: E.method(vm, "edit", key(E, "key2"), new, bwd, back_ad))
    E.require("C06.Vmap.edit_update.backward_request_can_be_applied", st2 == "ok")
    new2, w2 = back[0], back[1]
    E.prove("C06.Vmap.edit_update.bwd_restores_every_element", forall_i(E, n, lambda i: z3.And(
        T.tr_choices(new2.fields["inner"].at(i).t) == T.tr_choices(inner.at(i).t),
        T.tr_score(new2.fields["inner"].at(i).t) == T.tr_score(inner.at(i).t),
        T.tr_retval(new2.fields["inner"].at(i).t) == T.tr_retval(inner.at(i).t))))
    E.prove("C06.Vmap.edit_update.bwd_restores_the_arguments", E.eq(E.method(new2, "get_args"), args))
    try:
        E.I.sum_linear([(1, w2), (1, w)])
    except Exception:
        pass
    E.prove("C06.Vmap.edit_update.bwd_weight_is_the_negated_weight", E.eq(w2, E.I.unaryop("USub", w)))
    E.refutable("vmap.edit_update", E.eq(w, 0.0))


@task("vmap.edit_index", props=["C01", "C05", "C06", "C08", "C11"], functions=FUNCS)
def t_edit_index(E):
    _edit_index(E, 0, "")


@task("vmap.edit_index.axis1", props=["C06", "C08", "C11"], functions=FUNCS)
def t_edit_index_axis1(E):
    """same contract with the first argument mapped along axis 1 (in_axes=(1, None))"""
    _edit_index(E, 1, "[in_axes=(1,None)]")


@task("vmap.simulate.axis1", props=["C11"], functions=FUNCS)
def t_simulate_axis1(E):
    z3, T = E.z3, E.I.T
    vm, g, args, n = setup(E, axis=1)
    k = key(E)
    tr = E.method(vm, "simulate", k, args)
    sim = lambda i: UVal(T.sim(g.t, subkey(E, k, n, i), E.I.to_u(elem_args(E, args, i))), "Trace")
    E.prove("C11.Vmap.simulate.element_i_is_an_independent_call_on_slice_i[in_axes=(1,None)]",
            forall_i(E, n, lambda i: E.eq(tr.fields["inner"].at(i), sim(i))))
    E.prove("C11.Vmap.simulate.length_is_the_mapped_axis[in_axes=(1,None)]", E.eq(tr.fields["dim_length"], SInt(n, True)))


def _edit_index(E, axis, sfx):
    z3, T = E.z3, E.I.T
    vm, g, args, n = setup(E, axis=axis)
    k = key(E)
    old, inner = an_old_trace(E, vm, g, args, n)
    idx = E.int("idx", conc=False)
    E.assume(z3.And(idx.t >= 0, idx.t < n))
    ad = E.call(INC + ":Diff.no_change", args)
    req = E.opaque("subrequest", "EditRequest")
    ireq = E.new(CONCEPTS + ":IndexRequest", idx=idx, request=req)
    new, w, rd, bwd = E.method(vm, "edit", k, old, ireq, ad)
    ad_idx = E.call(INC + ":Diff.no_change", elem_args(E, args, idx.t))
    ef = lambda f: f(g.t, k.t, inner.at(idx.t).t, req.t, E.I.to_u(ad_idx))
    E.cover("vmap.edit_index.reached")
    # (C06: the backward IndexRequest edits the same element through the same slicing; the round trip restores score and
    # return value only if the element is edited at ITS OWN argument slice and the weight is the element's weight)
    E.prove("C11.Vmap.edit_index.element_idx_is_edited_on_its_argument_slice" + sfx,
            E.eq(new.fields["inner"].at(idx.t), UVal(ef(T.edit_tr), "Trace")), also=["C06"])
    E.prove("C11.Vmap.edit_index.frame_other_elements_unchanged" + sfx, forall_i(
        E, n, lambda i: E.Implies(i != idx.t, E.eq(new.fields["inner"].at(i), inner.at(i)))))
    E.prove("C11.Vmap.edit_index.weight_is_the_element_weight" + sfx, E.eq(w, SReal(ef(T.edit_w))), also=["C06"])
    E.prove("C06.Vmap.edit_index.bwd_is_index_request_of_element_bwd" + sfx, E.And(
        isinstance(bwd, Obj) and bwd.cls.name == "IndexRequest", E.eq(fld(E, bwd, "idx"), idx),
        E.I.to_u(fld(E, bwd, "request")) == ef(T.edit_bwd)))
    # C06: the real edit executed a second time on its own output with its own backward request (arguments unchanged): element
    # idx gets back its old view, every other element is untouched, the weight is negated (C06 for G: theory/gfi.py)
    st2, back = E.attempt(lambda: E.method(vm, "edit", key(E, "key2"), new, bwd, ad))
    E.require("C06.Vmap.edit_index.backward_request_can_be_applied" + sfx, st2 == "ok")
    new2, w2 = back[0], back[1]
    e_old, e_back = inner.at(idx.t), new2.fields["inner"].at(idx.t)
    E.prove("C06.Vmap.edit_index.bwd_restores_the_edited_element_and_negates_the_weight" + sfx, E.And(
        T.tr_choices(e_back.t) == T.tr_choices(e_old.t), T.tr_score(e_back.t) == T.tr_score(e_old.t),
        T.tr_retval(e_back.t) == T.tr_retval(e_old.t), E.eq(w2, E.I.unaryop("USub", w)),
        forall_i(E, n, lambda i: E.Implies(i != idx.t, E.eq(new2.fields["inner"].at(i), inner.at(i))))))
    # score' = score - s_idx + s'_idx   (sum over the updated batch, linear rule with the frame clause)
    old_s, new_s = E.method(old, "get_score"), E.method(new, "get_score")
    E.I.sum_point_update(new_s, old_s, idx.t)      # lemma instance (premise proved from the frame of .at[idx].set)
    E.prove("C11.Vmap.edit_index.score_updates_only_the_edited_term" + sfx, E.eq(
        new_s, SReal(old_s.t - T.tr_score(inner.at(idx.t).t) + T.tr_score(ef(T.edit_tr)))))
    E.prove("C01.Vmap.edit_index.wf" + sfx, wf(E, vm, new))
    E.prove("C05.Vmap.edit_index.args_unchanged" + sfx, E.eq(E.method(new, "get_args"), args))
    # the returned retdiff carries the NEW stacked return value (a caller that uses the vmap's result downstream re-runs on it)
    E.prove("C08.Vmap.edit_index.retdiff_primal_is_the_new_stacked_return_value" + sfx,
            E.eq(E.call(INC + ":Diff.tree_primal", rd), E.method(new, "get_retval")), also=["C11"])
    E.refutable("vmap.edit_index" + sfx, E.eq(w, 0.0))


@task("vmap.project", props=["C10", "C11"], functions=FUNCS)
def t_project(E):
    z3, T = E.z3, E.I.T
    vm, g, args, n = setup(E)
    k = key(E)
    old, inner = an_old_trace(E, vm, g, args, n)
    s = E.opaque("sel", "Selection")
    p = E.method(vm, "project", k, old, s)
    spec = E.I.make_sum(Stacked(n, lambda i: SReal(T.proj(g.t, inner.at(i).t, s.t))))
    E.prove("C10.Vmap.project.sum_of_element_projections_with_the_same_selection", E.eq(p, spec))
    E.refutable("vmap.project", E.eq(p, 0.0))


REP = COMB + ".repeat"


@task("repeat.unfold", props=["C11", "C01"], functions=[REP + ":RepeatCombinator", REP + ":repeat"] + FUNCS)
def t_repeat(E):
    """repeat(n) = contramap . vmap(in_axes=(0, None)) . contramap : n elements, each called with the SAME arguments"""
    z3, T = E.z3, E.I.T
    g = G(E)
    n = E.int("n", conc=True)
    E.assume(n.t >= 0)
    rep = E.call(REP + ":RepeatCombinator", g, n=n)
    k = key(E)
    a, b = E.opaque("a"), E.opaque("b")
    args = (a, b)
    tr = E.method(rep, "simulate", k, args)
    inner_vmap_trace = tr.fields["inner"]
    batch = inner_vmap_trace.fields["inner"]
    sk = lambda i: E.ctx.fn("split", U, z3.IntSort(), z3.IntSort(), U)(k.t, n.t, i)
    E.prove("C11.repeat.simulate.n_elements", E.eq(inner_vmap_trace.fields["dim_length"], n))
    E.prove("C11.repeat.simulate.each_element_is_a_call_on_the_same_args_with_its_own_key", forall_i(
        E, n.t, lambda i: E.eq(batch.at(i).fields["inner"], UVal(T.sim(g.t, sk(i), E.I.to_u(args)), "Trace"))))
    spec = E.I.make_sum(Stacked(n.t, lambda i: SReal(T.tr_score(T.sim(g.t, sk(i), E.I.to_u(args))))))
    E.prove("C11.repeat.simulate.score_is_sum", E.eq(E.method(tr, "get_score"), spec))
    E.prove("C11.repeat.simulate.retval_stacks", forall_i(
        E, n.t, lambda i: E.eq(E.method(tr, "get_retval").at(i), UVal(T.tr_retval(T.sim(g.t, sk(i), E.I.to_u(args)))))))
    E.prove("C11.repeat.simulate.args_are_the_callers", E.eq(E.method(tr, "get_args"), args))
    E.refutable("repeat.unfold", E.eq(E.method(tr, "get_score"), 0.0))
