"""Contracts for the ChoiceMap classes of core/generative/choice_map.py  (C17, C22 get_choices, C33, C35 Choice.build).

The real constructors / lookups are executed on choice maps whose SHAPE is concrete (static addresses from a small
alphabet, nesting depth <= 3, the grammar of the property) and whose LEAVES are symbolic: values are symbolic reals or opaque
sub-maps, flags carry a symbolic concreteness tag, indices are unbounded symbolic integers.  Lookups are compared with a
reference finite map kept in the contract (a Python dict from address tuples to (flag, value)).
This is proof per shape (unbounded in values / flags / indices) and bounded in shape: the evidence says so."""
import itertools

from pyvc.task import task
from pyvc.values import Obj, SBool, SInt, SReal, Stacked, TupleT, UVal
from .common import *

C_ = CM + ":"
FUNCS = [C_ + f"{k}.{m}" for k in ("Choice", "Static", "Indexed", "Switch", "Or") for m in ("build", "filter", "get_value", "get_inner_map")] + \
        [C_ + "Static.merge_with", C_ + "Static.static_is_empty"] + \
        [C_ + "ChoiceMap." + m for m in ("get_submap", "__getitem__", "__contains__", "has_value", "mask", "extend", "entry",
                                         "from_mapping", "d", "kw", "switch", "get_selection", "__or__", "__and__", "__call__",
                                         "invalid_subset")] + \
        [C_ + "_ChoiceMapBuilder." + m for m in ("__getitem__", "set", "update")] + \
        [C_ + "_validate_addr", C_ + "_drop_prefix", C_ + "ChmSel.build", C_ + "ChmSel.check", C_ + "ChmSel.get_subselection",
         C_ + "_shape_selection", STATIC + ":StaticTrace.get_choices"]


def obs(E, v):
    """(present: z3 Bool, value) of a get_value() result"""
    z3 = E.z3
    if v is None:
        return z3.BoolVal(False), None
    if isinstance(v, Obj) and v.cls.name == "Mask":
        return E.z(E.I.mask_flag(v)), v.fields["value"]
    if isinstance(v, UVal) and v.cls == "maybe":
        return z3.Not(E.I.T.is_None(v.t)), v
    return z3.BoolVal(True), v


def lookup(E, c, addr):
    return obs(E, E.method(E.method(c, "get_submap", addr), "get_value"))


def agrees(E, c, ref, alphabet, depth=3, name=""):
    """for every address over the alphabet up to `depth`: lookup(c, addr) == ref.get(addr, absent)"""
    clauses = []
    for d in range(1, depth + 1):
        for addr in itertools.product(alphabet, repeat=d):
            present, val = lookup(E, c, addr)
            if addr in ref:
                f, v = ref[addr]
                clauses.append(present == E.z(f))
                if val is not None:
                    clauses.append(E.Implies(E.z(f), E.eq(val, v)))
                else:
                    clauses.append(E.Not(E.z(f)))
            else:
                clauses.append(E.Not(present))
    return E.And(*clauses)


@task("chm.from_mapping_nesting", props=["C17", "C22"], functions=FUNCS)
def t_from_mapping(E):
    """d / from_mapping / kw / entry / extend with string and tuple addresses (interleaved siblings, nesting depth 3)"""
    z3 = E.z3
    a, b, c, d = (E.real(n) for n in "abcd")
    T_ = True
    m = E.call(C_ + "ChoiceMap.d", {("g", "x"): a, "y": b, ("g", "z"): c, ("g", "h", "x"): d})
    ref = {("g", "x"): (T_, a), ("y",): (T_, b), ("g", "z"): (T_, c), ("g", "h", "x"): (T_, d)}
    E.prove("C17.ChoiceMap.d.tuple_addresses_nest_hierarchically_and_siblings_merge", agrees(E, m, ref, ("g", "h", "x", "y", "z")))
    E.prove("C17.ChoiceMap.getitem_and_contains", E.And(
        E.eq(E.method(m, "__getitem__", ("g", "x")), a), E.z(E.I.contains(m, ("g", "h", "x"))), E.Not(E.z(E.I.contains(m, ("g", "y"))))))
    got = E.attempt(lambda: E.method(m, "__getitem__", ("g", "q")))
    E.prove("C17.ChoiceMap.getitem_missing_raises", got[0] == "raise" and got[1].kind == "ChoiceMapNoValueAtAddress")
    kw = E.call(C_ + "ChoiceMap.kw", x=a, y=b)
    E.prove("C17.ChoiceMap.kw", agrees(E, kw, {("x",): (T_, a), ("y",): (T_, b)}, ("x", "y", "z"), depth=2))
    e = E.call(C_ + "ChoiceMap.entry", a, "p", "q")
    E.prove("C17.ChoiceMap.entry_extend", agrees(E, e, {("p", "q"): (T_, a)}, ("p", "q"), depth=3))
    st = E.method(E.call(C_ + "ChoiceMap.empty"), "at").fields if False else None
    at = E.I.getattr(E.call(C_ + "ChoiceMap.empty"), "at")
    s = E.method(E.method(at, "__getitem__", ("u", "v")), "set", b)
    E.prove("C17.ChoiceMapBuilder.at_set_on_empty", agrees(E, s, {("u", "v"): (T_, b)}, ("u", "v"), depth=3))
    s2 = E.method(E.method(E.I.getattr(m, "at"), "__getitem__", ("g", "x")), "set", d)
    ref2 = dict(ref)
    ref2[("g", "x")] = (T_, d)
    E.prove("C17.ChoiceMapBuilder.at_set_overrides_existing_value", agrees(E, s2, ref2, ("g", "h", "x", "y", "z")))
    E.refutable("chm.from_mapping_nesting", E.eq(E.method(s2, "__getitem__", ("g", "x")), a))


@task("chm.static_trace_choices", props=["C22", "C17", "C34"], functions=FUNCS)
def t_static_trace_choices(E):
    """StaticTrace.get_choices: exactly the traced addresses, tuple addresses nested, whatever the visit order"""
    z3, T = E.z3, E.I.T
    names = [("grp", "a"), "c", ("grp", "b"), ("grp", "deep", "e")]
    subs = {}
    vals = {}
    for i, n in enumerate(names):
        # sites are distribution traces (their choice map is the real Choice(value)); deeper structure is covered by
        # chm.from_mapping_nesting
        v = E.real(f"v{i}")
        subs[n] = E.new(DIST + ":DistributionTrace", gen_fn=E.opaque(f"d{i}", "GenerativeFunction"), args=E.opaque(f"a{i}", "tuple"),
                        value=v, score=E.real(f"s{i}"))
        vals[n] = v
    tr = E.new(STATIC + ":StaticTrace", gen_fn=E.opaque("gf", "GenerativeFunction"), args=E.opaque("args", "tuple"),
               retval=E.opaque("rv"), subtraces=dict(subs))
    ch = E.method(tr, "get_choices")
    ref = {(n if isinstance(n, tuple) else (n,)): (True, v) for n, v in vals.items()}
    E.prove("C22.StaticTrace.get_choices.contains_exactly_the_traced_addresses_nested_hierarchically",
            agrees(E, ch, ref, ("grp", "a", "b", "c", "deep", "e"), depth=3))
    E.prove("C34.StaticTrace.get_subtrace.choices_equal_parent_submap", E.And(*[
        E.eq(E.method(E.method(E.method(tr, "get_subtrace", n), "get_choices"), "get_value"),
             E.method(E.method(ch, "get_submap", n), "get_value")) for n in names]))
    E.refutable("chm.static_trace_choices", E.Not(lookup(E, ch, ("grp", "a"))[0]))


@task("chm.or_mask_filter", props=["C17", "C35", "C22"], functions=FUNCS)
def t_or_mask_filter(E):
    z3 = E.z3
    a, b, c, d = (E.real(n) for n in "abcd")
    m1 = E.call(C_ + "ChoiceMap.d", {"x": a, ("g", "y"): b})
    m2 = E.call(C_ + "ChoiceMap.d", {"x": c, ("g", "z"): d})
    u = E.method(m1, "__or__", m2)
    ref = {("x",): (True, a), ("g", "y"): (True, b), ("g", "z"): (True, d)}
    E.prove("C17.ChoiceMap.or.left_biased_union", agrees(E, u, ref, ("x", "y", "z", "g"), depth=2))
    f = E.flag("f")
    mk = E.method(m1, "mask", f)
    E.prove("C17.ChoiceMap.mask.flag_gates_every_value", agrees(
        E, mk, {("x",): (f, a), ("g", "y"): (f, b)}, ("x", "y", "g"), depth=2))
    g = E.flag("g")
    mk2 = E.method(mk, "mask", g)
    E.prove("C17.ChoiceMap.mask.nested_masks_conjoin", agrees(
        E, mk2, {("x",): (SBool(z3.And(f.t, g.t), False), a), ("g", "y"): (SBool(z3.And(f.t, g.t), False), b)}, ("x", "y", "g"), depth=2))
    # masked left operand: | falls through to the right value where the left flag is false
    um = E.method(mk, "__or__", m2)
    E.prove("C17.ChoiceMap.or.masked_left_operand_falls_through", agrees(E, um, {
        ("x",): (True, SReal(z3.If(f.t, a.t, c.t))), ("g", "y"): (f, b), ("g", "z"): (True, d)}, ("x", "y", "z", "g"), depth=2))
    S = E.cls(C_ + "Selection")
    sel = E.method(E.I.getattr(S, "at"), "__getitem__", ("g",))
    fl = E.method(u, "filter", sel)
    E.prove("C17.ChoiceMap.filter.keeps_exactly_selected_addresses", agrees(
        E, fl, {("g", "y"): (True, b), ("g", "z"): (True, d)}, ("x", "y", "z", "g"), depth=2))
    fc = E.method(u, "filter", E.method(sel, "__invert__"))
    E.prove("C17.ChoiceMap.filter.complement", agrees(E, fc, {("x",): (True, a)}, ("x", "y", "z", "g"), depth=2))
    gs = E.method(u, "get_selection")
    for addr, want in ((("x",), True), (("g", "y"), True), (("g",), False), (("g", "q"), False), (("q",), False)):
        E.prove(f"C17.ChoiceMap.get_selection.selects_exactly_addresses_with_a_value[{'.'.join(addr)}]",
                E.z(E.method(gs, "__getitem__", addr)) == want)
    E.prove("C17.ChoiceMap.and.keeps_right_values_at_left_addresses", agrees(
        E, E.method(m1, "__and__", m2), {("x",): (True, c)}, ("x", "y", "z", "g"), depth=2))
    # operands that share a static prefix of length 2: the union must recurse below BOTH shared levels
    n1 = E.call(C_ + "ChoiceMap.d", {("p", "q", "x"): a, ("p", "r"): b})
    n2 = E.call(C_ + "ChoiceMap.d", {("p", "q", "y"): c, ("p", "q", "x"): d, ("p", "s"): d})
    E.prove("C17.ChoiceMap.or.left_biased_union_below_a_shared_prefix_of_length_two", agrees(
        E, E.method(n1, "__or__", n2), {("p", "q", "x"): (True, a), ("p", "q", "y"): (True, c), ("p", "r"): (True, b), ("p", "s"): (True, d)},
        ("p", "q", "r", "s", "x", "y"), depth=3),
        # (C22: StaticTrace.get_choices assembles the trace's choice map from the visited addresses with exactly this union -
        # two visited tuple addresses sharing two components must both survive)
        also=["C22"])
    gs2 = E.method(E.method(n1, "__or__", n2), "get_selection")
    E.prove("C17.ChoiceMap.get_selection.of_a_deep_union", E.And(
        E.z(E.method(gs2, "__getitem__", ("p", "q", "y"))) == True, E.z(E.method(gs2, "__getitem__", ("p", "q", "x"))) == True,  # noqa: E712
        E.z(E.method(gs2, "__getitem__", ("p", "q"))) == False))  # noqa: E712
    E.refutable("chm.or_mask_filter", E.eq(E.method(u, "__getitem__", "x"), c))


@task("chm.indexed_switch", props=["C17", "C11", "C13", "C35"], functions=FUNCS)
def t_indexed_switch(E):
    z3 = E.z3
    a, b = E.real("a"), E.real("b")
    i, j = E.int("i", conc=False), E.int("j", conc=False)
    base = E.call(C_ + "ChoiceMap.kw", x=a)
    ix = E.method(base, "extend", i)
    got = E.method(E.method(ix, "get_submap", j), "get_submap", "x")
    present, val = obs(E, E.method(got, "get_value"))
    E.prove("C17.Indexed.lookup_hits_only_its_index", E.And(present == (i.t == j.t), E.Implies(i.t == j.t, E.eq(val, a))))
    both = E.method(got if False else E.method(ix, "get_submap", j, "x"), "get_value")
    p2, v2 = obs(E, both)
    E.prove("C17.Indexed.index_levels_commute_with_splat_addresses", E.And(p2 == (i.t == j.t), E.Implies(i.t == j.t, E.eq(v2, a))))
    # index levels are transparent to selections
    S = E.cls(C_ + "Selection")
    selx = E.method(E.I.getattr(S, "at"), "__getitem__", ("x",))
    f = E.method(ix, "filter", selx)
    p3, v3 = obs(E, E.method(E.method(f, "get_submap", j, "x"), "get_value"))
    E.prove("C17.Indexed.filter.index_levels_are_transparent_to_selections", E.And(p3 == (i.t == j.t), E.Implies(i.t == j.t, E.eq(v3, a))))
    # switch
    c0, c1 = E.call(C_ + "ChoiceMap.kw", x=a), E.call(C_ + "ChoiceMap.kw", y=b)
    k = E.int("k")
    got = E.attempt(lambda: E.call(C_ + "ChoiceMap.switch", k, [c0, c1]))
    if got[0] == "ok":
        sw = got[1]
        px, vx = lookup(E, sw, ("x",))
        py, vy = lookup(E, sw, ("y",))
        inr = z3.And(k.t >= 0, k.t < 2)
        E.prove("C17.ChoiceMap.switch.only_the_indexed_branch_is_visible", E.Implies(inr, E.And(
            px == (k.t == 0), py == (k.t == 1), E.Implies(k.t == 0, E.eq(vx, a)) if vx is not None else k.t != 0,
            E.Implies(k.t == 1, E.eq(vy, b)) if vy is not None else k.t != 1)))
    # branches WITHOUT choices keep their position: switch over (empty, {x}, {y}) and ({x}, empty, {y})
    for tag, order in (("empty_first", (None, "x", "y")), ("empty_in_the_middle", ("x", None, "y"))):
        k3 = E.int("k3")
        mk = {None: lambda: E.call(C_ + "ChoiceMap.empty"), "x": lambda: E.call(C_ + "ChoiceMap.kw", x=a),
              "y": lambda: E.call(C_ + "ChoiceMap.kw", y=b)}
        g3 = E.attempt(lambda: E.call(C_ + "ChoiceMap.switch", k3, [mk[o]() for o in order]))
        if g3[0] != "ok":
            continue
        px, vx = lookup(E, g3[1], ("x",))
        py, vy = lookup(E, g3[1], ("y",))
        ix_, iy_ = order.index("x"), order.index("y")
        E.prove(f"C17.ChoiceMap.switch.a_branch_without_choices_keeps_its_position[{tag}]",
                E.Implies(z3.And(k3.t >= 0, k3.t < 3), E.And(
                    px == (k3.t == ix_), py == (k3.t == iy_),
                    E.Implies(k3.t == ix_, E.eq(vx, a)) if vx is not None else k3.t != ix_,
                    E.Implies(k3.t == iy_, E.eq(vy, b)) if vy is not None else k3.t != iy_)), also=["C13"])
    E.refutable("chm.indexed_switch", present)


@task("chm.or_with_switch_and_index_operands", props=["C17"], functions=FUNCS)
def t_or_switch_index(E):
    """| with a Switch operand (either side), and the LAZY Or node that a union of index-level maps builds, under lookups,
    filter, mask and an outer switch"""
    z3 = E.z3
    a, b, c, d = (E.real(n) for n in "abcd")
    k = E.int("k", conc=False)
    E.assume(z3.And(k.t >= 0, k.t < 2))
    sw = E.call(C_ + "ChoiceMap.switch", k, [E.call(C_ + "ChoiceMap.kw", x=a), E.call(C_ + "ChoiceMap.kw", x=b, y=c)])
    plain = E.call(C_ + "ChoiceMap.kw", x=d)
    is0 = SBool(k.t == 0, False)
    is1 = SBool(k.t == 1, False)
    left = E.method(plain, "__or__", sw)          # plain map wins wherever it has a value
    E.prove("C17.ChoiceMap.or.left_biased_union[plain | switch]", agrees(
        E, left, {("x",): (True, d), ("y",): (is1, c)}, ("x", "y"), depth=1))
    right = E.method(sw, "__or__", plain)         # the active branch wins, the plain map fills in
    E.prove("C17.ChoiceMap.or.left_biased_union[switch | plain]", agrees(
        E, right, {("x",): (True, SReal(z3.If(k.t == 0, a.t, b.t))), ("y",): (is1, c)}, ("x", "y"), depth=1))
    # union of index-level maps: a lazy Or node
    i, j, q = E.int("i", conc=False), E.int("j", conc=False), E.int("q", conc=False)
    mi = E.call(C_ + "ChoiceMap.entry", a, i, "x")
    mj = E.call(C_ + "ChoiceMap.entry", b, j, "y")
    u = E.method(mi, "__or__", mj)

    def at(m, idx, name):
        return obs(E, E.method(E.method(m, "get_submap", idx, name), "get_value"))

    def index_agrees(m, want_x, want_y):
        px, vx = at(m, q, "x")
        py, vy = at(m, q, "y")
        cl = [px == E.z(want_x), py == E.z(want_y)]
        if vx is not None:
            cl.append(E.Implies(E.z(want_x), E.eq(vx, a)))
        if vy is not None:
            cl.append(E.Implies(E.z(want_y), E.eq(vy, b)))
        return E.And(*cl)
    hit_x, hit_y = SBool(q.t == i.t, False), SBool(q.t == j.t, False)
    E.prove("C17.Or.lookup.each_operand_only_at_its_own_index", index_agrees(u, hit_x, hit_y))
    S = E.cls(C_ + "Selection")
    selx = E.method(E.I.getattr(S, "at"), "__getitem__", ("x",))
    E.prove("C17.Or.filter.keeps_exactly_selected_addresses_of_both_operands", index_agrees(E.method(u, "filter", selx), hit_x, False))
    E.prove("C17.Or.filter.complement", index_agrees(E.method(u, "filter", E.method(selx, "__invert__")), False, hit_y))
    E.prove("C17.Or.mask.false_empties_both_operands", index_agrees(E.method(u, "mask", False), False, False))
    f = E.flag("f")
    E.prove("C17.Or.mask.flag_gates_both_operands", index_agrees(
        E.method(u, "mask", f), SBool(z3.And(f.t, hit_x.t), False), SBool(z3.And(f.t, hit_y.t), False)))
    sw2 = E.call(C_ + "ChoiceMap.switch", k, [u, E.call(C_ + "ChoiceMap.empty")])
    E.prove("C17.ChoiceMap.switch.a_lazy_or_branch_is_visible_only_when_selected", index_agrees(
        sw2, SBool(z3.And(k.t == 0, hit_x.t), False), SBool(z3.And(k.t == 0, hit_y.t), False)))
    E.refutable("chm.or_with_switch_and_index_operands", at(u, q, "x")[0])


@task("chm.choice_build", props=["C35", "C17", "C23"], functions=FUNCS)
def t_choice_build(E):
    """Choice.build: Mask(v, concrete True) == v, Mask(v, concrete False) == nothing, traced flag kept"""
    z3 = E.z3
    a = E.real("a")
    f = E.flag("f")
    m = E.new(FT + ":Mask", value=a, flag=f)
    c = E.call(C_ + "ChoiceMap.choice", m)
    present, val = obs(E, E.method(c, "get_value"))
    obs_spec = E.And(present == f.t, E.Implies(f.t, E.eq(val, a)) if val is not None else E.Not(f.t))
    E.prove("C35.Choice.build.masked_value_is_present_iff_flag", obs_spec)
    # C23: the SAME tag-free observation (present == flag, value == a when present) is proved on the concrete-True arm (raw
    # value), the concrete-False arm (empty map) and the traced arm (Mask kept): the three arms agree observationally
    E.prove("C23.Choice.build.concrete_and_traced_flags_agree_observationally", obs_spec)
    # an index level below a masked value: element lookup of a vectorised mask is the mask of the element (C35 elementwise)
    fl = E.flag("fl", conc=False)
    i_, j_ = E.int("i", conc=False), E.int("j", conc=False)
    mi = E.call(C_ + "ChoiceMap.entry", E.new(FT + ":Mask", value=a, flag=fl), i_, "x")
    pi, vi = obs(E, E.method(E.method(mi, "get_submap", j_, "x"), "get_value"))
    hit = i_.t == j_.t
    E.prove("C35.Indexed.masked_entry_is_present_iff_index_hit_and_flag", E.And(
        pi == z3.And(hit, fl.t), E.Implies(z3.And(hit, fl.t), E.eq(vi, a)) if vi is not None else E.Not(z3.And(hit, fl.t))))
    E.prove("C17.Choice.static_address_below_a_value_is_empty",
            E.Not(obs(E, E.method(E.method(E.call(C_ + "ChoiceMap.choice", a), "get_submap", "x"), "get_value"))[0]))
    E.refutable("chm.choice_build", present)


@task("chm.aliases", props=["C17", "C18"], functions=[C_ + "ChoiceMap." + m for m in ("merge", "__xor__", "__add__", "value", "simplify", "at", "empty")] + [
    C_ + "Selection.complement", C_ + "Selection.filter"] + [C_ + "_ChoiceMapBuilder." + m for m in ("v", "d", "kw", "from_mapping", "n")])
def t_aliases(E):
    """the alias spellings mean what their primary spelling means: merge / ^ / + are the left-biased union `|`, value is choice,
    Selection.complement is ~, Selection.filter(sample) is sample.filter(selection), the builder's v / d / kw / from_mapping set
    the corresponding choice map at the builder's address"""
    a, b, c = E.real("a"), E.real("b"), E.real("c")
    m1 = E.call(C_ + "ChoiceMap.d", {"x": a, ("g", "y"): b})
    m2 = E.call(C_ + "ChoiceMap.d", {"x": c, ("g", "z"): c})
    union = E.method(m1, "__or__", m2)
    ref = {("x",): (True, a), ("g", "y"): (True, b), ("g", "z"): (True, c)}
    for nm in ("merge", "__xor__", "__add__"):
        r = E.method(m1, nm, m2)
        E.prove(f"C17.ChoiceMap.{nm}.is_the_left_biased_union", agrees(E, r, ref, ("g", "x", "y", "z")))
    E.prove("C17.ChoiceMap.value.is_choice", E.eq(E.call(C_ + "ChoiceMap.value", a), E.call(C_ + "ChoiceMap.choice", a)))
    E.prove("C17.ChoiceMap.simplify.is_the_identity", E.method(m1, "simplify") is m1)
    at = E.I.getattr(E.call(C_ + "ChoiceMap.empty"), "at")
    bld = E.method(at, "__getitem__", ("p", "q"))
    E.prove("C17.ChoiceMapBuilder.v_sets_a_value", agrees(E, E.method(bld, "v", a), {("p", "q"): (True, a)}, ("p", "q"), depth=3))
    E.prove("C17.ChoiceMapBuilder.kw_sets_a_static_map", agrees(E, E.method(bld, "kw", x=a, y=b),
                                                                 {("p", "q", "x"): (True, a), ("p", "q", "y"): (True, b)}, ("p", "q", "x", "y"), depth=3))
    E.prove("C17.ChoiceMapBuilder.d_sets_a_static_map", agrees(E, E.method(bld, "d", {"x": a}), {("p", "q", "x"): (True, a)}, ("p", "q", "x"), depth=3))
    E.prove("C17.ChoiceMapBuilder.from_mapping_sets_a_static_map",
            agrees(E, E.method(bld, "from_mapping", [("x", a), (("u", "v"), b)]),
                   {("p", "q", "x"): (True, a), ("p", "q", "u", "v"): (True, b)}, ("p", "q", "x", "u", "v"), depth=4))
    s = E.opaque("s", "Selection")
    E.prove("C18.Selection.complement.is_invert", E.eq(E.method(s, "complement"), E.method(s, "__invert__")))
    smp = chm(E, "sample")
    E.prove("C18.Selection.filter.is_the_sample_filtered_by_the_selection", E.eq(E.method(s, "filter", smp), E.method(smp, "filter", s)))
    E.refutable("chm.aliases", agrees(E, E.method(m2, "merge", m1), ref, ("g", "x", "y", "z")))


@task("bounded.choice_map.index_address_kinds", props=["C17", "C11", "C35"], functions=FUNCS, kind="bounded")
def t_bounded_index_kinds(_E):
    """BOUNDED stand-in (not a proof): array-valued index components, slices, builders under jax.vmap and vectorised flags -
    the address kinds the obligations above do not cover - on the real classes against an independently computed reference
    finite map (replay/bounded_c17_chm.py states the exact bounds)"""
    import json
    import os
    import subprocess
    root = os.path.dirname(os.path.dirname(os.path.abspath(__file__)))
    repo = os.environ.get("VERIF_REPO", "/repo")
    tier = os.environ.get("VERIF_TIER", "quick")
    try:
        p = subprocess.run(["/venv/bin/python", os.path.join(root, "replay", "bounded_c17_chm.py"), tier], capture_output=True, text=True,
                           timeout=3000, cwd="/var/tmp", env=dict(os.environ, PYTHONPATH=os.path.join(repo, "src"), JAX_PLATFORMS="cpu"))
        line = [l for l in p.stdout.splitlines() if l.startswith("{")]
        if not line:
            return {"error": "no result: " + (p.stderr or p.stdout)[-1500:], "violations": [], "evaluations": 0}
        return json.loads(line[-1])
    except Exception as e:      # noqa
        return {"error": f"{type(e).__name__}: {e}", "violations": [], "evaluations": 0}
