"""Contracts for genjax._src.core.generative.functional_types.Mask  (C19, C23).

A mask is observed as (flag, value-if-valid).  Flags carry a symbolic concreteness tag: each clause is proved on the
concrete `match` arms and on the traced arm of the real code, and the two give the same observable result."""
from pyvc.task import task
from pyvc.values import Obj, SBool, SInt, SReal, UVal
from .common import *

MASK = FT + ":Mask"
FUNCS = [MASK + "." + m for m in ("__init__", "build", "maybe_mask", "flatten", "unmask", "primal_flag", "_or_idx",
                                  "__or__", "__xor__", "__invert__", "or_n", "xor_n")] + [STAGING + ":tree_choose"]


def mk(E, name):
    return E.new(MASK, value=E.real(name + "_v"), flag=E.flag(name + "_f"))


def obs(E, m):
    """(flag z3 term, value) of a Mask | raw value | None"""
    if m is None:
        return E.z3.BoolVal(False), None
    if isinstance(m, Obj) and m.cls.name == "Mask":
        f = E.I.mask_flag(m)
        return E.z(f if not isinstance(f, bool) else f), m.fields["value"]
    return E.z3.BoolVal(True), m


def same_obs(E, m, flag, value):
    f, v = obs(E, m)
    if v is None:
        return f == flag
    return E.And(f == flag, E.Implies(flag, E.eq(v, value)))


@task("mask.algebra.build", props=["C19", "C23"], functions=FUNCS)
def t_build(E):
    z3 = E.z3
    a = E.real("a")
    f, g = E.flag("f"), E.flag("g")
    m = E.call(MASK + ".build", a, f)
    E.prove("C19.Mask.build.raw", same_obs(E, m, f.t, a))
    inner = E.new(MASK, value=a, flag=g)
    m2 = E.call(MASK + ".build", inner, f)
    E.prove("C19.Mask.build.nested_and", same_obs(E, m2, z3.And(f.t, g.t), a))
    E.prove("C19.Mask.build.no_nested_mask", not (isinstance(m2.fields["value"], Obj) and m2.fields["value"].cls.name == "Mask"))
    mm = E.call(MASK + ".maybe_mask", a, f)
    E.prove("C19.Mask.maybe_mask.obs", same_obs(E, mm, f.t, a))
    # documented: concrete True -> raw value, concrete False -> None, traced -> Mask
    kind = "none" if mm is None else ("mask" if isinstance(mm, Obj) else "raw")
    E.prove("C19.Mask.maybe_mask.shape", E.And(
        E.Implies(z3.And(f.conc, f.t), kind == "raw"), E.Implies(z3.And(f.conc, z3.Not(f.t)), kind == "none"),
        E.Implies(z3.Not(f.conc), kind == "mask")))
    # maybe_mask of a value that already is a mask: both flags count, whatever their concreteness
    mmn = E.call(MASK + ".maybe_mask", inner, f)
    E.prove("C19.Mask.maybe_mask.of_a_mask.flags_are_anded", same_obs(E, mmn, z3.And(f.t, g.t), a))
    E.prove("C19.Mask.maybe_mask.of_a_mask.no_nested_mask",
            not (isinstance(mmn, Obj) and mmn.cls.name == "Mask" and isinstance(mmn.fields["value"], Obj) and mmn.fields["value"].cls.name == "Mask"))
    fl = E.method(inner, "flatten")
    E.prove("C19.Mask.flatten.obs", same_obs(E, fl, g.t, a))
    E.refutable("mask.algebra.build", same_obs(E, m2, f.t, a))


@task("mask.algebra.unmask", props=["C19", "C23"], functions=FUNCS)
def t_unmask(E):
    z3 = E.z3
    m = mk(E, "m")
    d = E.real("default")
    r = E.method(m, "unmask", d)
    E.prove("C19.Mask.unmask.default", E.eq(r, SReal(z3.If(m.fields["flag"].t, m.fields["value"].t, d.t))))
    r2 = E.method(m, "unmask")
    E.prove("C19.Mask.unmask.nodefault", E.eq(r2, m.fields["value"]))
    inv = E.method(m, "__invert__")
    E.prove("C19.Mask.invert", same_obs(E, inv, z3.Not(m.fields["flag"].t), m.fields["value"]))
    E.prove("C19.Mask.invert.flag_always", obs(E, inv)[0] == z3.Not(m.fields["flag"].t))
    E.prove("C23.Mask.invert.concreteness", E.z(inv.fields["flag"].conc if not isinstance(inv.fields["flag"], bool) else True)
            == m.fields["flag"].conc)
    E.refutable("mask.algebra.unmask", E.eq(r, m.fields["value"]))


@task("mask.algebra.or", props=["C19", "C23", "C35"], functions=FUNCS)
def t_or(E):
    z3 = E.z3
    a, b = mk(E, "a"), mk(E, "b")
    fa, fb = a.fields["flag"].t, b.fields["flag"].t
    r = E.method(a, "__or__", b)
    E.prove("C19.Mask.or.truth_table", same_obs(E, r, z3.Or(fa, fb),
                                                SReal(z3.If(fa, a.fields["value"].t, b.fields["value"].t))),
            # (C35: a masked constraint laid over another constraint at the same address is merged with Mask.__or__)
            also=["C35"])
    E.refutable("mask.algebra.or", same_obs(E, r, z3.Or(fa, fb), b.fields["value"]))
    idx = E.method(a, "_or_idx", a.fields["flag"], b.fields["flag"])
    E.prove("C19.Mask._or_idx.table", E.z(idx.t if not isinstance(idx, int) else idx) ==
            z3.If(fa, 0, z3.If(fb, 1, -1)))


@task("mask.algebra.xor", props=["C19", "C23"], functions=FUNCS)
def t_xor(E):
    z3 = E.z3
    a, b = mk(E, "a"), mk(E, "b")
    fa, fb = a.fields["flag"].t, b.fields["flag"].t
    r = E.method(a, "__xor__", b)
    E.prove("C19.Mask.xor.truth_table", same_obs(E, r, z3.Xor(fa, fb),
                                                 SReal(z3.If(fa, a.fields["value"].t, b.fields["value"].t))))
    E.refutable("mask.algebra.xor", same_obs(E, r, z3.Or(fa, fb), SReal(z3.If(fa, a.fields["value"].t, b.fields["value"].t))))


@task("mask.algebra.nary", props=["C19"], functions=FUNCS)
def t_nary(E):
    z3 = E.z3
    a, b, c = mk(E, "a"), mk(E, "b"), mk(E, "c")
    fa, fb, fc = (m.fields["flag"].t for m in (a, b, c))
    va, vb, vc = (m.fields["value"].t for m in (a, b, c))
    r = E.call(MASK + ".or_n", a, b, c)
    E.prove("C19.Mask.or_n.first_valid_wins", same_obs(E, r, z3.Or(fa, fb, fc), SReal(z3.If(fa, va, z3.If(fb, vb, vc)))))
    x = E.call(MASK + ".xor_n", a, b, c)
    E.prove("C19.Mask.xor_n.flag", obs(E, x)[0] == z3.Xor(z3.Xor(fa, fb), fc))
    exactly_one = z3.PbEq([(fa, 1), (fb, 1), (fc, 1)], 1)
    E.prove("C19.Mask.xor_n.exactly_one_value", E.Implies(exactly_one, same_obs(
        E, x, z3.BoolVal(True), SReal(z3.If(fa, va, z3.If(fb, vb, vc))))))


@task("bounded.mask.nonfinite_payloads", props=["C19"], functions=FUNCS, kind="bounded")
def t_bounded_nonfinite(_E):
    """BOUNDED stand-in (not a proof): the Mask operations on non-finite payloads and defaults (nan, +-inf) - the obligations
    above treat machine arithmetic as real arithmetic, where `flag*value + (1-flag)*default` and a selection coincide - on the
    real class, eager / jit / vmap, Python-bool, traced and vector flags (replay/bounded_c19_mask.py states the exact bounds)"""
    import json
    import os
    import subprocess
    root = os.path.dirname(os.path.dirname(os.path.abspath(__file__)))
    repo = os.environ.get("VERIF_REPO", "/repo")
    try:
        p = subprocess.run(["/venv/bin/python", os.path.join(root, "replay", "bounded_c19_mask.py")], capture_output=True, text=True,
                           timeout=3000, cwd="/var/tmp", env=dict(os.environ, PYTHONPATH=os.path.join(repo, "src"), JAX_PLATFORMS="cpu"))
        line = [l for l in p.stdout.splitlines() if l.startswith("{")]
        if not line:
            return {"error": "no result: " + (p.stderr or p.stdout)[-1500:], "violations": [], "evaluations": 0}
        return json.loads(line[-1])
    except Exception as e:      # noqa
        return {"error": f"{type(e).__name__}: {e}", "violations": [], "evaluations": 0}
