"""Contracts for combinators/switch.py (Switch, SwitchTrace), or_else.py, mixture.py  (C13; C01-C03, C05, C06, C10 cases).

Branch count is schematic (n = 2 and n = 3 abstract branches); the index is an UNBOUNDED symbolic integer with symbolic
concreteness (Python int / traced array).  Each clause is stated twice: on the region 0 <= idx < n ("in_range") and on its
complement ("out_of_range", where the documented behaviour is clamping)."""
from pyvc.task import task
from pyvc.values import Obj, SBool, SInt, SReal, TupleT, UVal
from pyvc.interp_ops import zint
from .common import *

M = COMB + ".switch"
FUNCS = [M + ":Switch." + m for m in ("simulate", "assess", "generate", "project", "edit", "_make_edit_fresh_trace",
                                      "_check_args_match_branches")] + \
        [M + ":SwitchTrace." + m for m in ("get_idx", "get_choices", "get_inner_trace")] + \
        [STAGING + ":multi_switch", STAGING + ":tree_choose", CM + ":Switch.build", CM + ":ChoiceMap.switch"]


def setup(E, n):
    gs = tuple(E.opaque(f"G{j}", "GenerativeFunction") for j in range(n))
    sw = E.new(M + ":Switch", branches=gs)
    idx = E.int("idx")
    bargs = tuple(E.opaque(f"args{j}", "tuple") for j in range(n))
    return sw, gs, idx, bargs


def regions(E, idx, n):
    z3 = E.z3
    inr = z3.And(idx.t >= 0, idx.t < n)
    clamp = z3.If(idx.t < 0, 0, z3.If(idx.t > n - 1, n - 1, idx.t))
    return inr, clamp


def wf(E, sw, tr):
    score, ret = E.method(sw, "assess", E.method(tr, "get_choices"), E.method(tr, "get_args"))
    return E.And(E.eq(score, E.method(tr, "get_score")), E.eq(ret, E.method(tr, "get_retval")))


def _tasks(n):
    @task(f"switch.simulate.n{n}", props=["C01", "C02", "C04", "C13", "C23"], functions=FUNCS)
    def t_sim(E):
        z3, T = E.z3, E.I.T
        sw, gs, idx, bargs = setup(E, n)
        k = key(E)
        args = (idx,) + bargs
        tr = E.method(sw, "simulate", k, args)
        inr, clamp = regions(E, idx, n)
        E.cover(f"switch.simulate.n{n}.reached")
        chm_u = E.I.to_u(E.method(tr, "get_choices")) if True else None
        for j in range(n):
            sim_j = UVal(T.sim(gs[j].t, k.t, bargs[j].t), "Trace")
            body = E.And(
                E.eq(tr.fields["subtraces"][j], sim_j),                       # the branch that ran (same key)
                E.eq(E.method(tr, "get_score"), E.method(sim_j, "get_score")),   # the branch that is reported
                E.eq(E.method(tr, "get_retval"), E.method(sim_j, "get_retval")),
                chm_u == T.tr_choices(sim_j.t),                               # the branch whose choices are visible
                E.eq(E.method(tr, "get_args"), args))
            E.prove(f"C13.Switch.simulate.in_range.behaves_as_branch[{j}of{n}]", E.Implies(z3.And(inr, idx.t == j), body))
            # (C23: the index carries a symbolic concreteness tag - the clamped behaviour is proved for Python-int indices (an eager
            # call) and for traced ones (the same call under jit) alike)
            E.prove(f"C13.Switch.simulate.out_of_range.clamped[{j}of{n}]", E.Implies(z3.And(z3.Not(inr), clamp == j), body),
                    also=["C01", "C23"])
        E.prove(f"C01.Switch.simulate.in_range.wf[n{n}]", E.Implies(inr, wf(E, sw, tr)))
        E.prove(f"C01.Switch.simulate.out_of_range.wf[n{n}]", E.Implies(z3.Not(inr), wf(E, sw, tr)))
        E.refutable(f"switch.simulate.n{n}", E.eq(E.method(tr, "get_score"), SReal(T.tr_score(T.sim(gs[0].t, k.t, bargs[0].t)))))

    @task(f"switch.assess_generate_project.n{n}", props=["C02", "C03", "C10", "C13", "C01"], functions=FUNCS)
    def t_agp(E):
        z3, T = E.z3, E.I.T
        sw, gs, idx, bargs = setup(E, n)
        k, c = key(E), chm(E)
        args = (idx,) + bargs
        inr, clamp = regions(E, idx, n)
        score, ret = E.method(sw, "assess", c, args)
        tr, w = E.method(sw, "generate", k, c, args)
        old = _an_old_trace(E, sw, gs, idx, bargs, n)
        sel = E.opaque("sel", "Selection")
        p = E.method(sw, "project", k, old[0], sel)
        for j in range(n):
            a_body = E.And(E.eq(score, SReal(T.assess_score(gs[j].t, c.t, bargs[j].t))),
                           E.eq(ret, UVal(T.assess_ret(gs[j].t, c.t, bargs[j].t))))
            gj = UVal(T.gen_tr(gs[j].t, k.t, c.t, bargs[j].t), "Trace")
            g_body = E.And(E.eq(tr.fields["subtraces"][j], gj), E.eq(w, SReal(T.gen_w(gs[j].t, k.t, c.t, bargs[j].t))),
                           E.eq(w, SReal(T.cdens(gj.t, c.t))), E.eq(E.method(tr, "get_score"), E.method(gj, "get_score")),
                           E.eq(E.method(tr, "get_retval"), E.method(gj, "get_retval")),
                           E.I.to_u(E.method(tr, "get_choices")) == T.tr_choices(gj.t))
            p_body = E.eq(p, SReal(T.proj(gs[j].t, old[1][j].t, sel.t)))
            for nm, body in (("assess", a_body), ("generate", g_body), ("project", p_body)):
                pid = {"assess": "C02", "generate": "C03", "project": "C10"}[nm]
                E.prove(f"{pid}.Switch.{nm}.in_range.behaves_as_branch[{j}of{n}]", E.Implies(z3.And(inr, idx.t == j), body))
                E.prove(f"C13.Switch.{nm}.in_range.behaves_as_branch[{j}of{n}]", E.Implies(z3.And(inr, idx.t == j), body))
                E.prove(f"C13.Switch.{nm}.out_of_range.clamped[{j}of{n}]", E.Implies(z3.And(z3.Not(inr), clamp == j), body),
                        also=[pid])
        E.prove(f"C01.Switch.generate.in_range.wf[n{n}]", E.Implies(inr, wf(E, sw, tr)))
        E.refutable(f"switch.assess_generate_project.n{n}", E.eq(w, SReal(T.gen_w(gs[0].t, k.t, c.t, bargs[0].t))))

    @task(f"switch.edit.n{n}", props=["C01", "C05", "C06", "C08", "C13", "C23", "C34"], functions=FUNCS)
    def t_edit(E):
        z3, T = E.z3, E.I.T
        sw, gs, idx0, bargs0 = setup(E, n)
        k, c = key(E), chm(E)
        old, subs = _an_old_trace(E, sw, gs, idx0, bargs0, n)
        new_idx = E.int("new_idx")          # concrete Python int (eager call) or traced (jit): both explored (C23)
        idx_nochange = sym_tangent(E, "idx_nochange")
        if idx_nochange.cls.name == "_NoChange":
            E.assume(E.eq(new_idx, idx0))                   # honest tagging
        ads = tuple(E.opaque(f"argdiffs{j}", "tuple") for j in range(n))
        for a in ads:
            E.assume(T.d_is_tree(a.t))
        argdiffs = (diff(E, new_idx, idx_nochange),) + ads
        req = update(E, c)
        new, w, rd, bwd = E.method(sw, "edit", k, old, req, argdiffs)
        inr_old, clamp_old = regions(E, idx0, n)
        inr, clamp = regions(E, new_idx, n)
        same = idx_nochange.cls.name == "_NoChange"
        E.cover(f"switch.edit.n{n}.reached")
        E.prove(f"C05.Switch.edit.args[n{n}]", E.eq(E.method(new, "get_args"), E.call(INC + ":Diff.tree_primal", argdiffs)))
        score_change = E.I.binop("Sub", E.method(new, "get_score"), E.method(old, "get_score"))
        for j in range(n):
            # branch j is the one that runs now (clamp(new index) == j; out-of-range indices included) and, for an unchanged
            # index, the one the old trace ran
            here = z3.And(clamp == j, clamp_old == j) if same else (clamp == j)
            if same:
                rq, ad = E.I.to_u(req), ads[j].t
                ej = UVal(T.edit_tr(gs[j].t, k.t, subs[j].t, rq, ad), "Trace")
                body = E.And(E.eq(new.fields["subtraces"][j], ej), E.eq(E.method(new, "get_score"), E.method(ej, "get_score")),
                             E.eq(E.method(new, "get_retval"), E.method(ej, "get_retval")),
                             E.eq(w, SReal(T.edit_w(gs[j].t, k.t, subs[j].t, rq, ad))))
                # (C34: the executed branch's sub-trace is what get_subtrace returns; its score must be the switch's score)
                E.prove(f"C13.Switch.edit.same_index.in_range.behaves_as_branch[{j}of{n}]", E.Implies(here, body), also=["C34"])
                fresh = T.fresh(gs[j].t, subs[j].t, rq, ad)
                E.prove(f"C05.Switch.edit.same_index.weight_is_score_change[{j}of{n}]",
                        E.Implies(z3.And(here, z3.Not(fresh)), E.eq(w, score_change)))
                bj = UVal(T.edit_bwd(gs[j].t, k.t, subs[j].t, rq, ad), "EditRequest")
                E.prove(f"C06.Switch.edit.same_index.bwd_is_the_executed_branch_request[{j}of{n}]",
                        E.Implies(here, E.I.to_u(bwd) == bj.t))
            else:
                # index changed: the new branch is resampled.  "No new random choice is introduced" holds exactly when
                # the constraint covers every choice of the new branch; then the weight must be the score change.
                # documented behaviour of an index tagged UnknownChange (also when the value happens to be the same, also for
                # concrete Python-int indices - what an eager call sees must be what jit sees, C23): the branch's old sub-trace is
                # NOT consulted; a fresh trace of the branch is simulated at the new arguments and updated with the request
                pj = UVal(T.d_primal(ads[j].t), "tuple")
                fresh_j = T.sim(gs[j].t, k.t, pj.t)
                rqj = E.I.to_u(req)
                adj = E.I.to_u(E.call(INC + ":Diff.no_change", ads[j]))
                fj = UVal(T.edit_tr(gs[j].t, k.t, fresh_j, rqj, adj), "Trace")
                E.prove(f"C13.Switch.edit.changed_index.new_branch_is_simulated_afresh_then_updated[{j}of{n}]",
                        E.Implies(here, E.eq(new.fields["subtraces"][j], fj)), also=["C23"])
                covers = T.covers_all(gs[j].t, c.t, T.d_primal(ads[j].t))
                E.prove(f"C05.Switch.edit.changed_index.weight_is_score_change_when_fully_constrained[{j}of{n}]",
                        E.Implies(z3.And(here, covers), E.eq(w, score_change)))
            E.prove(f"C01.Switch.edit.in_range.wf[{j}of{n},{'same' if same else 'changed'}]", E.Implies(here, wf(E, sw, new)))
        if not same:
            # a changed index resamples the new branch; with a constraint covering nothing the weight must be 0-sum
            E.prove(f"C08.Switch.edit.changed_index_retdiff_is_new_retval[n{n}]",
                    E.eq(E.call(INC + ":Diff.tree_primal", rd), E.method(new, "get_retval")))
            if n == 2:
                # C06 round trip across an index change: the real edit executed a second time, on its own output, with its own
                # backward request and argdiffs leading back to the old index and arguments, must give back the old branch's
                # choices with the negated weight
                back_ads = tuple(E.opaque(f"back_argdiffs{j}", "tuple") for j in range(n))
                for j, a in enumerate(back_ads):
                    E.assume(z3.And(T.d_is_tree(a.t), T.d_primal(a.t) == bargs0[j].t))
                back = (diff(E, idx0, UnknownChange(E)),) + back_ads
                st2, val2 = E.attempt(lambda: E.method(sw, "edit", key(E, "key2"), new, bwd, back))
                E.require(f"C06.Switch.edit.changed_index.backward_request_can_be_applied[n{n}]", st2 == "ok", raised=str(val2))
                new2, w2 = val2[0], val2[1]
                for j in range(n):
                    E.prove(f"C06.Switch.edit.changed_index.bwd_restores_the_old_branch_choices_and_negates_the_weight[{j}of{n}]",
                            E.Implies(clamp_old == j, E.And(
                                T.tr_choices(E.I.to_u(new2.fields["subtraces"][j])) == T.tr_choices(subs[j].t),
                                E.eq(w2, E.I.unaryop("USub", w)))))
        E.refutable(f"switch.edit.n{n}", E.eq(w, 0.0))
    return t_sim, t_agp, t_edit


def _an_old_trace(E, sw, gs, idx, bargs, n):
    """an arbitrary SwitchTrace as built by the real Switch.simulate / generate / edit: per-branch sub-traces are arbitrary
    well-formed traces of their branch (only the executed one is meaningful), score/retval picked by the real tree_choose"""
    T = E.I.T
    subs = []
    for j in range(n):
        t = T.abstract_trace(f"old_sub{j}", g=gs[j].t)
        E.assume(T.tr_args(t.t) == bargs[j].t)
        subs.append(t)
    # (the real constructors select retval / score with the CLAMPED index: Switch.simulate / generate / edit)
    retval, score = E.call(STAGING + ":tree_choose", E.method(sw, "_clamp_index", idx),
                           [(E.method(t, "get_retval"), E.method(t, "get_score")) for t in subs])
    old = E.new(M + ":SwitchTrace", gen_fn=sw, args=(idx,) + tuple(bargs), subtraces=list(subs), retval=retval, score=score)
    return old, subs


for _n in (2, 3):
    _tasks(_n)


@task("switch.edit.heterogeneous_retdiff_tags", props=["C05", "C08", "C13"], functions=FUNCS)
def t_edit_tags(E):
    """an Update that changes the return value of ONE branch only (the ordinary case for branches with different addresses):
    the branches' retdiffs carry different change tags.  Switch.edit must still apply the update to the executed branch, and the
    tags it returns must be sound (NoChange only if the selected return value is unchanged)."""
    z3, T = E.z3, E.I.T
    sw, gs, idx0, bargs0 = setup(E, 2)
    k, c = key(E), chm(E)
    old, subs = _an_old_trace(E, sw, gs, idx0, bargs0, 2)
    # branch 0's edit reports UnknownChange, branch 1's reports NoChange (legal outputs of a callee's edit)
    real_edit = E.I.abstract_methods[("GenerativeFunction", "edit")]
    rv = [E.real("new_ret0"), E.real("new_ret1")]

    def edit(I, g, key_, trace, request, argdiffs):
        new, w, rd, bwd = real_edit(I, g, key_, trace, request, argdiffs)
        j = 0 if g.t.eq(gs[0].t) else 1
        tag = UnknownChange(E) if j == 0 else NoChange(E)
        E.assume(T.tr_retval(new.t) == I.to_u(rv[j]))
        if j == 1:
            E.assume(T.tr_retval(new.t) == T.tr_retval(E.I.to_u(trace)))
        return new, w, diff(E, rv[j], tag), bwd
    E.I.abstract_methods[("GenerativeFunction", "edit")] = edit
    ads = tuple(E.opaque(f"argdiffs{j}", "tuple") for j in range(2))
    for a in ads:
        E.assume(T.d_is_tree(a.t))
    argdiffs = (diff(E, idx0, NoChange(E)),) + ads
    st, val = E.attempt(lambda: E.method(sw, "edit", k, old, update(E, c), argdiffs))
    E.require("C05.Switch.edit.branches_with_different_retdiff_tags.does_not_raise", st == "ok", also=["C13"], raised=str(val))
    new, w, rd, bwd = val
    inr, clamp = regions(E, idx0, 2)
    for j in range(2):
        E.prove(f"C13.Switch.edit.branches_with_different_retdiff_tags.retval_is_the_executed_branch[{j}of2]",
                E.Implies(clamp == j, E.eq(E.method(new, "get_retval"), rv[j])))
    E.prove("C08.Switch.edit.branches_with_different_retdiff_tags.retdiff_primal_is_new_retval",
            E.eq(E.call(INC + ":Diff.tree_primal", rd), E.method(new, "get_retval")))
    E.prove("C08.Switch.edit.branches_with_different_retdiff_tags.nochange_sound",
            E.Implies(T.all_nochange(rd), E.eq(E.method(new, "get_retval"), E.method(old, "get_retval"))),
            # (C13: what the switch reports about its return value must come from the branch that executed - a NoChange taken
            # over from a branch that did not run makes every site downstream keep a stale value)
            also=["C13"])
    E.refutable("switch.edit.heterogeneous_retdiff_tags", E.eq(E.method(new, "get_retval"), rv[0]))


OE = COMB + ".or_else"


@task("or_else.unfold", props=["C13", "C23", "C02"], functions=[OE + ":or_else", OE + ":or_else.argument_mapping"] + FUNCS)
def t_or_else(E):
    """or_else(if_fn, else_fn)(flag, if_args, else_args): the if-branch iff the flag is true, for Python and traced flags"""
    z3, T = E.z3, E.I.T
    gi, ge = G(E, "G_if"), G(E, "G_else")
    oe = E.call(OE + ":or_else", gi, ge)
    flag = E.flag("flag")
    ia, ea = E.opaque("if_args", "tuple"), E.opaque("else_args", "tuple")
    k = key(E)
    tr = E.method(oe, "simulate", k, (flag, ia, ea))
    sw_tr = tr.fields["inner"]
    st, sf = UVal(T.sim(gi.t, k.t, ia.t), "Trace"), UVal(T.sim(ge.t, k.t, ea.t), "Trace")
    E.cover("or_else.reached")
    for name, cond, ref, j in (("true_runs_the_if_branch", flag.t, st, 0), ("false_runs_the_else_branch", z3.Not(flag.t), sf, 1)):
        E.prove(f"C13.or_else.simulate.{name}", E.Implies(cond, E.And(
            E.eq(E.method(tr, "get_score"), E.method(ref, "get_score")), E.eq(E.method(tr, "get_retval"), E.method(ref, "get_retval")),
            E.eq(sw_tr.fields["subtraces"][j], ref),
            E.I.to_u(E.method(tr, "get_choices")) == T.tr_choices(ref.t))), also=["C02"])
    c = chm(E)
    s, r = E.method(oe, "assess", c, (flag, ia, ea))
    E.prove("C13.or_else.assess.follows_the_flag", E.eq(s, SReal(z3.If(
        flag.t, T.assess_score(gi.t, c.t, ia.t), T.assess_score(ge.t, c.t, ea.t)))), also=["C02"])
    E.refutable("or_else.unfold", E.eq(E.method(tr, "get_score"), E.method(st, "get_score")))


MX = COMB + ".mixture"
TFPM = "genjax._src.generative_functions.distributions.tensorflow_probability"


@task("mix.unfold", props=["C13", "C02"], functions=[MX + ":mix", MX + ":mix.mixture_model", GF + ":GenerativeFunctionClosure.__matmul__",
                                                     GF + ":GenerativeFunctionClosure._with_kwargs"])
def t_mix(E):
    """mix(g0, g1)(logits, args0, args1): a static function with two trace sites - "mixture_component": the component index
    drawn from TFP's Categorical(logits=logits) (a NORMALISED density: log softmax(logits)[k], A10), and "component_sample":
    switch(g0, g1) called at (index, args0, args1).  With C02's static-language invariant (score = sum of the site densities)
    and the Switch obligations this is  score = log softmax(logits)[k] + score(g_k)."""
    z3, I = E.z3, E.I
    g0, g1 = G(E, "G0"), G(E, "G1")
    sites = []

    def trace(I_, addr, gen_fn, args):
        v = E.opaque(f"site_value_{len(sites)}")
        sites.append((addr, gen_fn, args, v))
        return v
    I.overrides[STATIC + ":trace"] = trace
    I.overrides.pop(DIST + ":ExactDensity.sample", None)        # the real wrapper bodies, not the abstract density theory
    I.overrides.pop(DIST + ":ExactDensity.logpdf", None)
    m = E.call(MX + ":mix", g0, g1)
    E.require("C13.mix.is_a_static_generative_function", is_obj(m, "StaticGenerativeFunction"))
    logits, a0, a1 = E.opaque("mixture_logits", "array"), E.opaque("args0", "tuple"), E.opaque("args1", "tuple")
    ret = I.call(m.fields["source"], [logits, a0, a1], {})
    E.require("C13.mix.two_trace_sites", len(sites) == 2)
    (ad0, gf0, ar0, v0), (ad1, gf1, ar1, v1) = sites
    E.prove("C13.mix.site_addresses", ad0 == "mixture_component" and ad1 == "component_sample")
    # the index site: whatever wrapper object it is, its log-density of a value k at the site's arguments is
    # tfd.Categorical(logits=mixture_logits).log_prob(k), and its sampler is that distribution's sampler
    kv = E.opaque("k", "array")
    lp = E.method(gf0, "logpdf", kv, StarOpaque(ar0) if False else ar0[0], ar0[1]) if isinstance(ar0, tuple) and len(ar0) == 2 else None
    cat = I.call_ext("tensorflow_probability.substrates.jax.distributions.Categorical", [], {"logits": logits})
    want = E.ctx.fn("ext.log_prob", U, U, U)(I.to_u(cat), kv.t)
    E.prove("C02.mix.component_index_density_is_the_normalised_categorical_log_prob",
            lp is not None and E.z(I.to_u(lp) == want), also=["C13"])
    E.prove("C13.mix.component_site_is_switch_over_the_components_at_the_drawn_index", E.And(
        is_obj(gf1, "Switch"), E.eq(fld(E, gf1, "branches"), (g0, g1)), E.eq(ar1, (v0, a0, a1))))
    E.prove("C13.mix.returns_the_component_value", ret is v1)
    E.refutable("mix.unfold", E.z(I.to_u(lp) == E.ctx.fn("ext.log_prob", U, U, U)(I.to_u(cat), logits.t)) if lp is not None else False)


from pyvc.values import StarOpaque  # noqa: E402
