"""Contracts for the combinators derived from scan (scan.py: accumulate, reduce, iterate, iterate_final, masked_iterate,
masked_iterate_final, prepend_initial_acc)  -- C12 (documented reference loops) and C16 (masked steps are inert).

Each decorator is executed for real on an abstract step function; the resulting Dimap/Scan/Dimap/MaskCombinator composition
is then simulated symbolically (n symbolic) and compared with the documented loop, stated as a recurrence over the step's
GFI contract."""
from pyvc.task import task
from pyvc.values import Obj, SBool, SInt, SReal, Stacked, TupleT, UVal
from pyvc.interp_ops import zint
from .common import *
from .vmap import forall_i

M = COMB + ".scan"
DEC = [M + ":" + f for f in ("accumulate", "reduce", "iterate", "iterate_final", "masked_iterate", "masked_iterate_final",
                             "prepend_initial_acc")] + [M + ":Scan.simulate", COMB + ".dimap:Dimap.simulate",
                                                        COMB + ".mask:MaskCombinator.simulate"]


def fold(E, k, i):
    return E.ctx.fn("fold_in", U, E.z3.IntSort(), U)(k, i)


def loops_after(E, nb=0):
    return [s for s in E.I.scans[nb:] if s.shape is not None][0]


def unfolding(loop, body):
    """body(i) evaluated after instantiating the loop's defining equation (and proved invariants) at index i"""
    def b(i):
        loop.unfold(i)
        return body(i)
    return b


def step_sim(E, loop, f, i, extra=()):
    T = E.I.T
    return T.sim(f.t, fold(E, loop.carry_at(i)[0].t, i), E.I.to_u((loop.carry_at(i)[2],) + tuple(extra)))


@task("scan.iterate", props=["C12"], functions=DEC)
def t_iterate(E):
    """iterate(n)(f)(init) = [init, f(init), f(f(init)), ...] (n+1 values); iterate_final = f^n(init)"""
    z3, T = E.z3, E.I.T
    f = G(E, "step")
    n = E.int("n", conc=True)
    E.assume(n.t >= 1)      # n = 0 raises IndexError in Scan._static_scan_length (`length or ...` with no scanned input): listed
    init = E.opaque("init", "array")
    k = key(E)
    it = E.I.call(E.call(M + ":iterate", n=n), [f], {})
    tr = E.method(it, "simulate", k, (init,))
    loop = loops_after(E)
    loop.prove_invariant(E, "C12.iterate.counter", lambda i, c: zint(c[1]) == i)
    ret = E.method(tr, "get_retval")
    sr = lambda i: UVal(T.tr_retval(step_sim(E, loop, f, i)))
    E.prove("C12.iterate.first_element_is_init", E.And(E.eq(ret.at(z3.IntVal(0)), init), E.eq(loop.carry_at(z3.IntVal(0))[2], init)))
    E.prove("C12.iterate.element_i_plus_1_is_step_of_element_i", forall_i(E, n.t, unfolding(loop, lambda i: E.And(
        E.eq(ret.at(i + 1), sr(i)), E.eq(loop.carry_at(i + 1)[2], sr(i))))))
    E.prove("C12.iterate.length_is_n_plus_1", (z3.IntVal(ret.n) if isinstance(ret.n, int) else ret.n) == n.t + 1)
    nb = len(E.I.scans)
    itf = E.I.call(E.call(M + ":iterate_final", n=n), [f], {})
    tr2 = E.method(itf, "simulate", k, (init,))
    loop2 = loops_after(E, nb)
    loop2.prove_invariant(E, "C12.iterate_final.counter", lambda i, c: zint(c[1]) == i)
    sr2 = lambda i: UVal(T.tr_retval(step_sim(E, loop2, f, i)))
    E.prove("C12.iterate_final.returns_the_final_state", E.And(
        E.eq(E.method(tr2, "get_retval"), loop2.carry_at(n.t)[2]), E.eq(loop2.carry_at(z3.IntVal(0))[2], init),
        forall_i(E, n.t, unfolding(loop2, lambda i: E.eq(loop2.carry_at(i + 1)[2], sr2(i))))))
    E.refutable("scan.iterate", E.eq(E.method(tr2, "get_retval"), init))


@task("scan.accumulate_reduce", props=["C12"], functions=DEC)
def t_accumulate(E):
    """accumulate()(f)(init, xs) = [init, f(init, xs[0]), ...];  reduce()(f)(init, xs) = the fold"""
    z3, T = E.z3, E.I.T
    f = G(E, "step")
    init, xs = E.opaque("init", "array"), E.opaque("xs", "array")
    n = E.ctx.fn("axis0_len", U, z3.IntSort())(xs.t)
    k = key(E)
    x_at = lambda i: UVal(E.ctx.fn("axis0_index", U, z3.IntSort(), U)(xs.t, i), "array")
    acc = E.I.call(E.call(M + ":accumulate"), [f], {})
    tr = E.method(acc, "simulate", k, (init, xs))
    loop = loops_after(E)
    loop.prove_invariant(E, "C12.accumulate.counter", lambda i, c: zint(c[1]) == i)
    ret = E.method(tr, "get_retval")
    sr = lambda i: UVal(T.tr_retval(step_sim(E, loop, f, i, (x_at(i),))))
    E.prove("C12.accumulate.running_accumulations", E.And(
        E.eq(ret.at(z3.IntVal(0)), init), E.eq(loop.carry_at(z3.IntVal(0))[2], init),
        forall_i(E, n, unfolding(loop, lambda i: E.And(E.eq(ret.at(i + 1), sr(i)), E.eq(loop.carry_at(i + 1)[2], sr(i)))))))
    nb = len(E.I.scans)
    red = E.I.call(E.call(M + ":reduce"), [f], {})
    tr2 = E.method(red, "simulate", k, (init, xs))
    loop2 = loops_after(E, nb)
    loop2.prove_invariant(E, "C12.reduce.counter", lambda i, c: zint(c[1]) == i)
    sr2 = lambda i: UVal(T.tr_retval(step_sim(E, loop2, f, i, (x_at(i),))))
    E.prove("C12.reduce.is_the_fold", E.And(
        E.eq(E.method(tr2, "get_retval"), loop2.carry_at(n)[2]), E.eq(loop2.carry_at(z3.IntVal(0))[2], init),
        forall_i(E, n, unfolding(loop2, lambda i: E.eq(loop2.carry_at(i + 1)[2], sr2(i))))))
    E.refutable("scan.accumulate_reduce", E.eq(E.method(tr2, "get_retval"), init))


def _masked(final):
    name = "masked_iterate_final" if final else "masked_iterate"

    @task(f"scan.{name}", props=["C16", "C12"], functions=DEC)
    def t(E):
        z3, T = E.z3, E.I.T
        f = G(E, "step")
        init = E.opaque("init", "array")
        n = E.int("n", conc=True)
        E.assume(n.t >= 0)
        flag_fn = E.ctx.fn("mask_flag", z3.IntSort(), z3.BoolSort())
        masks = Stacked(n.t, lambda i: SBool(flag_fn(i), False), tag="masks")
        k = key(E)
        mi = E.I.call(E.call(M + ":" + name), [f], {})
        tr = E.method(mi, "simulate", k, (init, masks))
        loop = loops_after(E)
        loop.prove_invariant(E, f"C16.{name}.counter", lambda i, c: zint(c[1]) == i)
        state = lambda i: loop.carry_at(i)[2]
        stepped = lambda i: UVal(T.tr_retval(step_sim(E, loop, f, i)))
        E.prove(f"C16.{name}.true_step_is_an_ordinary_iterate_step",
                forall_i(E, n.t, unfolding(loop, lambda i: E.Implies(flag_fn(i), E.eq(state(i + 1), stepped(i))))))
        E.prove(f"C16.{name}.false_step_contributes_no_score", forall_i(
            E, n.t, lambda i: E.Implies(z3.Not(flag_fn(i)), E.eq(loop.unfold(i)[2], 0.0))))
        E.prove(f"C16.{name}.true_step_contributes_the_step_score", forall_i(
            E, n.t, lambda i: E.Implies(flag_fn(i), E.eq(loop.unfold(i)[2], SReal(T.tr_score(step_sim(E, loop, f, i)))))))
        if final:
            E.prove("C16.masked_iterate_final.false_step_leaves_the_value_unchanged",
                    forall_i(E, n.t, unfolding(loop, lambda i: E.Implies(z3.Not(flag_fn(i)), E.eq(state(i + 1), state(i))))))
            E.prove("C16.masked_iterate_final.returns_the_final_value", E.And(
                E.eq(E.method(tr, "get_retval"), state(n.t)), E.eq(state(z3.IntVal(0)), init)))
        else:
            ret = E.method(tr, "get_retval")
            E.prove("C16.masked_iterate.returns_initial_then_states", E.And(
                E.eq(ret.at(z3.IntVal(0)), init),
                forall_i(E, n.t, unfolding(loop, lambda i: E.eq(ret.at(i + 1), state(i + 1))))))
        E.refutable(f"scan.{name}", E.eq(state(n.t), init))
    return t


_masked(True)
_masked(False)
