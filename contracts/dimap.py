"""Contracts for combinators/dimap.py: Dimap, DimapTrace, dimap / map / contramap  (C15, C01-C03, C05, C08, C10).
pre / post are arbitrary pure functions (opaque); the inner generative function is abstract."""
from pyvc.task import task
from pyvc.values import Obj, SBool, SReal, StarOpaque, TupleT, UVal
from .common import *

M = COMB + ".dimap"
FUNCS = [M + ":Dimap." + m for m in ("simulate", "generate", "assess", "project", "edit_change_target", "edit")] + \
        [M + ":DimapTrace." + m for m in ("get_args", "get_choices", "get_retval", "get_score", "get_gen_fn")] + \
        [M + ":dimap", M + ":map", M + ":contramap"]


def setup(E):
    g = G(E)
    pre, post = E.opaque("pre"), E.opaque("post")
    dm = E.new(M + ":Dimap", inner=g, argument_mapping=pre, retval_mapping=post)
    return dm, g, pre, post


def ap(E, f, *args):
    return E.I.call(f, list(args), {})


def wf(E, dm, tr):
    score, ret = E.method(dm, "assess", E.method(tr, "get_choices"), E.method(tr, "get_args"))
    return E.And(E.eq(score, E.method(tr, "get_score")), E.eq(ret, E.method(tr, "get_retval")))


@task("dimap.simulate_generate_assess", props=["C01", "C02", "C03", "C04", "C15"], functions=FUNCS)
def t_sga(E):
    T = E.I.T
    dm, g, pre, post = setup(E)
    k = key(E)
    args = E.opaque("args", "tuple")
    inner_args = ap(E, pre, StarOpaque(args))
    tr = E.method(dm, "simulate", k, args)
    inner = UVal(T.sim(g.t, k.t, E.I.to_u(inner_args)), "Trace")
    E.cover("dimap.simulate.reached")
    E.prove("C01.Dimap.simulate.wf", wf(E, dm, tr))
    E.prove("C15.Dimap.simulate.behaves_as_inner_on_pre_args", E.And(
        E.eq(tr.fields["inner"], inner), E.eq(E.method(tr, "get_args"), args),
        E.eq(E.method(tr, "get_choices"), E.method(inner, "get_choices")),
        E.eq(E.method(tr, "get_score"), E.method(inner, "get_score")),
        E.eq(E.method(tr, "get_retval"), ap(E, post, args, inner_args, E.method(inner, "get_retval"))),
        E.eq(E.method(tr, "get_gen_fn"), dm)))
    c = chm(E)
    tr2, w = E.method(dm, "generate", k, c, args)
    inner2 = UVal(T.gen_tr(g.t, k.t, c.t, E.I.to_u(inner_args)), "Trace")
    E.prove("C01.Dimap.generate.wf", wf(E, dm, tr2))
    E.prove("C03.Dimap.generate.weight_and_choices_are_inner", E.And(
        E.eq(w, SReal(T.gen_w(g.t, k.t, c.t, E.I.to_u(inner_args)))), E.eq(w, SReal(T.cdens(inner2.t, c.t))),
        T.agrees(E.I.to_u(E.method(tr2, "get_choices")), c.t), E.eq(tr2.fields["inner"], inner2)))
    E.prove("C15.Dimap.generate.retval", E.eq(E.method(tr2, "get_retval"),
                                              ap(E, post, args, inner_args, E.method(inner2, "get_retval"))))
    # the whole view of the generated trace, as for simulate: in particular its arguments are the OUTER arguments (a later
    # update with default argdiffs starts from trace.get_args())
    E.prove("C15.Dimap.generate.behaves_as_inner_on_pre_args", E.And(
        E.eq(E.method(tr2, "get_args"), args), E.eq(E.method(tr2, "get_choices"), E.method(inner2, "get_choices")),
        E.eq(E.method(tr2, "get_score"), E.method(inner2, "get_score")), E.eq(E.method(tr2, "get_gen_fn"), dm)), also=["C01"])
    s, r = E.method(dm, "assess", c, args)
    E.prove("C02.Dimap.assess.eq_dens", E.eq(s, SReal(T.assess_score(g.t, c.t, E.I.to_u(inner_args)))))
    E.prove("C15.Dimap.assess.retval", E.eq(r, ap(E, post, args, inner_args, UVal(T.assess_ret(g.t, c.t, E.I.to_u(inner_args))))))
    sel = E.opaque("sel", "Selection")
    E.prove("C10.Dimap.project.delegates", E.eq(E.method(dm, "project", k, tr, sel), E.method(g, "project", k, inner, sel)))
    E.refutable("dimap.simulate_generate_assess", E.eq(E.method(tr, "get_retval"), E.method(inner, "get_retval")))


@task("dimap.edit", props=["C01", "C05", "C06", "C08", "C15", "C16"], functions=FUNCS)
def t_edit(E):
    T, INCR = E.I.T, E.I.INCR
    dm, g, pre, post = setup(E)
    k = key(E)
    # an arbitrary DimapTrace produced by this combinator (representation invariant = what simulate/generate/edit build)
    old_args = E.opaque("old_args", "tuple")
    old_inner_args = ap(E, pre, StarOpaque(old_args))
    old_inner = T.abstract_trace("old_inner", g=g.t)
    E.assume(T.tr_args(old_inner.t) == E.I.to_u(old_inner_args))
    E.assume(T.d_primal(old_args.t) == old_args.t)
    old_ret = ap(E, post, old_args, old_inner_args, E.method(old_inner, "get_retval"))
    old = E.new(M + ":DimapTrace", gen_fn=dm, inner=old_inner, args=old_args, retval=old_ret)
    ad = E.opaque("argdiffs", "tuple")
    E.assume(T.d_is_tree(ad.t))
    primals, tangents = UVal(T.d_primal(ad.t), "tuple"), UVal(T.d_tangent(ad.t), "tangents")
    INCR.link(ad.t)
    E.assume(INCR.hu(old_args.t, primals.t, tangents.t))          # honest tagging of the arguments, leafwise
    req = update(E, chm(E))
    new, w, rd, bwd = E.method(dm, "edit", k, old, req, ad)
    new_inner_args = ap(E, pre, StarOpaque(primals))
    # what the inner edit was called with
    inner_ad = UVal(INCR.inc_out(pre.t, primals.t, tangents.t), "retdiff")
    inner_new = UVal(T.edit_tr(g.t, k.t, old_inner.t, E.I.to_u(req), inner_ad.t), "Trace")
    E.cover("dimap.edit.reached")
    E.prove("C01.Dimap.edit.wf", wf(E, dm, new))
    E.prove("C05.Dimap.edit.args", E.eq(E.method(new, "get_args"), primals))
    E.prove("C15.Dimap.edit.inner_is_edited_at_pre_of_new_args", E.And(
        E.eq(new.fields["inner"], inner_new), E.eq(E.method(inner_new, "get_args"), new_inner_args)))
    E.prove("C15.Dimap.edit.choices_score_weight_bwd_are_inner", E.And(
        E.eq(E.method(new, "get_choices"), E.method(inner_new, "get_choices")),
        E.eq(E.method(new, "get_score"), E.method(inner_new, "get_score")),
        E.eq(w, SReal(T.edit_w(g.t, k.t, old_inner.t, E.I.to_u(req), inner_ad.t))),
        E.eq(fld(E, bwd, "constraint"), UVal(E.ctx.fn("update_bwd_constraint", U, U)(
            T.edit_bwd(g.t, k.t, old_inner.t, E.I.to_u(req), inner_ad.t)), "ChoiceMap"))))
    fresh = T.fresh(g.t, old_inner.t, E.I.to_u(req), inner_ad.t)
    E.prove("C05.Dimap.edit.weight_is_score_change", E.Implies(
        E.Not(fresh), E.eq(w, E.I.binop("Sub", E.method(new, "get_score"), E.method(old, "get_score")))))
    E.prove("C15.Dimap.edit.retval_is_post_of_new_args",
            E.eq(E.method(new, "get_retval"), ap(E, post, primals, new_inner_args, E.method(inner_new, "get_retval"))),
            # (C16: masked_iterate_final keeps the value of a masked-off step through a Dimap whose post reads the NEW arguments)
            also=["C16"])
    E.prove("C08.Dimap.edit.retdiff_primal_is_new_retval",
            E.eq(E.call(INC + ":Diff.tree_primal", rd), E.method(new, "get_retval")))
    # tag soundness: instantiate the incremental contract's clause (S) at the previous inputs of both calls
    INCR.use_sound(inner_ad, old_args)
    INCR.use_sound(rd, (old_args, E.method(old_inner, "get_retval")))
    # (C15: "the new return value AND ITS CHANGE TAG match recomputing pre and post on the new arguments")
    E.prove("C08.Dimap.edit.nochange_sound", E.Implies(T.d_nc_all(rd.t), E.eq(E.method(new, "get_retval"), old_ret)),
            also=["C15"])
    E.prove("C15.Dimap.edit.unchanged_args_unchanged_inner_retval_gives_nochange", E.Implies(
        E.And(T.d_nc_all(ad.t), T.d_nc_all(T.edit_rd(g.t, k.t, old_inner.t, E.I.to_u(req), inner_ad.t))), T.d_nc_all(rd.t)))
    # C06 round trip: the real edit on its own output with its own backward request and (honestly tagged) argdiffs leading back
    ad2 = E.opaque("argdiffs_back", "tuple")
    E.assume(E.And(T.d_is_tree(ad2.t), T.d_primal(ad2.t) == old_args.t))
    INCR.link(ad2.t)
    E.assume(INCR.hu(primals.t, T.d_primal(ad2.t), T.d_tangent(ad2.t)))
    st2, back = E.attempt(lambda: E.method(dm, "edit", key(E, "key2"), new, bwd, ad2))
    E.require("C06.Dimap.edit.backward_request_can_be_applied", st2 == "ok")
    new2, w2 = back[0], back[1]
    E.prove("C06.Dimap.edit.bwd_restores_the_trace_and_negates_the_weight", E.And(
        E.eq(E.method(new2, "get_choices"), E.method(old, "get_choices")), E.eq(E.method(new2, "get_score"), E.method(old, "get_score")),
        E.eq(E.method(new2, "get_args"), old_args), E.eq(E.method(new2, "get_retval"), old_ret), E.eq(w2, E.I.unaryop("USub", w))))
    E.refutable("dimap.edit", T.d_nc_all(rd.t))


@task("dimap.decorators", props=["C15"], functions=FUNCS)
def t_decorators(E):
    g = G(E)
    f = E.opaque("f")
    m = E.I.call(E.call(M + ":map", f), [g], {})
    a = E.opaque("args", "tuple")
    x = E.opaque("x")
    E.prove("C15.map.pre_is_identity_post_applies_f", E.And(
        E.eq(ap(E, m.fields["retval_mapping"], a, a, x), ap(E, f, x)), E.eq(m.fields["inner"], g)))
    p, q = E.real("p"), E.real("q")
    E.prove("C15.map.pre_returns_args_tuple", E.eq(ap(E, m.fields["argument_mapping"], p, q), (p, q)))
    cm_ = E.I.call(E.call(M + ":contramap", f), [g], {})
    E.prove("C15.contramap.pre_is_f_post_is_identity", E.And(
        E.eq(cm_.fields["argument_mapping"], f), E.eq(ap(E, cm_.fields["retval_mapping"], a, a, x), x)))
    d0 = E.I.call(E.call(M + ":dimap"), [g], {})
    E.prove("C15.dimap.defaults_are_identity", E.And(
        E.eq(ap(E, d0.fields["argument_mapping"], p, q), (p, q)), E.eq(ap(E, d0.fields["retval_mapping"], a, a, x), x)))
