"""Contracts for ChoiceMap.invalid_subset and _shape_selection  (C33).

  * _shape_selection: structural induction over the choice-map classes.  For each class (Choice, Static with 1-2 keys, Indexed,
    Or, Switch with 2-3 branches) with OPAQUE children, the real `loop` is run with its recursive calls on the opaque children
    replaced by the induction hypothesis  Den(loop(c), q) = inshape(c, q); the selection it returns is proved to denote exactly
    the addresses of the node, for an ARBITRARY address (opaque list):
        Choice: p = ()       Static{k_i: c_i}: p = k_i :: q with q in shape(c_i)       Indexed(c, _): p = _ :: q, q in shape(c)
        Or / Switch: union of the alternatives               (index components are wildcards: "index nesting is ignored")
  * invalid_subset wiring, for an opaque model and an opaque constraint: the result is constraint.filter(~shape(zero-trace
    choices)) when that is not statically empty, and None otherwise;
  * end-to-end on schematic models / constraints mixing valid, invalid, nested and indexed addresses (real Static / Indexed /
    filter code, concrete shapes, symbolic values)."""
import z3
from pyvc.task import task
from pyvc.values import NativeFn, Obj, SBool, SInt, SReal, UVal, U
from .common import *
from .selection import Addr, den
from .interpreters import Rec
from .choice_map import lookup

C_ = CM + ":"
FUNCS = [C_ + "_shape_selection", C_ + "ChoiceMap.invalid_subset", C_ + "Selection.extend", C_ + "Selection.__or__",
         C_ + "Selection.__invert__", C_ + "Static.filter", C_ + "Choice.filter", C_ + "Indexed.filter"]


def install_ih(E):
    """recursive calls of `loop` on an opaque child return an opaque selection shape_sel(child) (induction hypothesis)"""
    I = E.I
    ih = E.ctx.fn("shape_sel_of", U, U)

    def loop(I_, inner, selection):
        if isinstance(inner, UVal):
            return UVal(ih(inner.t), "Selection")
        return I_.call_function(loop.real, [inner, selection], {}, no_override=True)
    real_lookup = I.call_function

    def call_function(fv, args, kwargs, no_override=False):
        if getattr(fv, "name", None) == "loop" and fv.module is not None and fv.module.name == CM and not no_override \
                and args and isinstance(args[0], UVal):
            return UVal(ih(args[0].t), "Selection")
        return real_lookup(fv, args, kwargs, no_override=no_override)
    I.call_function = call_function
    return ih


def child(E, name):
    return E.opaque(name, "ChoiceMap")


def _shape_task(kind):
    @task(f"shape_selection.{kind}", props=["C33"], functions=FUNCS)
    def t(E):
        I = E.I
        A = Addr(E)
        ih = install_ih(E)
        inshape = lambda c, q: den(E, A, UVal(ih(c.t), "Selection"), q)
        p = E.ctx.const("p", U)
        head, tail, nil = A.head(p), A.tail(p), A.is_nil(p)
        ka, kb = "a", "b"
        c1, c2, c3 = child(E, "c1"), child(E, "c2"), child(E, "c3")
        if kind == "choice":
            node = E.new(C_ + "Choice", v=E.real("v"))
            want = lambda:nil
        elif kind == "static1":
            node = E.new(C_ + "Static", mapping={ka: c1})
            want = lambda:z3.And(z3.Not(nil), head == I.to_u(ka), inshape(c1, tail))
        elif kind == "static2":
            node = E.new(C_ + "Static", mapping={ka: c1, kb: c2})
            want = lambda:z3.And(z3.Not(nil), z3.Or(z3.And(head == I.to_u(ka), inshape(c1, tail)),
                                              z3.And(head == I.to_u(kb), inshape(c2, tail))))
        elif kind == "static_nested_dict":
            node = E.new(C_ + "Static", mapping={ka: {kb: c1}})
            t2 = A.tail(tail)
            want = lambda:z3.And(z3.Not(nil), head == I.to_u(ka), z3.Not(A.is_nil(tail)), A.head(tail) == I.to_u(kb), inshape(c1, t2))
        elif kind == "indexed":
            node = E.new(C_ + "Indexed", c=c1, addr=E.int("idx", conc=False))
            want = lambda:z3.And(z3.Not(nil), inshape(c1, tail))
        elif kind == "or":
            node = E.new(C_ + "Or", c1=c1, c2=c2)
            want = lambda:z3.Or(inshape(c1, p), inshape(c2, p))
        elif kind == "switch2":
            node = E.new(C_ + "Switch", idx=E.int("i", conc=False), chms=[c1, c2])
            want = lambda:z3.Or(inshape(c1, p), inshape(c2, p))
        else:
            node = E.new(C_ + "Switch", idx=E.int("i", conc=False), chms=[c1, c2, c3])
            want = lambda:z3.Or(inshape(c1, p), inshape(c2, p), inshape(c3, p))
        # the components of an address are static components (never the `...` wildcard)
        E.assume(z3.Implies(z3.Not(nil), head != I.to_u(Ellipsis)))
        E.assume(z3.Implies(z3.And(z3.Not(nil), z3.Not(A.is_nil(tail))), A.head(tail) != I.to_u(Ellipsis)))
        sel = E.call(C_ + "_shape_selection", node)
        E.cover(f"shape_selection.{kind}.reached")
        E.prove(f"C33._shape_selection.{kind}.selects_exactly_the_addresses_of_the_node", den(E, A, sel, p) == want())
        E.refutable(f"shape_selection.{kind}", den(E, A, sel, p))
    return t


# (the Indexed case of `loop` is not put under contract: zero-trace choice maps of the library's generative functions never
#  contain Indexed nodes - vmap / scan give batched Static maps - and the property does not say what it should denote)
for _k in ("choice", "static1", "static2", "static_nested_dict", "or", "switch2", "switch3"):
    _shape_task(_k)


@task("invalid_subset.wiring", props=["C33"], functions=FUNCS)
def t_wiring(E):
    I, T = E.I, E.I.T
    g = G(E)
    constraint = chm(E, "constraint")
    args = (E.opaque("a0"), E.opaque("a1"))
    shape = E.ctx.fn("shape_sel_of", U, U)
    I.overrides[C_ + "_shape_selection"] = lambda I_, c: UVal(shape(I_.to_u(c)), "Selection")
    zt = E.method(g, "get_zero_trace", *args)
    shape_chm = E.method(zt, "get_choices")
    sel = UVal(shape(I.to_u(shape_chm)), "Selection")
    want = E.method(constraint, "filter", E.method(sel, "__invert__"))
    res = E.method(constraint, "invalid_subset", g, args)
    empty = E.I.truth(E.method(want, "static_is_empty"), tag="spec-empty")
    if empty:
        E.prove("C33.invalid_subset.none_when_nothing_is_outside_the_model_s_addresses", res is None)
    else:
        E.prove("C33.invalid_subset.is_the_constraint_filtered_by_the_complement_of_the_model_s_addresses",
                res is not None and E.eq(res, want))
    E.refutable("invalid_subset.wiring", res is not None and E.eq(res, constraint))


def _model(chm_obj):
    zt = Rec(get_choices=NativeFn("get_choices", lambda I_: chm_obj))
    return Rec(get_zero_trace=NativeFn("get_zero_trace", lambda I_, *a: zt))


@task("invalid_subset.examples", props=["C33"], functions=FUNCS)
def t_examples(E):
    """model addresses:  x,  (sub, y),  (vec, i, z) for every index i.   constraints mix valid / invalid / nested / indexed"""
    I = E.I
    val = lambda n: E.real(n)
    mk = lambda d: E.call(C_ + "ChoiceMap.d", d)
    model_chm = mk({"x": val("mx"), "sub": {"y": val("my")}})
    bz = E.opaque("batched_z", "array")
    I.T.not_zero_length(bz.t)                                     # (a length-0 batch has no choices at all)
    vec = mk({"vec": {"z": bz}})                                  # what vmap / scan traces hold: a batched Static map
    model_chm = E.method(model_chm, "__or__", vec)
    model = _model(model_chm)

    def present(c, addr):
        if c is None:
            return z3.BoolVal(False)
        return lookup(E, c, addr)[0]
    cases = {
        "all_valid": ({"x": val("a"), "sub": {"y": val("b")}}, [], [("x",), ("sub", "y")]),
        "missing_addresses_are_ignored": ({"x": val("a")}, [], [("x",)]),
        "one_invalid_top_level": ({"x": val("a"), "w": val("b")}, [("w",)], [("x",)]),
        "invalid_nested": ({"sub": {"y": val("a"), "q": val("b")}}, [("sub", "q")], [("sub", "y")]),
        "valid_name_at_wrong_depth": ({"y": val("a"), "sub": {"x": val("b")}}, [("y",), ("sub", "x")], []),
        "only_invalid": ({"w": val("a")}, [("w",)], []),
    }
    for name, (d, invalid, valid) in cases.items():
        c = mk(d)
        res = E.method(c, "invalid_subset", model, ())
        if not invalid:
            E.prove(f"C33.invalid_subset.example.{name}.returns_none", res is None)
            continue
        E.prove(f"C33.invalid_subset.example.{name}.reports_exactly_the_invalid_addresses", E.And(
            res is not None, *[present(res, a) for a in invalid], *[z3.Not(present(res, a)) for a in valid]))
    # indexed constraints: the index layer is ignored when matching against the model's addresses
    j = E.int("j", conc=False)
    ok = E.call(C_ + "ChoiceMap.entry", val("cz"), "vec", j, "z")
    bad = E.call(C_ + "ChoiceMap.entry", val("cq"), "vec", j, "q")
    E.prove("C33.invalid_subset.example.indexed_valid.returns_none", E.method(ok, "invalid_subset", model, ()) is None)
    r = E.method(E.method(ok, "__or__", bad), "invalid_subset", model, ())
    E.require("C33.invalid_subset.example.indexed_invalid.reports_something", r is not None)
    at = lambda c, *addr: lookup(E, E.method(E.method(c, "get_submap", "vec"), "get_submap", j), addr)[0]
    E.prove("C33.invalid_subset.example.indexed_invalid.reports_exactly_the_invalid_address", E.And(at(r, "q"), z3.Not(at(r, "z"))))
    E.refutable("invalid_subset.examples", present(E.method(mk({"x": val("a"), "w": val("b")}), "invalid_subset", model, ()), ("x",)))
