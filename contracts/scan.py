"""Contracts for combinators/scan.py: Scan / ScanTrace and the derived combinators  (C12, C16; scan cases of C01-C03, C05, C10).

`lax.scan` is the fold (A4): the engine represents the carry as functions of the step index with the defining equations
available at every index; facts about ALL iterations are proved by induction (`prove_invariant`: base + step on the real
closure body with an arbitrary carry).  Length n is an unbounded symbolic integer.
The documented reference loop   carry_{i+1}, y_i = kernel(carry_i, xs[i])   is characterised by its recurrence; the contract
proves that the real loop's carry satisfies exactly that recurrence over the kernel's GFI contract."""
from pyvc.task import task
from pyvc.values import Obj, SBool, SInt, SReal, Stacked, TupleT, UVal
from .common import *
from .vmap import forall_i
from pyvc.interp_ops import zint, zreal

M = COMB + ".scan"
FUNCS = [M + ":Scan." + m for m in ("_static_scan_length", "simulate", "generate", "assess", "project", "edit_update", "edit_regenerate",
                                    "edit_index", "edit")] + \
        [M + ":ScanTrace.build"]


def setup(E):
    kfn = G(E, "K")
    sc = E.new(M + ":Scan", kernel_gen_fn=kfn, length=None)
    init, xs = E.opaque("init_carry"), E.opaque("xs", "array")
    n = E.ctx.fn("axis0_len", U, E.z3.IntSort())(xs.t)
    E.assume(E.I.T.d_primal(init.t) == init.t)
    return sc, kfn, init, xs, n


def the_loop(E, k, what, also=()):
    """the k-th lax.scan the real code ran on this path (a refuted obligation, not a checker crash, when there is none)"""
    scans = getattr(E.I, "scans", [])
    E.require(f"C12.{what}.runs_the_kernel_loop_over_all_iterations", len(scans) > k, also=also)
    return scans[k]


def n_scans(E):
    return len(getattr(E.I, "scans", []))


def x_at(E, xs, i):
    return UVal(E.ctx.fn("axis0_index", U, E.z3.IntSort(), U)(xs.t, i), "array")


def fold(E, k, i):
    return E.ctx.fn("fold_in", U, E.z3.IntSort(), U)(k, i)


def pair(E, t):
    """(carry_out, scanned_out) of a kernel return value"""
    return (UVal(E.ctx.fn("proj_2_0", U, U)(t)), UVal(E.ctx.fn("proj_2_1", U, U)(t)))


def wf(E, sc, tr):
    score, ret = E.method(sc, "assess", E.method(tr, "get_choices"), E.method(tr, "get_args"))
    return score, ret


@task("scan.simulate", props=["C01", "C02", "C04", "C12"], functions=FUNCS)
def t_simulate(E):
    z3, T = E.z3, E.I.T
    sc, kfn, init, xs, n = setup(E)
    k = key(E)
    tr = E.method(sc, "simulate", k, (init, xs))
    loop = the_loop(E, 0, "Scan.simulate")
    E.cover("scan.simulate.reached")
    # invariant: the loop counter equals the iteration number
    loop.prove_invariant(E, "C12.Scan.simulate.counter_is_iteration_number", lambda i, c: zint(c[1]) == i)
    # the real loop satisfies the documented recurrence over the kernel's contract
    def key_at(i):       # the key the real loop body hands to the kernel at iteration i (however it derives it)
        return callee_key(E, loop.unfold(i)[0], "gf_simulate", "Scan.simulate iteration")

    def rec(i):
        ck, cc, cv = loop.carry_at(i)
        tr_i, out_i, score_i = loop.unfold(i)
        tri = T.sim(kfn.t, key_at(i), E.I.to_u((cv, x_at(E, xs, i))))
        nk, nc, nv = loop.carry_at(i + 1)
        co, so = pair(E, T.tr_retval(tri))
        return E.And(E.eq(tr_i, UVal(tri, "Trace")), E.eq(nv, co), E.eq(out_i, so), E.eq(score_i, SReal(T.tr_score(tri))),
                     nc.t == i + 1)
    E.prove("C12.Scan.simulate.iteration_i_is_kernel_on_carry_i_and_xs_i_threading_the_carry", forall_i(E, n, rec))
    loop_key_discipline(E, loop, k, key_at, lambda c: c[0], n, "Scan.simulate", 0)
    E.prove("C12.Scan.simulate.initial_carry", E.And(E.eq(loop.carry_at(z3.IntVal(0))[2], init), E.eq(loop.carry_at(z3.IntVal(0))[0], k)))
    ret = E.method(tr, "get_retval")
    E.prove("C12.Scan.simulate.retval_is_final_carry_and_stacked_outputs", E.And(
        E.eq(ret[0], loop.carry_at(n)[2]), forall_i(E, n, lambda i: E.eq(ret[1].at(i), loop.unfold(i)[1]))))
    spec = E.I.make_sum(Stacked(n, lambda i: loop.unfold(i)[2]))
    E.prove("C12.Scan.simulate.score_is_sum_of_kernel_scores", E.eq(E.method(tr, "get_score"), spec))
    ch = E.method(tr, "get_choices")
    E.prove("C12.Scan.simulate.iteration_i_choices_under_index_i", forall_i(
        E, n, lambda i: E.eq(E.I.call(ch, [SInt(i, False)], {}), E.method(loop.unfold(i)[0], "get_choices")))
        if isinstance(ch, Stacked) else E.And(n == 0, E.I.to_u(ch) == T.EMPTY))
    E.prove("C12.Scan.simulate.args_and_length", E.And(E.eq(E.method(tr, "get_args"), (init, xs)),
                                                       E.eq(tr.fields["scan_length"], SInt(n, True))))
    # C01: assess on the trace's own choices and arguments
    n_before = n_scans(E)
    score, aret = wf(E, sc, tr)
    aloop = the_loop(E, n_before, "Scan.assess")
    aloop.prove_invariant(E, "C01.Scan.assess.lockstep_with_simulate",
                          lambda i, c: z3.And(zint(c[0]) == i, E.eq(c[1], loop.carry_at(i)[2])))
    E.prove("C01.Scan.simulate.wf.score", E.eq(score, E.method(tr, "get_score")))
    E.prove("C01.Scan.simulate.wf.final_carry", E.eq(aret[0], ret[0]))
    E.prove("C01.Scan.simulate.wf.stacked_outputs", forall_i(E, n, lambda i: E.eq(aret[1].at(i), ret[1].at(i))))
    E.refutable("scan.simulate", E.eq(E.method(tr, "get_score"), 0.0))


@task("scan.assess_generate", props=["C01", "C02", "C03", "C04", "C12"], functions=FUNCS)
def t_assess_generate(E):
    z3, T = E.z3, E.I.T
    sc, kfn, init, xs, n = setup(E)
    k, c = key(E), chm(E, "constraint")
    score, ret = E.method(sc, "assess", c, (init, xs))
    al = the_loop(E, 0, "Scan.assess")
    al.prove_invariant(E, "C12.Scan.assess.counter", lambda i, cy: zint(cy[0]) == i)
    sub = lambda i: T.chm_inner(c.t, E.I.to_u(SInt(i, False)))
    def rec(i):
        ci, cv = al.carry_at(i)
        a = E.I.to_u((cv, x_at(E, xs, i)))
        co, so = pair(E, T.assess_ret(kfn.t, sub(i), a))
        out_i, s_i = al.unfold(i)
        return E.And(E.eq(al.carry_at(i + 1)[1], co), E.eq(out_i, so), E.eq(s_i, SReal(T.assess_score(kfn.t, sub(i), a))))
    E.prove("C02.Scan.assess.iteration_i_assesses_submap_i_threading_the_carry", forall_i(E, n, rec))
    E.prove("C02.Scan.assess.score_is_sum", E.eq(score, E.I.make_sum(Stacked(n, lambda i: al.unfold(i)[1]))))
    E.prove("C12.Scan.assess.retval", E.And(E.eq(ret[0], al.carry_at(n)[1]), E.eq(al.carry_at(z3.IntVal(0))[1], init)))
    nb = n_scans(E)
    tr, w = E.method(sc, "generate", k, c, (init, xs))
    gl = the_loop(E, nb, "Scan.generate")
    gl.prove_invariant(E, "C12.Scan.generate.counter", lambda i, cy: zint(cy[1]) == i)
    def gkey_at(i):
        return callee_key(E, gl.unfold(i)[0], "gf_generate_tr", "Scan.generate iteration")

    def grec(i):
        ck, cc, cv = gl.carry_at(i)
        a = E.I.to_u((cv, x_at(E, xs, i)))
        tr_i, out_i, s_i, w_i = gl.unfold(i)
        gt = T.gen_tr(kfn.t, gkey_at(i), sub(i), a)
        co, so = pair(E, T.tr_retval(gt))
        return E.And(E.eq(tr_i, UVal(gt, "Trace")), E.eq(gl.carry_at(i + 1)[2], co), E.eq(out_i, so),
                     E.eq(w_i, SReal(T.cdens(gt, sub(i)))), E.eq(s_i, SReal(T.tr_score(gt))))
    # (C12 / C01: the per-iteration SCORE that is summed into the trace score is the kernel trace's score - not its weight)
    E.prove("C03.Scan.generate.iteration_i_gets_submap_i_and_its_weight", forall_i(E, n, grec), also=["C12", "C01"])
    loop_key_discipline(E, gl, k, gkey_at, lambda c: c[0], n, "Scan.generate", 0)
    # C01: the trace Scan.generate returns agrees with assess on its own choices and arguments (lock-step induction)
    gret = E.method(tr, "get_retval")
    nb2 = n_scans(E)
    gscore, garet = wf(E, sc, tr)
    gal = the_loop(E, nb2, "Scan.assess")
    gal.prove_invariant(E, "C01.Scan.assess.lockstep_with_generate",
                        lambda i, cy: z3.And(zint(cy[0]) == i, E.eq(cy[1], gl.carry_at(i)[2])))
    E.prove("C01.Scan.generate.wf.score", E.eq(gscore, E.method(tr, "get_score")))
    E.prove("C01.Scan.generate.wf.final_carry", E.eq(garet[0], gret[0]))
    E.prove("C01.Scan.generate.wf.stacked_outputs", forall_i(E, n, lambda i: E.eq(garet[1].at(i), gret[1].at(i))))
    E.prove("C03.Scan.generate.weight_is_sum_of_iteration_weights", E.eq(w, E.I.make_sum(Stacked(n, lambda i: gl.unfold(i)[3]))))
    E.prove("C12.Scan.generate.score_is_sum", E.eq(E.method(tr, "get_score"), E.I.make_sum(Stacked(n, lambda i: gl.unfold(i)[2]))))
    E.prove("C12.Scan.generate.retval", E.eq(E.method(tr, "get_retval")[0], gl.carry_at(n)[2]))
    E.refutable("scan.assess_generate", E.eq(w, 0.0))


@task("scan.project", props=["C10", "C12"], functions=FUNCS)
def t_project(E):
    z3, T = E.z3, E.I.T
    sc, kfn, init, xs, n = setup(E)
    k = key(E)
    batch = E.ctx.fn("old_elem", z3.IntSort(), U)

    def el(i):
        t = batch(i)
        T.trace_facts(t, g=kfn.t)
        return UVal(t, "Trace")
    inner = Stacked(n, el, tag="old_inner")
    old = E.new(M + ":ScanTrace", scan_gen_fn=sc, inner=inner, args=(init, xs), retval=(E.opaque("c_out"), E.opaque("ys")),
                score=E.real("old_score"), chm=E.opaque("old_chm", "ChoiceMap"), scan_length=SInt(n, True))
    s = E.opaque("sel", "Selection")
    p = E.method(sc, "project", k, old, s)
    spec = E.I.make_sum(Stacked(n, lambda i: SReal(T.proj(kfn.t, inner.at(i).t, s.t))))
    E.prove("C10.Scan.project.sum_of_iteration_projections_with_the_same_selection", E.eq(p, spec))
    E.refutable("scan.project", E.eq(p, 0.0))


def an_old_trace(E, sc, kfn, init, xs, n):
    """arbitrary ScanTrace as built by the real ScanTrace.build from an arbitrary batch of well-formed kernel traces"""
    T = E.I.T
    batch = E.ctx.fn("old_elem", E.z3.IntSort(), U)

    def el(i):
        t = batch(i)
        T.trace_facts(t, g=kfn.t)
        return UVal(t, "Trace")
    inner = Stacked(n, el, tag="old_inner")
    old = E.call(M + ":ScanTrace.build", sc, inner, (init, xs), (E.opaque("old_carry_out"), E.opaque("old_ys", "array")),
                 E.real("old_score"), SInt(n, True))
    return old, inner


def _edit_loop(E, kind):
    """Scan.edit with Update(c) / Regenerate(s) and arbitrary (NoChange / UnknownChange) argument tags:
       iteration i edits kernel trace i with its own sub-request, the carry of iteration i-1 and xs'[i]"""
    z3, T = E.z3, E.I.T
    sc, kfn, init, xs, n = setup(E)
    k = key(E)
    old, inner = an_old_trace(E, sc, kfn, init, xs, n)
    new_init, new_xs = E.opaque("new_init"), E.opaque("new_xs", "array")
    E.assume(E.ctx.fn("axis0_len", U, z3.IntSort())(new_xs.t) == n)          # argument changes keep shapes
    E.assume(T.d_primal(new_init.t) == new_init.t)
    ad = (diff(E, new_init, sym_tangent(E, "init_nochange")), diff(E, new_xs, sym_tangent(E, "xs_nochange")))
    if kind == "update":
        c = chm(E, "constraint")
        req = update(E, c)
        sub = lambda i: update(E, UVal(T.chm_inner(c.t, E.I.to_u(SInt(i, False))), "ChoiceMap"))
    else:
        s = E.opaque("sel", "Selection")
        req = E.new(REQ + ":Regenerate", selection=s)
        sub = lambda i: req                                                   # the SAME selection at every iteration
    new, w, rd, bwd = E.method(sc, "edit", k, old, req, ad)
    # (C07 / C05: whatever the selection / constraint and whatever the carry's tag, every iteration is re-visited - an argument
    # change of the scanned inputs re-scores the unselected / unconstrained choices: weight = new score - old score)
    loop = the_loop(E, 0, f"Scan.edit_{kind}", also=["C07"] if kind == "regenerate" else ["C05"])
    E.cover(f"scan.edit_{kind}.reached")
    P = f"Scan.edit_{kind}"
    loop.prove_invariant(E, f"C12.{P}.counter_is_iteration_number", lambda i, cy: zint(cy[1]) == i)

    def key_at(i):       # the key the real loop body hands to the kernel's edit at iteration i (however it derives it)
        return callee_key(E, loop.unfold(i)[0], "gf_edit_tr", f"{P} iteration")

    def parts(i):
        ck, cc, cv = loop.carry_at(i)
        ki = key_at(i)
        ad_i = E.I.to_u((cv, diff(E, x_at(E, new_xs, i), UnknownChange(E))))
        a = (kfn.t, ki, inner.at(i).t, E.I.to_u(sub(i)), ad_i)
        return ki, a

    def rec(i):
        ki, a = parts(i)
        et, rdi = T.edit_tr(*a), T.edit_rd(*a)
        new_i, out_i, s_i, w_i, bwd_i = loop.unfold(i)
        nk, nc, nv = loop.carry_at(i + 1)
        co, so = pair(E, T.d_primal(rdi))
        want_bwd = E.ctx.fn("update_bwd_constraint", U, U)(T.edit_bwd(*a)) if kind == "update" else T.edit_bwd(*a)
        return {"new_kernel_trace": E.eq(new_i, UVal(et, "Trace")),
                "score_and_weight": E.And(E.eq(s_i, SReal(T.tr_score(et))), E.eq(w_i, SReal(T.edit_w(*a)))),
                "backward_request": E.I.to_u(bwd_i) == want_bwd,
                "carry_is_threaded": T.d_primal(E.I.to_u(nv)) == co.t,
                "scanned_output": T.d_primal(E.I.to_u(out_i)) == so.t}
    # for Regenerate the same clauses decide C07: every iteration receives the SAME selection (sub(i) = the request), at the new
    # arguments, and the weight is the sum of the kernel weights
    own = ["C07"] if kind == "regenerate" else []
    wprop = "C07" if kind == "regenerate" else "C05"
    for part in ("new_kernel_trace", "score_and_weight", "backward_request", "carry_is_threaded", "scanned_output"):
        # (C34: the per-iteration scores the loop records are the stacked sub-traces' scores - the scan's score, and its
        # contribution to an enclosing trace's score, is their sum)
        E.prove(f"C12.{P}.iteration_i_edits_kernel_trace_i_with_its_subrequest_and_the_carry_of_i-1.{part}",
                forall_i(E, n, lambda i: rec(i)[part]), also=own + (["C34"] if part == "score_and_weight" else []))
    loop_key_discipline(E, loop, k, key_at, lambda c: c[0], n, P, 0)
    c0 = loop.carry_at(z3.IntVal(0))
    E.prove(f"C12.{P}.initial_carry_is_the_new_init", E.And(T.d_primal(E.I.to_u(c0[2])) == new_init.t, E.eq(c0[0], k)))
    E.prove(f"{wprop}.{P}.weight_is_sum_of_iteration_weights", E.eq(w, E.I.make_sum(Stacked(n, lambda i: loop.unfold(i)[3]))))
    E.prove(f"C12.{P}.score_is_sum_of_new_kernel_scores",
            E.eq(E.method(new, "get_score"), E.I.make_sum(Stacked(n, lambda i: loop.unfold(i)[2]))))
    # C05 weight law.  ScanTrace invariant (established by every constructor: obligations C12.Scan.*.score_is_sum*): the old
    # score is the sum of the old kernel scores.  Then  w = score' - score + sum_i slack_i  where slack_i is the kernel's own
    # deviation from its score change (zero by the kernel's contract unless its edit introduces fresh choices).
    old_sum = E.I.make_sum(Stacked(n, lambda i: SReal(T.tr_score(inner.at(i).t))))
    E.assume(E.eq(E.method(old, "get_score"), old_sum))
    slack = lambda i: (lambda a: SReal(T.edit_w(*a) - (T.tr_score(T.edit_tr(*a)) - T.tr_score(inner.at(i).t))))(parts(i)[1])
    slack_sum = E.I.make_sum(Stacked(n, slack))
    new_sum = E.I.make_sum(Stacked(n, lambda i: loop.unfold(i)[2]))
    w_sum = E.I.make_sum(Stacked(n, lambda i: loop.unfold(i)[3]))
    E.I.sum_linear([(1, w_sum), (-1, new_sum), (1, old_sum), (-1, slack_sum)])
    E.prove(f"{wprop}.{P}.weight_is_score_change_plus_the_kernel_slack_of_each_iteration", E.eq(
        w, SReal(zreal(E.method(new, "get_score")) - zreal(E.method(old, "get_score")) + slack_sum.t)))
    # (C12: the trace must record the arguments the loop was re-run on - a follow-up update with default argdiffs starts from them)
    E.prove(f"{wprop}.{P}.args_are_the_new_arguments", E.eq(E.method(new, "get_args"), (new_init, new_xs)), also=["C12"])
    ret = E.method(new, "get_retval")
    E.prove(f"C12.{P}.retval_is_final_carry_and_stacked_outputs", E.And(
        E.I.to_u(ret[0]) == T.d_primal(E.I.to_u(loop.carry_at(n)[2])),
        forall_i(E, n, lambda i: E.I.to_u(ret[1].at(i)) == T.d_primal(E.I.to_u(loop.unfold(i)[1])))))
    E.prove(f"C08.{P}.retdiff_carries_the_new_retval",
            E.eq(E.call(INC + ":Diff.tree_primal", rd), ret))
    return dict(sc=sc, kfn=kfn, n=n, new=new, w=w, rd=rd, bwd=bwd, loop=loop, ret=ret, new_init=new_init, new_xs=new_xs,
                parts=parts, old=old, inner=inner)


@task("scan.edit_update", props=["C01", "C04", "C05", "C06", "C08", "C12", "C34"], functions=FUNCS)
def t_edit_update(E):
    z3, T = E.z3, E.I.T
    r = _edit_loop(E, "update")
    bwd, n, loop = r["bwd"], r["n"], r["loop"]
    E.prove("C06.Scan.edit_update.bwd_is_update_of_stacked_iteration_constraints", E.And(
        is_obj(bwd, "Update"),
        forall_i(E, n, lambda i: E.eq(fld(E, bwd, "constraint").at(i), loop.unfold(i)[4]))))
    _edit_wf(E, r, "update")
    E.refutable("scan.edit_update", E.eq(r["w"], 0.0))


@task("scan.edit_regenerate", props=["C01", "C04", "C06", "C07", "C08", "C12", "C34"], functions=FUNCS)
def t_edit_regenerate(E):
    z3, T = E.z3, E.I.T
    r = _edit_loop(E, "regenerate")
    bwd, n, loop, sc, new = r["bwd"], r["n"], r["loop"], r["sc"], r["new"]
    E.prove("C06.Scan.edit_regenerate.bwd_stacks_the_iteration_backward_requests", E.And(
        is_obj(bwd, "VectorRequest"),
        forall_i(E, n, lambda i: E.eq(fld(E, bwd, "request").at(i), loop.unfold(i)[4]))))
    _edit_wf(E, r, "regenerate")
    # C06: the backward request must be one that Scan.edit can apply to the new trace
    k2 = key(E, "key2")
    ad = E.call(INC + ":Diff.no_change", (r["new_init"], r["new_xs"]))
    st, val = E.attempt(lambda: E.method(sc, "edit", k2, new, bwd, ad))
    E.prove("C06.Scan.edit_regenerate.bwd_request_is_accepted_by_Scan.edit", st == "ok")
    E.refutable("scan.edit_regenerate", E.eq(r["w"], 0.0))


def a_loop_trace(E, sc, kfn, init, xs, n):
    """an arbitrary ScanTrace satisfying the representation invariant established by Scan.simulate / generate / edit (proved:
    C12.Scan.*.iteration_i_..., retval_is_final_carry_and_stacked_outputs): kernel trace i was run on (carry_i, xs[i]),
    carry_{i+1} is its first return component, the stacked outputs are the second components, carry_0 = init"""
    z3, T = E.z3, E.I.T
    batch = E.ctx.fn("old_elem", z3.IntSort(), U)
    carry = E.ctx.fn("old_carry", z3.IntSort(), U)
    p0, p1 = E.ctx.fn("proj_2_0", U, U), E.ctx.fn("proj_2_1", U, U)

    def el(i):
        t = batch(i)
        inr = z3.And(i >= 0, i < n)
        # facts only for indices in range (an out-of-range slice is whatever JAX's clamped gather returns)
        E.assume(z3.Implies(inr, z3.And(
            T.tr_genfn(t) == kfn.t, T.tr_args(t) == E.I.to_u((UVal(carry(i)), x_at(E, xs, i))), T.wf(t),
            T.d_primal(T.tr_retval(t)) == T.tr_retval(t), T.d_primal(T.tr_args(t)) == T.tr_args(t),
            z3.Not(T.is_Mask(T.tr_retval(t))), z3.Not(T.is_None(T.tr_retval(t))),
            p0(T.tr_retval(t)) == carry(i + 1), T.d_primal(carry(i)) == carry(i), T.d_primal(carry(i + 1)) == carry(i + 1))))
        return UVal(t, "Trace")
    inner = Stacked(n, el, tag="old_inner")
    E.assume(z3.And(n >= 1, carry(0) == init.t))
    ys = Stacked(n, lambda i: UVal(p1(T.tr_retval(batch(i)))), tag="old_ys")
    score = E.I.make_sum(Stacked(n, lambda i: SReal(T.tr_score(batch(i)))))
    old = E.call(M + ":ScanTrace.build", sc, inner, (init, xs), (UVal(carry(n)), ys), score, SInt(n, True))
    return old, inner, carry, ys


@task("scan.edit_index", props=["C01", "C05", "C06", "C12", "C34"], functions=FUNCS)
def t_edit_index(E):
    """IndexRequest(idx, r) with unchanged arguments: slice idx is edited by r, slice idx+1 (when there is one) is re-visited
    with the changed carry, every other slice is kept; the trace is again a trace of the documented loop"""
    z3, T = E.z3, E.I.T
    sc, kfn, init, xs, n = setup(E)
    k = key(E)
    old, inner, carry, ys = a_loop_trace(E, sc, kfn, init, xs, n)
    idx = E.int("idx", conc=False)
    E.assume(z3.And(idx.t >= 0, idx.t < n))
    req = E.opaque("subrequest", "EditRequest")
    ireq = E.new(CONCEPTS + ":IndexRequest", idx=idx, request=req)
    ad = E.call(INC + ":Diff.no_change", (init, xs))
    st, val = E.attempt(lambda: E.method(sc, "edit", k, old, ireq, ad))
    if st != "ok":
        # the documented restriction of this edit: the next slice's return value must be (statically) unchanged
        E.prove("C12.Scan.edit_index.only_raises_its_documented_assertion", val.kind == "AssertionError")
        return
    new, w, rd, bwd = val
    E.cover("scan.edit_index.reached")
    last = idx.t + 1 >= n
    # slice idx is edited with its own stored arguments (= (carry_idx, xs[idx]) by the trace invariant), tagged NoChange
    a1 = (kfn.t, k.t, inner.at(idx.t).t, req.t,
          E.I.to_u(E.call(INC + ":Diff.no_change", E.method(inner.at(idx.t), "get_args"))))
    t1, rd1 = T.edit_tr(*a1), T.edit_rd(*a1)
    p0, p1 = E.ctx.fn("proj_2_0", U, U), E.ctx.fn("proj_2_1", U, U)
    empty_update = update(E, UVal(T.EMPTY, "ChoiceMap"))
    a2 = (kfn.t, k.t, inner.at(idx.t + 1).t, E.I.to_u(empty_update),
          E.I.to_u((UVal(p0(rd1), "retdiff"), E.call(INC + ":Diff.no_change", x_at(E, xs, idx.t + 1)))))
    t2 = T.edit_tr(*a2)
    ni = new.fields["inner"]
    E.prove("C12.Scan.edit_index.slice_idx_is_edited_by_the_subrequest", E.eq(ni.at(idx.t), UVal(t1, "Trace")))
    E.prove("C12.Scan.edit_index.next_slice_is_revisited_with_the_changed_carry",
            E.Implies(z3.Not(last), E.eq(ni.at(idx.t + 1), UVal(t2, "Trace"))))
    E.prove("C12.Scan.edit_index.frame_other_slices_unchanged", forall_i(
        E, n, lambda i: E.Implies(z3.And(i != idx.t, i != idx.t + 1), E.eq(ni.at(i), inner.at(i)))))
    # (C06: the backward IndexRequest re-edits the same two slices; its weight is the negation of this one exactly when the
    # forward weight is the sum of the two kernel edit weights, the second only when a next slice exists)
    E.prove("C05.Scan.edit_index.weight_is_slice_weight_plus_next_slice_weight",
            E.eq(w, SReal(T.edit_w(*a1) + z3.If(last, z3.RealVal(0), T.edit_w(*a2)))), also=["C06"])
    E.prove("C06.Scan.edit_index.bwd_is_index_request_of_slice_bwd", E.And(
        is_obj(bwd, "IndexRequest"), E.eq(fld(E, bwd, "idx"), idx), E.I.to_u(fld(E, bwd, "request")) == T.edit_bwd(*a1)))
    ret = E.method(new, "get_retval")
    E.prove("C12.Scan.edit_index.final_carry", E.I.to_u(ret[0]) == z3.If(last, T.d_primal(p0(rd1)), carry(n)))
    E.prove("C12.Scan.edit_index.stacked_outputs", forall_i(
        E, n, lambda i: E.I.to_u(ret[1].at(i)) == z3.If(i == idx.t, T.d_primal(p1(rd1)), E.I.to_u(ys.at(i)))))
    E.prove("C05.Scan.edit_index.args_unchanged", E.eq(E.method(new, "get_args"), (init, xs)))
    # C01: the new trace is a trace of the loop: assess re-runs it in lockstep along the new carry chain
    new_carry = lambda i: z3.If(i == idx.t + 1, T.d_primal(p0(rd1)), carry(i))
    # C12: the score is the sum of the (new) kernel scores
    # (C34: the stacked kernel sub-traces' scores are exactly the parent's score contributions)
    E.prove("C12.Scan.edit_index.score_is_sum_of_new_kernel_scores", E.eq(
        E.method(new, "get_score"), E.I.make_sum(Stacked(n, lambda i: SReal(T.tr_score(ni.at(i).t))))), also=["C34"])
    nb = n_scans(E)
    score, aret = wf(E, sc, new)
    al = the_loop(E, nb, "Scan.assess")
    al.prove_invariant(E, "C01.Scan.assess.lockstep_with_edit_index",
                       lambda i, c: z3.And(zint(c[0]) == i, E.I.to_u(c[1]) == new_carry(i)))
    E.prove("C01.Scan.edit_index.wf.score", E.eq(score, E.method(new, "get_score")))
    E.prove("C01.Scan.edit_index.wf.final_carry", E.eq(aret[0], ret[0]))
    E.prove("C01.Scan.edit_index.wf.stacked_outputs", forall_i(E, n, lambda i: E.eq(aret[1].at(i), ret[1].at(i))))
    E.refutable("scan.edit_index", E.eq(w, 0.0))


@task("scan.edit_update.roundtrip", props=["C06"], functions=FUNCS)
def t_edit_update_roundtrip(E):
    """C06 for Scan.edit with Update: the real edit executed a SECOND time, on its own output, with its own backward request
    and argdiffs leading back to the original (initial carry, xs).  By induction over the second loop, in lock-step with the
    old trace: the carry entering iteration i is the OLD carry_i, iteration i applies kernel i's backward request to the edited
    kernel trace i at its old arguments - which restores old kernel trace i's view with the negated weight (C06 of the kernel,
    theory/gfi.py c06_for_callee) - hence its carry-out is the old carry_{i+1}.  The old trace is an arbitrary trace of the loop
    (representation invariant established by simulate / generate / edit: a_loop_trace)."""
    z3, T = E.z3, E.I.T
    sc, kfn, init, xs, n = setup(E)
    k = key(E)
    old, inner, carry, ys = a_loop_trace(E, sc, kfn, init, xs, n)
    new_init, new_xs = E.opaque("new_init"), E.opaque("new_xs", "array")
    E.assume(E.ctx.fn("axis0_len", U, z3.IntSort())(new_xs.t) == n)
    E.assume(T.d_primal(new_init.t) == new_init.t)
    ad = (diff(E, new_init, UnknownChange(E)), diff(E, new_xs, UnknownChange(E)))
    c = chm(E, "constraint")
    new, w, rd, bwd = E.method(sc, "edit", k, old, update(E, c), ad)
    first = the_loop(E, 0, "Scan.edit_update")
    nb = n_scans(E)
    back_ad = (diff(E, init, UnknownChange(E)), diff(E, xs, UnknownChange(E)))
    st, val = E.attempt(lambda: E.method(sc, "edit", key(E, "key2"), new, bwd, back_ad))
    E.require("C06.Scan.edit_update.backward_request_can_be_applied", st == "ok")
    new2, w2 = val[0], val[1]
    second = the_loop(E, nb, "Scan.edit_update (backward)")
    second.prove_invariant(E, "C06.Scan.edit_update.backward_loop_runs_in_lockstep_with_the_old_trace",
                           lambda i, cy: z3.And(zint(cy[1]) == i, T.d_primal(E.I.to_u(cy[2])) == carry(i)))

    def restored(i):
        t2, out_i, s_i, w_i, b_i = second.unfold(i)
        t0 = inner.at(i).t
        w1 = first.unfold(i)[3]
        return z3.And(T.tr_choices(t2.t) == T.tr_choices(t0), T.tr_score(t2.t) == T.tr_score(t0), T.tr_retval(t2.t) == T.tr_retval(t0),
                      zreal(w_i) == -zreal(w1))
    E.prove("C06.Scan.edit_update.bwd_restores_every_kernel_trace_and_negates_its_weight", forall_i(E, n, restored))
    E.prove("C06.Scan.edit_update.bwd_restores_the_arguments", E.eq(E.method(new2, "get_args"), (init, xs)))
    ret2 = E.method(new2, "get_retval")
    E.prove("C06.Scan.edit_update.bwd_restores_the_final_carry", E.I.to_u(ret2[0]) == carry(n))
    w_sum = E.I.make_sum(Stacked(n, lambda i: first.unfold(i)[3]))
    w2_sum = E.I.make_sum(Stacked(n, lambda i: second.unfold(i)[3]))
    try:
        E.I.sum_linear([(1, w_sum), (1, w2_sum)])
    except Exception:
        pass
    E.prove("C06.Scan.edit_update.bwd_weight_is_the_negated_weight", E.And(E.eq(w, w_sum), E.eq(w2, w2_sum), E.eq(w2, E.I.unaryop("USub", w))))
    E.refutable("scan.edit_update.roundtrip", E.eq(w2, w))


@task("scan.edit_index.roundtrip", props=["C06"], functions=FUNCS)
def t_edit_index_roundtrip(E):
    """C06 for Scan.edit with IndexRequest: the real edit executed a SECOND time, on its own output, with its own backward
    request and the (unchanged) arguments.  Slice idx is re-edited by the kernel's backward request at its old arguments, which
    restores its view with the negated weight (C06 of the kernel, theory/gfi.py c06_for_callee); slice idx+1 is re-visited by an
    empty update with the carry changed BACK.  Scan.edit_index drops the backward request of its own re-visit of slice idx+1
    and re-visits it with another empty update, so the round trip needs - and this task ASSUMES of the kernel, recorded in the
    evidence - that the kernel's empty update discards nothing (its backward constraint is the empty choice map): true of
    distributions and of static functions over them, false of a kernel whose address structure depends on the carry."""
    z3, T = E.z3, E.I.T
    sc, kfn, init, xs, n = setup(E)
    k = key(E)
    old, inner, carry, ys = a_loop_trace(E, sc, kfn, init, xs, n)
    idx = E.int("idx", conc=False)
    E.assume(z3.And(idx.t >= 0, idx.t < n))
    req = E.opaque("subrequest", "EditRequest")
    ireq = E.new(CONCEPTS + ":IndexRequest", idx=idx, request=req)
    ad = E.call(INC + ":Diff.no_change", (init, xs))
    st, val = E.attempt(lambda: E.method(sc, "edit", k, old, ireq, ad))
    if st != "ok":
        return                      # (the documented assertion: obligation C12.Scan.edit_index.only_raises_its_documented_assertion)
    new, w, rd, bwd = val
    last = idx.t + 1 >= n
    p0 = E.ctx.fn("proj_2_0", U, U)
    a1 = (kfn.t, k.t, inner.at(idx.t).t, req.t,
          E.I.to_u(E.call(INC + ":Diff.no_change", E.method(inner.at(idx.t), "get_args"))))
    rd1 = T.edit_rd(*a1)
    empty_update = update(E, UVal(T.EMPTY, "ChoiceMap"))
    a2 = (kfn.t, k.t, inner.at(idx.t + 1).t, E.I.to_u(empty_update),
          E.I.to_u((UVal(p0(rd1), "retdiff"), E.call(INC + ":Diff.no_change", x_at(E, xs, idx.t + 1)))))
    # ASSUMED of the kernel (see the docstring): its empty update discards nothing
    ubc = E.ctx.fn("update_bwd_constraint", U, U)
    E.assume(ubc(T.edit_bwd(*a2)) == T.EMPTY)
    E.ctx.notes.append("ASSUMED of the scan kernel (C06.Scan.edit_index round trip): its EMPTY update discards nothing (backward constraint "
                       "= the empty choice map) - true of distributions and static functions over them, false of a kernel whose "
                       "address structure depends on the carry")
    k2 = key(E, "key2")
    st2, val2 = E.attempt(lambda: E.method(sc, "edit", k2, new, bwd, ad))
    if st2 != "ok":
        E.prove("C06.Scan.edit_index.applying_the_backward_request_only_raises_the_documented_assertion", val2.kind == "AssertionError")
        return
    new2, w2 = val2[0], val2[1]
    E.cover("scan.edit_index.roundtrip.reached")
    ni2 = new2.fields["inner"]

    def same_view(t, t0):
        return z3.And(T.tr_choices(t) == T.tr_choices(t0), T.tr_score(t) == T.tr_score(t0), T.tr_retval(t) == T.tr_retval(t0),
                      T.tr_args(t) == T.tr_args(t0))
    E.prove("C06.Scan.edit_index.bwd_restores_the_edited_slice", same_view(ni2.at(idx.t).t, inner.at(idx.t).t))
    E.prove("C06.Scan.edit_index.bwd_restores_the_revisited_next_slice",
            E.Implies(z3.Not(last), same_view(ni2.at(idx.t + 1).t, inner.at(idx.t + 1).t)))
    E.prove("C06.Scan.edit_index.bwd_leaves_every_other_slice_as_it_was", forall_i(
        E, n, lambda i: E.Implies(z3.And(i != idx.t, i != idx.t + 1), E.eq(ni2.at(i), inner.at(i)))))
    E.prove("C06.Scan.edit_index.bwd_weight_is_the_negated_weight", E.eq(w2, E.I.unaryop("USub", w)))
    E.prove("C06.Scan.edit_index.bwd_restores_the_arguments", E.eq(E.method(new2, "get_args"), (init, xs)))
    ret2 = E.method(new2, "get_retval")
    E.prove("C06.Scan.edit_index.bwd_restores_the_final_carry", E.I.to_u(ret2[0]) == carry(n))
    E.prove("C06.Scan.edit_index.bwd_restores_the_stacked_outputs", forall_i(E, n, lambda i: E.I.to_u(ret2[1].at(i)) == E.I.to_u(ys.at(i))))
    E.refutable("scan.edit_index.roundtrip", E.eq(w2, w))


def _edit_wf(E, r, kind):
    """C01: assess on the new trace's own choices and arguments re-runs the loop in lockstep"""
    z3 = E.z3
    loop, new, ret, n = r["loop"], r["new"], r["ret"], r["n"]
    nb = n_scans(E)
    score, aret = wf(E, r["sc"], new)
    al = the_loop(E, nb, "Scan.assess")
    T = E.I.T
    al.prove_invariant(E, f"C01.Scan.assess.lockstep_with_edit_{kind}",
                       lambda i, c: z3.And(zint(c[0]) == i, E.I.to_u(c[1]) == T.d_primal(E.I.to_u(loop.carry_at(i)[2]))))
    E.prove(f"C01.Scan.edit_{kind}.wf.score", E.eq(score, E.method(new, "get_score")))
    E.prove(f"C01.Scan.edit_{kind}.wf.final_carry", E.eq(aret[0], ret[0]))
    E.prove(f"C01.Scan.edit_{kind}.wf.stacked_outputs", forall_i(E, n, lambda i: E.eq(aret[1].at(i), ret[1].at(i))))
