"""Contracts for combinators/scan.py: Scan / ScanTrace and the derived combinators  (C12, C16; scan cases of C01-C03, C05, C10).

`lax.scan` is the fold (A4): the engine represents the carry as functions of the step index with the defining equations
available at every index; facts about ALL iterations are proved by induction (`prove_invariant`: base + step on the real
closure body with an arbitrary carry).  Length n is an unbounded symbolic integer.
The documented reference loop   carry_{i+1}, y_i = kernel(carry_i, xs[i])   is characterised by its recurrence; the contract
proves that the real loop's carry satisfies exactly that recurrence over the kernel's GFI contract."""
from pyvc.task import task
from pyvc.values import Obj, SBool, SInt, SReal, Stacked, TupleT, UVal
from .common import *
from .vmap import forall_i
from pyvc.interp_ops import zint

M = COMB + ".scan"
FUNCS = [M + ":Scan." + m for m in ("_static_scan_length", "simulate", "generate", "assess", "project", "edit_update", "edit")] + \
        [M + ":ScanTrace.build"]


def setup(E):
    kfn = G(E, "K")
    sc = E.new(M + ":Scan", kernel_gen_fn=kfn, length=None)
    init, xs = E.opaque("init_carry"), E.opaque("xs", "array")
    n = E.ctx.fn("axis0_len", U, E.z3.IntSort())(xs.t)
    E.assume(E.I.T.d_primal(init.t) == init.t)
    return sc, kfn, init, xs, n


def x_at(E, xs, i):
    return UVal(E.ctx.fn("axis0_index", U, E.z3.IntSort(), U)(xs.t, i), "array")


def fold(E, k, i):
    return E.ctx.fn("fold_in", U, E.z3.IntSort(), U)(k, i)


def pair(E, t):
    """(carry_out, scanned_out) of a kernel return value"""
    return (UVal(E.ctx.fn("proj_2_0", U, U)(t)), UVal(E.ctx.fn("proj_2_1", U, U)(t)))


def wf(E, sc, tr):
    score, ret = E.method(sc, "assess", E.method(tr, "get_choices"), E.method(tr, "get_args"))
    return score, ret


@task("scan.simulate", props=["C01", "C02", "C04", "C12"], functions=FUNCS)
def t_simulate(E):
    z3, T = E.z3, E.I.T
    sc, kfn, init, xs, n = setup(E)
    k = key(E)
    tr = E.method(sc, "simulate", k, (init, xs))
    loop = E.I.scans[0]
    E.cover("scan.simulate.reached")
    # invariant: the loop counter equals the iteration number
    loop.prove_invariant(E, "C12.Scan.simulate.counter_is_iteration_number", lambda i, c: zint(c[1]) == i)
    # the real loop satisfies the documented recurrence over the kernel's contract
    def rec(i):
        ck, cc, cv = loop.carry_at(i)
        ki = fold(E, ck.t, i)
        tri = T.sim(kfn.t, ki, E.I.to_u((cv, x_at(E, xs, i))))
        nk, nc, nv = loop.carry_at(i + 1)
        co, so = pair(E, T.tr_retval(tri))
        tr_i, out_i, score_i = loop.unfold(i)
        return E.And(E.eq(tr_i, UVal(tri, "Trace")), E.eq(nv, co), E.eq(out_i, so), E.eq(score_i, SReal(T.tr_score(tri))),
                     E.eq(nk, UVal(ki, "key")), nc.t == i + 1)
    E.prove("C12.Scan.simulate.iteration_i_is_kernel_on_carry_i_and_xs_i_threading_the_carry", forall_i(E, n, rec))
    E.prove("C04.Scan.simulate.iteration_key_is_fold_in_chain", forall_i(E, n, rec))
    E.prove("C12.Scan.simulate.initial_carry", E.And(E.eq(loop.carry_at(z3.IntVal(0))[2], init), E.eq(loop.carry_at(z3.IntVal(0))[0], k)))
    ret = E.method(tr, "get_retval")
    E.prove("C12.Scan.simulate.retval_is_final_carry_and_stacked_outputs", E.And(
        E.eq(ret[0], loop.carry_at(n)[2]), forall_i(E, n, lambda i: E.eq(ret[1].at(i), loop.unfold(i)[1]))))
    spec = E.I.make_sum(Stacked(n, lambda i: loop.unfold(i)[2]))
    E.prove("C12.Scan.simulate.score_is_sum_of_kernel_scores", E.eq(E.method(tr, "get_score"), spec))
    ch = E.method(tr, "get_choices")
    E.prove("C12.Scan.simulate.iteration_i_choices_under_index_i", forall_i(
        E, n, lambda i: E.eq(E.I.call(ch, [SInt(i, False)], {}), E.method(loop.unfold(i)[0], "get_choices")))
        if isinstance(ch, Stacked) else E.And(n == 0, E.I.to_u(ch) == T.EMPTY))
    E.prove("C12.Scan.simulate.args_and_length", E.And(E.eq(E.method(tr, "get_args"), (init, xs)),
                                                       E.eq(tr.fields["scan_length"], SInt(n, True))))
    # C01: assess on the trace's own choices and arguments
    n_before = len(E.I.scans)
    score, aret = wf(E, sc, tr)
    aloop = E.I.scans[n_before]
    aloop.prove_invariant(E, "C01.Scan.assess.lockstep_with_simulate",
                          lambda i, c: z3.And(zint(c[0]) == i, E.eq(c[1], loop.carry_at(i)[2])))
    E.prove("C01.Scan.simulate.wf.score", E.eq(score, E.method(tr, "get_score")))
    E.prove("C01.Scan.simulate.wf.final_carry", E.eq(aret[0], ret[0]))
    E.prove("C01.Scan.simulate.wf.stacked_outputs", forall_i(E, n, lambda i: E.eq(aret[1].at(i), ret[1].at(i))))
    E.refutable("scan.simulate", E.eq(E.method(tr, "get_score"), 0.0))


@task("scan.assess_generate", props=["C02", "C03", "C12"], functions=FUNCS)
def t_assess_generate(E):
    z3, T = E.z3, E.I.T
    sc, kfn, init, xs, n = setup(E)
    k, c = key(E), chm(E, "constraint")
    score, ret = E.method(sc, "assess", c, (init, xs))
    al = E.I.scans[0]
    al.prove_invariant(E, "C12.Scan.assess.counter", lambda i, cy: zint(cy[0]) == i)
    sub = lambda i: T.chm_inner(c.t, E.I.to_u(SInt(i, False)))
    def rec(i):
        ci, cv = al.carry_at(i)
        a = E.I.to_u((cv, x_at(E, xs, i)))
        co, so = pair(E, T.assess_ret(kfn.t, sub(i), a))
        out_i, s_i = al.unfold(i)
        return E.And(E.eq(al.carry_at(i + 1)[1], co), E.eq(out_i, so), E.eq(s_i, SReal(T.assess_score(kfn.t, sub(i), a))))
    E.prove("C02.Scan.assess.iteration_i_assesses_submap_i_threading_the_carry", forall_i(E, n, rec))
    E.prove("C02.Scan.assess.score_is_sum", E.eq(score, E.I.make_sum(Stacked(n, lambda i: al.unfold(i)[1]))))
    E.prove("C12.Scan.assess.retval", E.And(E.eq(ret[0], al.carry_at(n)[1]), E.eq(al.carry_at(z3.IntVal(0))[1], init)))
    nb = len(E.I.scans)
    tr, w = E.method(sc, "generate", k, c, (init, xs))
    gl = E.I.scans[nb]
    gl.prove_invariant(E, "C12.Scan.generate.counter", lambda i, cy: zint(cy[1]) == i)
    def grec(i):
        ck, cc, cv = gl.carry_at(i)
        ki = fold(E, ck.t, i)
        a = E.I.to_u((cv, x_at(E, xs, i)))
        gt = T.gen_tr(kfn.t, ki, sub(i), a)
        co, so = pair(E, T.tr_retval(gt))
        tr_i, out_i, s_i, w_i = gl.unfold(i)
        return E.And(E.eq(tr_i, UVal(gt, "Trace")), E.eq(gl.carry_at(i + 1)[2], co), E.eq(out_i, so),
                     E.eq(w_i, SReal(T.cdens(gt, sub(i)))), E.eq(s_i, SReal(T.tr_score(gt))),
                     E.eq(gl.carry_at(i + 1)[0], UVal(ki, "key")))
    E.prove("C03.Scan.generate.iteration_i_gets_submap_i_and_its_weight", forall_i(E, n, grec))
    E.prove("C03.Scan.generate.weight_is_sum_of_iteration_weights", E.eq(w, E.I.make_sum(Stacked(n, lambda i: gl.unfold(i)[3]))))
    E.prove("C12.Scan.generate.score_is_sum", E.eq(E.method(tr, "get_score"), E.I.make_sum(Stacked(n, lambda i: gl.unfold(i)[2]))))
    E.prove("C12.Scan.generate.retval", E.eq(E.method(tr, "get_retval")[0], gl.carry_at(n)[2]))
    E.refutable("scan.assess_generate", E.eq(w, 0.0))


@task("scan.project", props=["C10", "C12"], functions=FUNCS)
def t_project(E):
    z3, T = E.z3, E.I.T
    sc, kfn, init, xs, n = setup(E)
    k = key(E)
    batch = E.ctx.fn("old_elem", z3.IntSort(), U)

    def el(i):
        t = batch(i)
        T.trace_facts(t, g=kfn.t)
        return UVal(t, "Trace")
    inner = Stacked(n, el, tag="old_inner")
    old = E.new(M + ":ScanTrace", scan_gen_fn=sc, inner=inner, args=(init, xs), retval=(E.opaque("c_out"), E.opaque("ys")),
                score=E.real("old_score"), chm=E.opaque("old_chm", "ChoiceMap"), scan_length=SInt(n, True))
    s = E.opaque("sel", "Selection")
    p = E.method(sc, "project", k, old, s)
    spec = E.I.make_sum(Stacked(n, lambda i: SReal(T.proj(kfn.t, inner.at(i).t, s.t))))
    E.prove("C10.Scan.project.sum_of_iteration_projections_with_the_same_selection", E.eq(p, spec))
    E.refutable("scan.project", E.eq(p, 0.0))
