"""C37 DiscreteHMM.

The posterior / marginal computations are numerical recursions through TFP's HiddenMarkovModel and logsumexp: outside what the
VC generator can decide (no theory of log-sum-exp over symbolic matrices).  What is under contract deductively is the WIRING of
the distribution class; exactness itself is checked by a BOUNDED stand-in (labelled bounded, not counted as proved): the real
code against exhaustive enumeration of all latent sequences on a stated grid, including the exact output distribution of the
real sampler (replay/bounded_c37_hmm.py)."""
import json
import os
import subprocess

from pyvc.task import task
from pyvc.values import NativeFn, UVal, U
from .common import *

HM = "genjax._src.generative_functions.distributions.custom.discrete_hmm"
FUNCS = [HM + ":_DiscreteHMMLatentSequencePosterior." + m for m in ("random_weighted", "estimate_logpdf", "data_logpdf")] + \
        [HM + ":" + f for f in ("latent_sequence_posterior", "log_data_marginal", "latent_marginals",
                                "forward_filtering_backward_sampling")]


@task("discrete_hmm.wiring", props=["C37"], functions=FUNCS[:3])
def t_wiring(E):
    """random_weighted returns (estimate_logpdf(v), v) for the v drawn by forward_filtering_backward_sampling on the SAME
    configuration and observations, with a key derived from (not equal to) the caller's; estimate_logpdf is the first component
    of latent_sequence_posterior(config, v, observations); data_logpdf is log_data_marginal(config, observations)"""
    I = E.I
    cfg, obs, v = E.opaque("config"), E.opaque("observations", "array"), E.opaque("latent", "array")
    post = E.ctx.fn("latent_sequence_posterior", U, U, U, U)
    ffbs = E.ctx.fn("ffbs_sample", U, U, U, U)
    marg = E.ctx.fn("log_data_marginal", U, U, U)
    seen = {}
    I.overrides[HM + ":latent_sequence_posterior"] = lambda I_, c, lat, o: (UVal(post(I_.to_u(c), I_.to_u(lat), I_.to_u(o))), E.opaque("aux"))

    def fake_ffbs(I_, key, c, o):
        seen["key"] = key
        return (E.opaque("key_out", "key"), (UVal(ffbs(I_.to_u(key), I_.to_u(c), I_.to_u(o)), "array"), E.opaque("filters")))
    I.overrides[HM + ":forward_filtering_backward_sampling"] = fake_ffbs
    I.overrides[HM + ":log_data_marginal"] = lambda I_, c, o: UVal(marg(I_.to_u(c), I_.to_u(o)))
    d = E.new(HM + ":_DiscreteHMMLatentSequencePosterior")
    k = key(E)
    E.prove("C37.DiscreteHMM.estimate_logpdf.is_the_latent_sequence_posterior",
            I.to_u(E.method(d, "estimate_logpdf", k, v, cfg, obs)) == post(cfg.t, v.t, obs.t))
    E.prove("C37.DiscreteHMM.data_logpdf.is_the_log_data_marginal", I.to_u(E.method(d, "data_logpdf", cfg, obs)) == marg(cfg.t, obs.t))
    w, drawn = E.method(d, "random_weighted", k, cfg, obs)
    E.require("C37.DiscreteHMM.random_weighted.draws_with_the_sampler", "key" in seen)
    E.prove("C37.DiscreteHMM.random_weighted.returns_the_drawn_sequence_and_its_posterior_density", E.And(
        I.to_u(drawn) == ffbs(I.to_u(seen["key"]), cfg.t, obs.t), I.to_u(w) == post(cfg.t, I.to_u(drawn), obs.t)))
    E.prove("C37.DiscreteHMM.random_weighted.sampler_key_is_derived_from_the_callers_key", I.to_u(seen["key"]) != k.t)
    E.refutable("discrete_hmm.wiring", I.to_u(w) == post(cfg.t, v.t, obs.t))


@task("bounded.discrete_hmm.exhaustive_enumeration", props=["C37"], functions=FUNCS, kind="bounded")
def t_bounded(_E):
    root = os.path.dirname(os.path.dirname(os.path.abspath(__file__)))
    repo = os.environ.get("VERIF_REPO", "/repo")
    tier = os.environ.get("VERIF_TIER", "quick")
    try:
        p = subprocess.run(["/venv/bin/python", os.path.join(root, "replay", "bounded_c37_hmm.py"), tier], capture_output=True, text=True,
                           timeout=7000, cwd="/var/tmp", env=dict(os.environ, PYTHONPATH=os.path.join(repo, "src"), JAX_PLATFORMS="cpu"))
        line = [l for l in p.stdout.splitlines() if l.startswith("{")]
        if not line:
            return {"error": "no result: " + (p.stderr or p.stdout)[-1500:], "violations": [], "evaluations": 0}
        return json.loads(line[-1])
    except Exception as e:      # noqa
        return {"error": f"{type(e).__name__}: {e}", "violations": [], "evaluations": 0}
