"""Contracts for genjax._src.core.pytree  (C21, second sentence: Pytree dataclasses, Const and Closure; static fields are
kept out of the traced leaves).

What the repository's own code decides - and what these contracts therefore pin down - is
  * which dataclass fields are declared static (`Pytree.static()` -> dataclasses.field(metadata={"pytree_node": False})),
  * how Const / tree_const / tree_const_unwrap / Const.unwrap wrap and unwrap leaves,
  * how Closure / Pytree.partial store and apply their dynamic arguments.
flatten / unflatten themselves are penzai + JAX (assumption A5: a pytree dataclass flattens to exactly its non-static fields, in
declaration order, the static fields travelling in the treedef); under A5 the round trip of an instance is the identity iff the
field partition is right, which is what is proved here, per class, from the class table extracted on every run."""
import ast

from pyvc.task import task
from pyvc.values import Obj, SBool, SInt, SReal, TupleT, UVal, NativeFn, PyRaise
from .common import *

PT = "genjax._src.core.pytree"
FUNCS = [PT + ":Pytree.static", PT + ":Pytree.field", PT + ":Pytree.dataclass", PT + ":Pytree.const",
         PT + ":Pytree.tree_const", PT + ":Pytree.tree_const_unwrap", PT + ":Pytree.partial",
         PT + ":Const.__call__", PT + ":Const.unwrap", PT + ":Closure.__call__", PT + ":Const", PT + ":Closure"]


def is_const(o):
    return isinstance(o, Obj) and o.cls.name == "Const"


@task("pytree.field_markers", props=["C21"], functions=FUNCS)
def t_markers(E):
    """Pytree.static(**kw) -> dataclasses.field(metadata={"pytree_node": False}, **kw)  (the marker penzai reads),
    Pytree.field(**kw) -> dataclasses.field(**kw) (a pytree node), Pytree.dataclass -> pz.pytree_dataclass(cls, ...)."""
    calls = []

    def fake_field(I, **kw):
        calls.append(("field", kw))
        return UVal(E.ctx.const("field_obj", U), "leaf")

    def fake_pz(I, *a, **kw):
        calls.append(("pz", a, kw))
        return a[0] if a else None
    E.I.ext["dataclasses.field"] = fake_field
    E.I.ext["penzai.pz.pytree_dataclass"] = fake_pz
    d = E.real("some_default")
    E.call(PT + ":Pytree.static", default=d)
    E.require("C21.Pytree.static.calls_dataclasses_field_once", len(calls) == 1 and calls[0][0] == "field")
    kw = calls[0][1]
    E.prove("C21.Pytree.static.marks_the_field_as_not_a_pytree_node",
            isinstance(kw.get("metadata"), dict) and kw["metadata"].get("pytree_node") is False)
    E.prove("C21.Pytree.static.passes_the_other_options_through", set(kw) == {"metadata", "default"} and kw["default"] is d)
    del calls[:]
    E.call(PT + ":Pytree.field", default=d)
    E.require("C21.Pytree.field.calls_dataclasses_field_once", len(calls) == 1 and calls[0][0] == "field")
    md = calls[0][1].get("metadata")
    E.prove("C21.Pytree.field.is_a_pytree_node", md is None or (isinstance(md, dict) and md.get("pytree_node") is not False))
    del calls[:]
    cls = E.cls(PT + ":Const")
    r = E.call(PT + ":Pytree.dataclass", cls, match_args=True)
    E.require("C21.Pytree.dataclass.delegates_to_penzai", len(calls) == 1 and calls[0][0] == "pz")
    E.prove("C21.Pytree.dataclass.registers_the_given_class", len(calls[0][1]) == 1 and calls[0][1][0] is cls and r is cls)
    E.prove("C21.Pytree.dataclass.passes_options_through", calls[0][2].get("match_args") is True
            and calls[0][2].get("overwrite_parent_init") is True)
    E.refutable("pytree.field_markers", E.eq(d, 0.0))


@task("pytree.const", props=["C21"], functions=FUNCS)
def t_const(E):
    """Pytree.const / tree_const / tree_const_unwrap / Const.unwrap / Const.__call__ on a mixed tree:
    (a Const, a Python int, a dict with a traced real and a flag of symbolic concreteness)."""
    z3 = E.z3
    c0 = E.new(PT + ":Const", val=5)
    x = E.real("x")
    is_tr = E.ctx.fn("is_tracer_r", z3.RealSort(), z3.BoolSort())(x.t)
    f = E.flag("f")
    tree = (c0, 3, {"a": x, "b": f})
    # ---- const
    E.prove("C21.Pytree.const.keeps_an_existing_Const", E.call(PT + ":Pytree.const", c0) is c0)
    k = E.call(PT + ":Pytree.const", 7)
    E.prove("C21.Pytree.const.wraps_a_concrete_value", is_const(k) and k.fields["val"] == 7)
    st, r = E.attempt(lambda: E.call(PT + ":Pytree.const", f))
    E.prove("C21.Pytree.const.rejects_traced_values_and_wraps_concrete_ones", E.And(
        E.Implies(E.Not(f.conc), st == "raise"),
        E.Implies(f.conc, st == "ok" and is_const(r) and r.fields["val"] is f)))
    # ---- tree_const
    t1 = E.call(PT + ":Pytree.tree_const", tree)
    E.require("C21.Pytree.tree_const.preserves_structure",
              isinstance(t1, tuple) and len(t1) == 3 and isinstance(t1[2], dict) and set(t1[2]) == {"a", "b"})
    E.prove("C21.Pytree.tree_const.does_not_rewrap_a_Const", t1[0] is c0)
    E.prove("C21.Pytree.tree_const.wraps_concrete_leaves", is_const(t1[1]) and t1[1].fields["val"] == 3)
    E.prove("C21.Pytree.tree_const.leaves_traced_values_dynamic", E.And(
        E.Implies(is_tr, t1[2]["a"] is x), E.Implies(E.Not(is_tr), is_const(t1[2]["a"]) and t1[2]["a"].fields.get("val") is x),
        E.Implies(E.Not(f.conc), t1[2]["b"] is f), E.Implies(f.conc, is_const(t1[2]["b"]) and t1[2]["b"].fields.get("val") is f)))
    t2 = E.call(PT + ":Pytree.tree_const", t1)
    E.prove("C21.Pytree.tree_const.is_idempotent", E.eq(t2, t1) if not isinstance(t2, bool) else t2)
    # ---- tree_const_unwrap o tree_const = id (on a tree without Const leaves; Const leaves are unwrapped)
    u = E.call(PT + ":Pytree.tree_const_unwrap", t1)
    E.require("C21.Pytree.tree_const_unwrap.preserves_structure",
              isinstance(u, tuple) and len(u) == 3 and isinstance(u[2], dict) and set(u[2]) == {"a", "b"})
    E.prove("C21.Pytree.tree_const_unwrap.inverts_tree_const", u[1] == 3 and u[2]["a"] is x and u[2]["b"] is f)
    E.prove("C21.Pytree.tree_const_unwrap.unwraps_Const_leaves", u[0] == 5)
    # ---- Const.unwrap as method and as static helper, Const.__call__
    E.prove("C21.Const.unwrap.returns_the_wrapped_value", E.method(c0, "unwrap") == 5)
    E.prove("C21.Const.unwrap.is_the_identity_on_other_values", E.call(PT + ":Const.unwrap", x) is x)
    g = NativeFn("g", lambda I, *a: ("called", a))
    cg = E.new(PT + ":Const", val=g)
    E.prove("C21.Const.call.applies_the_wrapped_callable", E.method(cg, "__call__", 1, x) == ("called", (1, x)))
    E.refutable("pytree.const", is_const(t1[2]["a"]))


@task("pytree.closure", props=["C21"], functions=FUNCS)
def t_closure(E):
    """Pytree.partial(*dyn)(fn) = Closure(dyn, fn);  Closure(dyn, fn)(*a, **kw) = fn(*dyn, *a, **kw)."""
    x, y = E.real("x"), E.real("y")
    seen = []
    g = NativeFn("g", lambda I, *a, **kw: (seen.append((a, kw)), SReal(E.ctx.const("g_result", E.z3.RealSort())))[1])
    dec = E.call(PT + ":Pytree.partial", x, y)
    c = E.I.call(dec, [g], {})
    E.require("C21.Pytree.partial.builds_a_Closure", isinstance(c, Obj) and c.cls.name == "Closure")
    E.prove("C21.Pytree.partial.dynamic_arguments_in_order", tuple(c.fields["dyn_args"]) == (x, y))
    E.prove("C21.Pytree.partial.keeps_the_function", c.fields["fn"] is g)
    z = E.real("z")
    r = E.method(c, "__call__", z, scale=2.0)
    E.require("C21.Closure.call.calls_the_function_once", len(seen) == 1)
    E.prove("C21.Closure.call.dynamic_arguments_first_then_call_arguments", seen[0][0] == (x, y, z))
    E.prove("C21.Closure.call.passes_keyword_arguments", seen[0][1] == {"scale": 2.0})
    E.prove("C21.Closure.call.returns_the_result", isinstance(r, SReal) and str(r.t) == "g_result")
    E.refutable("pytree.closure", E.eq(x, y))


# ---------------------------------------------------------------------------------------------------------------------
# field partition of the repository's Pytree dataclasses (class table re-extracted from the sources on every run)
MUST_BE_STATIC = {
    # the two utility classes the property names
    (PT, "Const", "val"): "a Const's payload is a Python constant embedded in the treedef",
    (PT, "Closure", "fn"): "the callable of a Closure is source code, not data",
}
MUST_BE_DYNAMIC = {
    (PT, "Closure", "dyn_args"): "the closed-over values of a Closure are the traced data",
}
# modules whose Pytree dataclasses are swept; a field annotated with a Python-level type (a callable, a Python int length,
# an axis spec, an address component, a str tag) holds a value JAX cannot trace and must be declared static
SWEEP = [
    "genjax._src.core.pytree", "genjax._src.core.generative.choice_map", "genjax._src.core.generative.functional_types",
    "genjax._src.core.generative.generative_function", "genjax._src.core.generative.concepts",
    "genjax._src.core.generative.requests", "genjax._src.core.compiler.interpreters.incremental",
    "genjax._src.generative_functions.static", "genjax._src.generative_functions.combinators.vmap",
    "genjax._src.generative_functions.combinators.scan", "genjax._src.generative_functions.combinators.switch",
    "genjax._src.generative_functions.combinators.mask", "genjax._src.generative_functions.combinators.dimap",
    "genjax._src.generative_functions.distributions.distribution", "genjax._src.inference.smc",
    "genjax._src.inference.requests.rejuvenate", "genjax._src.inference.requests.hmc", "genjax._src.adev.core",
    "genjax._src.adev.primitives",
]
PYTHON_LEVEL_HEADS = ("Callable", "int", "str", "InAxes", "ExtendedStaticAddressComponent", "StaticAddressComponent")


def python_level(annotation):
    """the annotation names only Python-level types (possibly `| None`): Callable[...], int, str, InAxes, address component"""
    alts = []

    def split(n):
        if isinstance(n, ast.BinOp) and isinstance(n.op, ast.BitOr):
            split(n.left)
            split(n.right)
        else:
            alts.append(n)
    split(annotation)
    heads = []
    for a in alts:
        if isinstance(a, ast.Constant) and a.value is None:
            continue
        if isinstance(a, ast.Subscript):
            a = a.value
        heads.append(ast.unparse(a))
    return bool(heads) and all(h in PYTHON_LEVEL_HEADS for h in heads)


@task("pytree.field_partition", props=["C21"], functions=FUNCS)
def t_partition(E):
    repo = E.I.repo
    n_static = n_dyn = 0
    for (mod, cls, fld_), why in list(MUST_BE_STATIC.items()) + list(MUST_BE_DYNAMIC.items()):
        try:
            ci = repo.resolve_qual(f"{mod}:{cls}")[1]
            fi = [f for f in ci.own_fields if f.name == fld_]
        except KeyError:
            fi = []
        E.require(f"C21.{cls}.{fld_}.field_exists", len(fi) == 1)
        want = (mod, cls, fld_) in MUST_BE_STATIC
        E.prove(f"C21.{cls}.{fld_}.is_{'static_kept_out_of_the_leaves' if want else 'a_dynamic_leaf'}", fi[0].static == want,
                why=why)
    for mod in SWEEP:
        try:
            m = repo.get_module(mod)
        except KeyError:
            continue
        for name, b in sorted(m.bindings.items()):
            if b[0] != "class" or not b[1].is_dataclass or b[1].std_dataclass:
                continue
            ci = b[1]
            for fi in ci.own_fields:
                if fi.annotation is not None and python_level(fi.annotation):
                    n_static += 1
                    E.prove(f"C21.{ci.name}.{fi.name}.python_level_field_is_static", fi.static,
                            annotation=ast.unparse(fi.annotation))
                else:
                    n_dyn += 1
            # A5 round trip of an instance with opaque field values: unflatten(flatten(o)) rebuilds o from its dynamic children
            # and the static fields carried by the treedef
            fs = [f for f, _ in E.I.all_fields(ci)]
            if fs:
                o = Obj(ci, {f.name: E.opaque(f"{ci.name}_{f.name}", "leaf") for f in fs})
                from theory.externals import tree_children
                ch = tree_children(E.I, o)
                back = ch[1](list(ch[0]))
                E.prove(f"C21.{ci.name}.flatten_unflatten_roundtrip",
                        set(back.fields) == set(o.fields) and all(back.fields[k] is o.fields[k] for k in o.fields))
                E.prove(f"C21.{ci.name}.leaves_are_exactly_the_dynamic_fields",
                        [id(c) for c in ch[0]] == [id(o.fields[f.name]) for f in fs if not f.static])
    E.require("C21.field_partition.sweep_found_python_level_fields", n_static >= 10 and n_dyn >= 40)
    E.refutable("pytree.field_partition", E.eq(E.real("p"), E.real("q")))
