"""Contracts for genjax._src.core.compiler.interpreters.incremental: Diff helpers and default_propagation_rule
(C21, C09 loop-free part, C08 mechanism).

The Diff helpers are tree_maps of leaf functions; pytree induction is assumption A5.  Each clause is proved for a family of
tree shapes (tuples / dicts / Pytree dataclasses / already-Diff leaves / opaque leaves whose Diff-ness is symbolic) with
symbolic leaves and symbolic tangents."""
from pyvc.task import task
from pyvc.values import Obj, SBool, SInt, SReal, UVal
from .common import *

D = INC + ":Diff."
FUNCS = [D + m for m in ("tree_diff", "no_change", "unknown_change", "tree_primal", "tree_tangent", "is_diff",
                         "static_check_tree_diff", "static_check_no_change")]


def shapes(E):
    """name -> (primal tree, tangent tree of the same shape, list of tangent leaves)"""
    out = {}
    def tg(n):
        return sym_tangent(E, n)
    a, b, c = E.real("a"), E.real("b"), E.flag("c", conc=False)
    t1, t2, t3 = tg("t1"), tg("t2"), tg("t3")
    out["leaf"] = (a, t1, [t1])
    out["tuple"] = ((a, b), (t1, t2), [t1, t2])
    out["nested"] = ((a, {"x": b, "y": (c,)}), (t1, {"x": t2, "y": (t3,)}), [t1, t2, t3])
    m = E.new(FT + ":Mask", value=a, flag=c)
    mt = E.new(FT + ":Mask", value=t1, flag=t2)
    out["pytree_dataclass"] = ((m, b), (mt, t3), [t1, t2, t3])
    out["empty"] = ((), (), [])
    return out


def is_nc(x):
    return x.cls.name == "_NoChange"


def tangent_leaves(v):
    """the change tags at the leaves of a tangent tree (tuples / lists / dicts / Pytree dataclasses)"""
    if isinstance(v, Obj) and v.cls.name in ("_NoChange", "_UnknownChange"):
        return [v]
    if isinstance(v, (tuple, list)):
        return [x for e in v for x in tangent_leaves(e)]
    if isinstance(v, dict):
        return [x for e in v.values() for x in tangent_leaves(e)]
    if isinstance(v, Obj):
        return [x for e in v.fields.values() for x in tangent_leaves(e)]
    return []


def every_leaf_tagged(E, r, want_nc, n_leaves):
    """EVERY leaf of the diff tree r carries the wanted tag (not merely 'some leaf does' / 'not all leaves are NoChange')"""
    ls = tangent_leaves(E.call(D + "tree_tangent", r))
    return len(ls) == n_leaves and all(is_nc(x) == want_nc for x in ls)


@task("diff.roundtrip", props=["C21", "C08"], functions=FUNCS)
def t_roundtrip(E):
    for name, (p, t, leaves) in shapes(E).items():
        d = E.call(D + "tree_diff", p, t)
        E.prove(f"C21.Diff.tree_diff.primal_roundtrip[{name}]", E.eq(E.call(D + "tree_primal", d), p))
        E.prove(f"C21.Diff.tree_diff.tangent_roundtrip[{name}]", E.eq(E.call(D + "tree_tangent", d), t))
        allnc = all(is_nc(x) for x in leaves)
        E.prove(f"C21.Diff.static_check_no_change.iff_all_tangents_nochange[{name}]",
                E.z(E.call(D + "static_check_no_change", d)) == allnc)
        E.prove(f"C21.Diff.static_check_tree_diff.true_on_diff_tree[{name}]",
                E.z(E.call(D + "static_check_tree_diff", d)) == True)  # noqa: E712
        if leaves:
            E.prove(f"C21.Diff.static_check_tree_diff.false_on_plain_tree[{name}]",
                    E.z(E.call(D + "static_check_tree_diff", p)) == False)  # noqa: E712
        # non-Diff leaves count as NoChange
        E.prove(f"C21.Diff.static_check_no_change.plain_tree[{name}]", E.z(E.call(D + "static_check_no_change", p)) == True)  # noqa: E712
        for fn, want_nc in (("no_change", True), ("unknown_change", False)):
            # applied to a plain tree and to a tree that already contains Diff leaves
            for src, sname in ((p, "plain"), (d, "diffed")):
                r = E.call(D + fn, src)
                E.prove(f"C21.Diff.{fn}.primal_preserved[{name},{sname}]", E.eq(E.call(D + "tree_primal", r), p))
                E.prove(f"C21.Diff.{fn}.is_diff_tree[{name},{sname}]", E.z(E.call(D + "static_check_tree_diff", r)) == True)  # noqa: E712
                E.prove(f"C21.Diff.{fn}.tags[{name},{sname}]",
                        E.z(E.call(D + "static_check_no_change", r)) == (want_nc or not leaves))
                E.prove(f"C21.Diff.{fn}.every_leaf_gets_the_tag[{name},{sname}]", every_leaf_tagged(E, r, want_nc, len(leaves)))
    E.refutable("diff.roundtrip", E.eq(E.call(D + "tree_primal", ((E.real("q"), E.real("r")),))[0][0], E.real("r")))


@task("diff.mixed_trees", props=["C21", "C08"], functions=FUNCS)
def t_mixed(E):
    """trees in which only SOME leaves are Diff values (raw leaves count as unchanged constants)"""
    a, b, c = E.real("a"), E.real("b"), E.flag("c", conc=False)
    t1, t2 = sym_tangent(E, "t1"), sym_tangent(E, "t2")
    da, db = diff(E, a, t1), diff(E, b, t2)
    trees = {
        "tuple_raw_first": ((a, db), (a, b), [t2]),
        "tuple_raw_last": ((da, b), (a, b), [t1]),
        "nested": ((da, {"x": b, "y": (c, db)}), (a, {"x": b, "y": (c, b)}), [t1, t2]),
        "pytree_dataclass": ((E.new(FT + ":Mask", value=da, flag=c), b), (E.new(FT + ":Mask", value=a, flag=c), b), [t1]),
    }
    for name, (mixed, plain, tangents) in trees.items():
        allnc = all(is_nc(x) for x in tangents)
        E.prove(f"C21.Diff.static_check_no_change.iff_all_tangents_nochange[mixed,{name}]",
                E.z(E.call(D + "static_check_no_change", mixed)) == allnc)
        E.prove(f"C21.Diff.static_check_tree_diff.false_when_some_leaf_is_raw[mixed,{name}]",
                E.z(E.call(D + "static_check_tree_diff", mixed)) == False)  # noqa: E712
        E.prove(f"C21.Diff.tree_primal.strips_only_the_diff_leaves[mixed,{name}]", E.eq(E.call(D + "tree_primal", mixed), plain))
        tg = E.call(D + "tree_tangent", mixed)
        E.prove(f"C21.Diff.tree_tangent.raw_leaves_are_nochange[mixed,{name}]",
                E.z(E.call(D + "static_check_no_change", E.call(D + "tree_diff", plain, tg))) == allnc)
        for fn, want_nc in (("no_change", True), ("unknown_change", False)):
            r = E.call(D + fn, mixed)
            E.prove(f"C21.Diff.{fn}.primal_preserved[mixed,{name}]", E.eq(E.call(D + "tree_primal", r), plain))
            E.prove(f"C21.Diff.{fn}.is_diff_tree[mixed,{name}]", E.z(E.call(D + "static_check_tree_diff", r)) == True)  # noqa: E712
            E.prove(f"C21.Diff.{fn}.tags[mixed,{name}]", E.z(E.call(D + "static_check_no_change", r)) == want_nc)
            n_leaves = {"tuple_raw_first": 2, "tuple_raw_last": 2, "nested": 4, "pytree_dataclass": 3}[name]
            E.prove(f"C21.Diff.{fn}.every_leaf_gets_the_tag[mixed,{name}]", every_leaf_tagged(E, r, want_nc, n_leaves))
    E.refutable("diff.mixed_trees", E.eq(E.call(D + "tree_primal", (a, db))[1], a))


@task("diff.opaque_leaf", props=["C21"], functions=FUNCS)
def t_opaque_leaf(E):
    """a leaf about which nothing is known: it may or may not be a Diff"""
    x = E.opaque("x", "leaf")
    p = E.call(D + "tree_primal", (x,))
    isd = E.ctx.fn("is_Diff", U, E.z3.BoolSort())(x.t)
    E.prove("C21.Diff.tree_primal.leaf_cases", E.Implies(E.Not(isd), E.eq(p[0], x)))
    tg = E.call(D + "tree_tangent", (x,))
    E.prove("C21.Diff.tree_tangent.non_diff_leaf_is_nochange",
            E.Implies(E.Not(isd), isinstance(tg[0], Obj) and tg[0].cls.name == "_NoChange"))


@task("incremental.default_rule", props=["C09", "C08"], functions=[INC + ":default_propagation_rule"] + FUNCS)
def t_default_rule(E):
    T = E.I.T
    prim = E.opaque("prim", "Primitive")
    a, b = E.real("a"), E.real("b")
    ta, tb = sym_tangent(E, "ta"), sym_tangent(E, "tb")
    plain = E.flag("b_is_plain", conc=True)      # inputs that are not Diff at all count as NoChange
    arg_b = b if E.I.truth(plain) else diff(E, b, tb)
    out = E.call(INC + ":default_propagation_rule", prim, diff(E, a, ta), arg_b, axis=0)
    bind = E.ctx.fn("prim_bind", U, U, U, U)
    want = bind(prim.t, E.I.to_u((a, b)), E.I.to_u({"axis": 0}))
    E.prove("C09.default_propagation_rule.primal_is_bind_of_primals", E.eq(E.call(D + "tree_primal", out), UVal(want)))
    all_in_nc = is_nc(ta) and (arg_b is b or is_nc(tb))
    noleaves = E.ctx.fn("has_no_leaves", U, E.z3.BoolSort())(want)
    # (precision - all inputs NoChange gives NoChange - is deliberately NOT an obligation: C09 demands soundness of the tags
    #  only, and a more conservative rule still satisfies it)
    E.prove("C09.default_propagation_rule.nochange_only_if_all_inputs_nochange",
            E.Implies(T.all_nochange(out), E.Or(all_in_nc, noleaves)))
    E.prove("C09.default_propagation_rule.output_is_diff_tree", T.is_diff_tree(out))
    E.refutable("incremental.default_rule", E.Or(T.all_nochange(out), noleaves))
