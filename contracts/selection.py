"""Contracts for the Selection classes of genjax._src.core.generative.choice_map  (C18; lemmas reused by C07/C10/C25).

Specification = a denotation of selection values as sets of static addresses:

    Den(AllSel, p) = True        Den(NoneSel, p) = False      Den(LeafSel, p) = (p == ())
    Den(StaticSel(s, a), p) = p != () and (a is ... or head(p) == a) and Den(s, tail(p))
    Den(OrSel(x, y), p) = Den(x, p) or Den(y, p)     AndSel: and      ComplementSel(s): not Den(s, p)
    Den(opaque selection x, p) = mem(x, p)   with   mem(x, ()) = x.check(),  mem(x.get_subselection(c), q) = mem(x, c::q)

for an ARBITRARY address p (an opaque list: unbounded length).  Obligations, all on the real code:
  * class level: every class's check() / get_subselection(c) agree with the denotation (one unfolding step, any tail);
  * operator level: the value returned by the real a | b, a & b, ~a (the simplifying `build` constructors) denotes the Boolean
    combination of the operands' denotations, for arbitrary (opaque, any class) operands and an arbitrary address.
The operator obligations are SEMANTIC (about the set denoted by the returned value), so an alternative correct simplifier still
verifies; unbounded in selection depth and address length (stronger than the bounded-exhaustive wording of C18)."""
from pyvc.task import task
from pyvc.values import Obj, SBool, UVal
from .common import *

C = CM + ":"
FUNCS = [C + f"{k}.{m}" for k in ("AllSel", "NoneSel", "LeafSel", "StaticSel", "AndSel", "OrSel", "ComplementSel")
         for m in ("check", "get_subselection")] + \
        [C + "StaticSel.build", C + "AndSel.build", C + "OrSel.build", C + "ComplementSel.build",
         C + "Selection.__call__", C + "Selection.__getitem__", C + "Selection.__contains__", C + "Selection.__or__",
         C + "Selection.__and__", C + "Selection.__invert__", C + "Selection.extend", C + "_SelectionBuilder.__getitem__"]


class Addr:
    """abstract static address (list of components) with nil / cons"""

    def __init__(self, E):
        z3 = E.z3
        c = E.ctx
        self.E = E
        self.is_nil = c.fn("addr_is_nil", U, z3.BoolSort())
        self.head, self.tail, self.cons = c.fn("addr_head", U, U), c.fn("addr_tail", U, U), c.fn("addr_cons", U, U, U)
        self.mem = c.fn("sel_member", U, U, z3.BoolSort())
        self.nil = z3.Const("addr_nil", U)
        E.assume(self.is_nil(self.nil))

    def mk_cons(self, comp, q):
        return self.mk_cons_u(self.E.I.to_u(comp), q)

    def mk_cons_u(self, cu, q):
        t = self.cons(cu, q)
        self.E.assume(self.E.z3.And(self.E.z3.Not(self.is_nil(t)), self.head(t) == cu, self.tail(t) == q))
        return t


def den(E, A, v, p):
    """denotation of selection value v at address term p (z3 Bool)"""
    z3, I = E.z3, E.I
    if isinstance(v, UVal):
        view = E.ctx.views.get(v.t.get_id())
        if view is not None and view is not v:
            d = den(E, A, view, p)
            E.assume(A.mem(v.t, p) == d)      # x IS that object: its membership function is the one of its class
            return d
        # definition of membership for an opaque selection, normalised towards the sub-selection (which the real code
        # may have narrowed to a class):   mem(x, c::q) = mem(x.get_subselection(c), q)        mem(x, ()) = x.check()
        if z3.is_app(p) and p.decl().name() == "addr_cons":
            return den(E, A, UVal(I.T.sel_sub(v.t, p.arg(0)), "Selection"), p.arg(1))
        if z3.eq(p, A.nil):
            return I.T.sel_check(v.t)
        return A.mem(v.t, p)
    d = _den_obj(E, A, v, p)
    try:        # the object as an opaque value has the membership function of its class (used when the real code compares
        E.assume(A.mem(I.to_u(v), p) == d)       # a structured selection with an opaque one by ==)
    except Exception:
        pass
    return d


def _den_obj(E, A, v, p):
    z3, I = E.z3, E.I
    n = v.cls.name
    if n == "AllSel":
        return z3.BoolVal(True)
    if n == "NoneSel":
        return z3.BoolVal(False)
    if n == "LeafSel":
        return A.is_nil(p)
    if n == "StaticSel":
        a = v.fields["addr"]
        # `...` matches every component
        wild = z3.BoolVal(True) if a is Ellipsis else (z3.BoolVal(False) if isinstance(a, (str, int)) else I.to_u(a) == I.to_u(Ellipsis))
        if z3.is_app(p) and p.decl().name() == "addr_cons":
            return z3.And(z3.Or(wild, p.arg(0) == I.to_u(a)), den(E, A, v.fields["s"], p.arg(1)))
        return z3.And(z3.Not(A.is_nil(p)), z3.Or(wild, A.head(p) == I.to_u(a)), den(E, A, v.fields["s"], A.tail(p)))
    if n == "OrSel":
        return z3.Or(den(E, A, v.fields["s1"], p), den(E, A, v.fields["s2"], p))
    if n == "AndSel":
        return z3.And(den(E, A, v.fields["s1"], p), den(E, A, v.fields["s2"], p))
    if n == "ComplementSel":
        return z3.Not(den(E, A, v.fields["s"], p))
    raise Exception(f"no denotation for {n}")


def sel(E, A, name):
    """arbitrary selection: opaque, any class"""
    return E.opaque(name, "Selection")


def opaque_facts(E, A, x, c, q):
    """definition of membership for an opaque selection x (instances at component c / tail q):
       mem(x, ()) = x.check()      mem(x.get_subselection(c), q) = mem(x, c::q)"""
    T = E.I.T
    E.assume(A.mem(x.t, A.nil) == T.sel_check(x.t))
    E.assume(A.mem(T.sel_sub(x.t, E.I.to_u(c)), q) == A.mem(x.t, A.mk_cons(c, q)))


def comp(E, name):
    """an address component (StaticAddressComponent: never the `...` wildcard)"""
    c = E.opaque(name, "str")
    E.assume(E.I.to_u(c) != E.I.to_u(Ellipsis))
    return c


def check(E, s):
    return E.z(E.method(s, "check"))


def _binop(kind, cls, zop):
    @task(f"selection.{kind}", props=["C18", "C10", "C07", "C33"], functions=FUNCS)
    def t(E):
        z3 = E.z3
        A = Addr(E)
        a, b = sel(E, A, "a"), sel(E, A, "b")
        p = E.ctx.const("p", U)                                  # an arbitrary address
        E.assume(A.mem(a.t, A.nil) == E.I.T.sel_check(a.t))
        E.assume(A.mem(b.t, A.nil) == E.I.T.sel_check(b.t))
        r = E.method(a, f"__{kind}__", b)                        # real Selection.__or__/__and__ -> XSel.build
        E.cover(f"selection.{kind}.reached")
        op = getattr(z3, zop)
        E.prove(f"C18.{cls}.build.membership_is_the_boolean_combination", den(E, A, r, p) == op(den(E, A, a, p), den(E, A, b, p)))
        E.prove(f"C18.{cls}.build.check_is_the_boolean_combination", check(E, r) == op(check(E, a), check(E, b)))
        # class level: the plain node's own methods agree with its denotation
        plain = E.new(C + cls, s1=a, s2=b)
        c, q = comp(E, "c"), E.ctx.const("q", U)
        opaque_facts(E, A, a, c, q)
        opaque_facts(E, A, b, c, q)
        E.prove(f"C18.{cls}.check_agrees_with_denotation", check(E, plain) == den(E, A, plain, A.nil))
        sub = E.method(plain, "get_subselection", c)
        # (C10: project walks a trace site by site with S.get_subselection(address); the projected weight is the density of the
        # SELECTED choices only if the sub-selection of a combined selection denotes the combination of the sub-selections)
        E.prove(f"C18.{cls}.get_subselection_agrees_with_denotation", den(E, A, sub, q) == den(E, A, plain, A.mk_cons(c, q)),
                also=["C10", "C07", "C33"])
        E.refutable(f"selection.{kind}", den(E, A, r, p) == den(E, A, a, p))
    return t


_binop("or", "OrSel", "Or")
_binop("and", "AndSel", "And")


@task("selection.invert", props=["C18", "C10", "C07", "C33"], functions=FUNCS)
def t_invert(E):
    z3 = E.z3
    E.I.abstract_methods.pop(("Selection", "__invert__"))     # run the REAL Selection.__invert__ / ComplementSel.build
    A = Addr(E)
    a = sel(E, A, "a")
    p = E.ctx.const("p", U)
    E.assume(A.mem(a.t, A.nil) == E.I.T.sel_check(a.t))
    r = E.method(a, "__invert__")
    E.prove("C18.ComplementSel.build.membership_is_the_negation", den(E, A, r, p) == z3.Not(den(E, A, a, p)))
    E.prove("C18.ComplementSel.build.check_is_the_negation", check(E, r) == z3.Not(check(E, a)))
    plain = E.new(C + "ComplementSel", s=a)
    c, q = comp(E, "c"), E.ctx.const("q", U)
    opaque_facts(E, A, a, c, q)
    E.prove("C18.ComplementSel.check_agrees_with_denotation", check(E, plain) == den(E, A, plain, A.nil))
    sub = E.method(plain, "get_subselection", c)
    # (C07 / C10 / C33: regenerate, project and invalid_subset's filter(~shape) walk a trace or a choice map site by site with
    # get_subselection; a complement that reaches into a callee must denote the complement there too)
    E.prove("C18.ComplementSel.get_subselection_agrees_with_denotation", den(E, A, sub, q) == den(E, A, plain, A.mk_cons(c, q)),
            also=["C10", "C07", "C33"])
    E.refutable("selection.invert", den(E, A, r, p) == den(E, A, a, p))


@task("selection.atoms", props=["C18"], functions=FUNCS)
def t_atoms(E):
    z3 = E.z3
    A = Addr(E)
    c, d = comp(E, "c"), comp(E, "d")
    q = E.ctx.const("q", U)
    al, no, lf = E.call(C + "Selection.all"), E.call(C + "Selection.none"), E.call(C + "Selection.leaf")
    for nm, s in (("AllSel", al), ("NoneSel", no), ("LeafSel", lf)):
        E.prove(f"C18.{nm}.check_agrees_with_denotation", check(E, s) == den(E, A, s, A.nil))
        E.prove(f"C18.{nm}.get_subselection_agrees_with_denotation",
                den(E, A, E.method(s, "get_subselection", c), q) == den(E, A, s, A.mk_cons(c, q)))
    s = sel(E, A, "s")
    opaque_facts(E, A, s, c, q)
    for nm, addr in (("component", d), ("wildcard", Ellipsis)):
        st = E.call(C + "StaticSel.build", s, addr)
        plain = E.new(C + "StaticSel", s=s, addr=addr)
        p = E.ctx.const("p", U)
        E.prove(f"C18.StaticSel.build.{nm}.simplification_preserves_membership", den(E, A, st, p) == den(E, A, plain, p))
        E.prove(f"C18.StaticSel.{nm}.check_agrees_with_denotation", check(E, plain) == den(E, A, plain, A.nil))
        E.prove(f"C18.StaticSel.{nm}.get_subselection_agrees_with_denotation",
                den(E, A, E.method(plain, "get_subselection", c), q) == den(E, A, plain, A.mk_cons(c, q)))
    E.refutable("selection.atoms", den(E, A, E.call(C + "StaticSel.build", s, d), A.mk_cons(c, q)) == A.mem(s.t, q))


@task("selection.call", props=["C18"], functions=FUNCS)
def t_call(E):
    """S(a)[b] == S[a, b];  S((a, b)) == S(a)(b);  `in` is `[]`"""
    s = E.opaque("s", "Selection")
    a, b, c = comp(E, "a"), comp(E, "b"), comp(E, "c")
    sab = E.method(s, "__call__", (a, b))
    E.prove("C18.Selection.call.tuple_is_iterated_subselection",
            E.eq(sab, E.method(E.method(s, "get_subselection", a), "get_subselection", b)))
    E.prove("C18.Selection.call.single_component", E.eq(E.method(s, "__call__", a), E.method(s, "get_subselection", a)))
    lhs = E.method(E.method(s, "__call__", a), "__getitem__", b)
    rhs = E.method(s, "__getitem__", (a, b))
    E.prove("C18.Selection.subselection_commutes_with_membership", E.z(lhs) == E.z(rhs))
    lhs3 = E.method(E.method(s, "__call__", (a, b)), "__getitem__", c)
    E.prove("C18.Selection.subselection_commutes_with_membership3", E.z(lhs3) == E.z(E.method(s, "__getitem__", (a, b, c))))
    E.prove("C18.Selection.contains_is_getitem", E.z(E.I.contains(s, (a, b))) == E.z(rhs))
    E.prove("C18.Selection.empty_address_is_check", E.z(E.method(s, "__getitem__", ())) == check(E, s))
    E.refutable("selection.call", E.z(lhs) == check(E, s))


@task("selection.builder", props=["C18"], functions=FUNCS)
def t_builder(E):
    """Selection.at[a, b]  selects exactly the addresses that start with (a, b);  `...` matches any component"""
    z3 = E.z3
    a, b, x, y = comp(E, "a"), comp(E, "b"), comp(E, "x"), comp(E, "y")
    at = E.I.getattr(E.cls(C + "Selection"), "at")
    s = E.method(at, "__getitem__", (a, b))
    hit = E.And(E.I.py_eq(x, a), E.I.py_eq(y, b))
    E.prove("C18.SelectionBuilder.at_prefix_not_selected", E.And(z3.Not(check(E, s)), z3.Not(E.z(E.method(s, "__getitem__", (x,))))))
    E.prove("C18.SelectionBuilder.at_exact", E.z(E.method(s, "__getitem__", (x, y))) == hit)
    E.prove("C18.SelectionBuilder.at_extension_selected", E.z(E.method(s, "__getitem__", (x, y, comp(E, "z")))) == hit)
    w = E.method(at, "__getitem__", (a, Ellipsis))
    E.prove("C18.SelectionBuilder.wildcard", E.z(E.method(w, "__getitem__", (x, y))) == E.z(E.I.py_eq(x, a)))
    e = E.method(at, "__getitem__", ())
    E.prove("C18.SelectionBuilder.empty_is_leaf", E.And(check(E, e), z3.Not(E.z(E.method(e, "__getitem__", (x,))))))
    s0 = E.opaque("s0", "Selection")
    ext = E.method(s0, "extend", a, b)
    back = E.method(ext, "__call__", (a, b))
    E.prove("C18.Selection.extend_then_descend", E.Or(E.eq(back, s0), E.And(z3.Not(check(E, back)), z3.Not(check(E, s0)))))
    E.refutable("selection.builder", E.z(E.method(s, "__getitem__", (x, y))))
