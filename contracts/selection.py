"""Contracts for the Selection classes of genjax._src.core.generative.choice_map  (C18; lemmas reused by C07/C10/C25).

Membership is defined by the real code:  mem(S, ()) = S.check(),  mem(S, a::p) = mem(S.get_subselection(a), p).
For every operator the contract proves, for ARBITRARY operand selections (opaque values of class Selection whose concrete
class is symbolic) and an arbitrary address component c:
   base:  check(op(a, b))            ==  boolean-op(check(a), check(b))
   step:  get_subselection(op(a,b), c) is *structurally* op(get_subselection(a,c), get_subselection(b,c))
By induction on the address length (the induction hypothesis is the same statement one level down, for arbitrary
operands, so structural equality of the step suffices) membership of every address is the Boolean combination.  This is
unbounded in selection depth and address length (stronger than the bounded-exhaustive wording of C18)."""
from pyvc.task import task
from pyvc.values import Obj, SBool, UVal
from .common import *

C = CM + ":"
FUNCS = [C + f"{k}.{m}" for k in ("AllSel", "NoneSel", "LeafSel", "StaticSel", "AndSel", "OrSel", "ComplementSel")
         for m in ("check", "get_subselection")] + \
        [C + "StaticSel.build", C + "AndSel.build", C + "OrSel.build", C + "ComplementSel.build",
         C + "Selection.__call__", C + "Selection.__getitem__", C + "Selection.__contains__", C + "Selection.__or__",
         C + "Selection.__and__", C + "Selection.__invert__", C + "Selection.extend", C + "_SelectionBuilder.__getitem__"]


def sel(E, name):
    s = E.opaque(name, "Selection")
    E.I.T.sel_nf(s.t)          # operands are in normal form (preserved by every constructor: *.normal_form clauses)
    return s


def comp(E, name):
    return E.opaque(name, "str")


def check(E, s):
    return E.z(E.method(s, "check"))


def _binop(kind, cls, zop):
    @task(f"selection.{kind}", props=["C18"], functions=FUNCS)
    def t(E):
        z3 = E.z3
        a, b, c = sel(E, "a"), sel(E, "b"), comp(E, "c")
        r = E.method(a, f"__{kind}__", b)                      # real Selection.__or__/__and__  ->  XSel.build
        E.cover(f"selection.{kind}.reached")
        # evaluate operand memberships AFTER the call, so that class knowledge gained by `match` is shared
        E.prove(f"C18.{cls}.build.base_check", check(E, r) == getattr(z3, zop)(check(E, a), check(E, b)))
        sub_r = E.method(r, "get_subselection", c)
        rhs = E.method(E.method(a, "get_subselection", c), f"__{kind}__", E.method(b, "get_subselection", c))
        E.prove(f"C18.{cls}.build.step_subselection_commutes", E.eq(sub_r, rhs))
        # the simplifying constructor selects the same addresses as the plain node
        plain = E.new(C + cls, s1=a, s2=b)
        E.prove(f"C18.{cls}.build.simplification_preserves_check", check(E, r) == check(E, plain))
        E.prove(f"C18.{cls}.build.simplification_preserves_subselection",
                E.eq(sub_r, E.method(plain, "get_subselection", c)))
        E.refutable(f"selection.{kind}", check(E, r) == check(E, a))
    return t


_binop("or", "OrSel", "Or")
_binop("and", "AndSel", "And")


@task("selection.invert", props=["C18"], functions=FUNCS)
def t_invert(E):
    z3 = E.z3
    E.I.abstract_methods.pop(("Selection", "__invert__"))     # run the REAL Selection.__invert__ / ComplementSel.build
    a, c = sel(E, "a"), comp(E, "c")
    r = E.method(a, "__invert__")
    E.prove("C18.ComplementSel.build.base_check", check(E, r) == z3.Not(check(E, a)))
    sub_r = E.method(r, "get_subselection", c)
    rhs = E.method(E.method(a, "get_subselection", c), "__invert__")
    E.prove("C18.ComplementSel.build.step_subselection_commutes", E.eq(sub_r, rhs))
    plain = E.new(C + "ComplementSel", s=a)
    E.prove("C18.ComplementSel.build.simplification_preserves_check", check(E, r) == check(E, plain))
    E.prove("C18.ComplementSel.build.simplification_preserves_subselection",
            E.eq(sub_r, E.method(plain, "get_subselection", c)))
    E.prove("C18.ComplementSel.build.normal_form", not (isinstance(r, Obj) and r.cls.name == "ComplementSel" and (
        (isinstance(r.fields["s"], Obj) and r.fields["s"].cls.name in ("AllSel", "NoneSel", "ComplementSel")) or
        (isinstance(r.fields["s"], UVal) and r.fields["s"].t.get_id() in E.ctx.views
         and E.ctx.views[r.fields["s"].t.get_id()].cls.name in ("AllSel", "NoneSel", "ComplementSel")))))
    E.prove("C18.ComplementSel.double_complement", E.Implies(
        isinstance(r, Obj) and r.cls.name == "ComplementSel", E.eq(E.method(r, "__invert__"), a)))
    E.refutable("selection.invert", check(E, r) == check(E, a))


@task("selection.atoms", props=["C18"], functions=FUNCS)
def t_atoms(E):
    z3 = E.z3
    c, d = comp(E, "c"), comp(E, "d")
    S = E.cls(C + "Selection")
    al, no, lf = E.call(C + "Selection.all"), E.call(C + "Selection.none"), E.call(C + "Selection.leaf")
    E.prove("C18.AllSel.selects_everything", E.And(check(E, al), E.eq(E.method(al, "get_subselection", c), al)))
    E.prove("C18.NoneSel.selects_nothing", E.And(z3.Not(check(E, no)), E.eq(E.method(no, "get_subselection", c), no)))
    E.prove("C18.LeafSel.selects_only_the_empty_address",
            E.And(check(E, lf), E.eq(E.method(lf, "get_subselection", c), no)))
    s = sel(E, "s")
    st = E.call(C + "StaticSel.build", s, d)
    plain = E.new(C + "StaticSel", s=s, addr=d)
    same = E.z(E.I.py_eq(c, d))
    E.prove("C18.StaticSel.check_false", E.And(z3.Not(check(E, st)), z3.Not(check(E, plain))))
    sub = E.method(st, "get_subselection", c)
    E.prove("C18.StaticSel.subselection_matches_component",
            E.And(E.Implies(same, E.eq(sub, s)), E.Implies(z3.Not(same), z3.Not(check(E, sub)))))
    E.prove("C18.StaticSel.build.simplification_preserves_subselection_check",
            check(E, sub) == check(E, E.method(plain, "get_subselection", c)))
    wild = E.call(C + "StaticSel.build", s, Ellipsis)
    E.prove("C18.StaticSel.wildcard_matches_any_component",
            E.Or(E.eq(E.method(wild, "get_subselection", c), s), E.And(z3.Not(check(E, wild)), E.eq(wild, s))))
    E.refutable("selection.atoms", E.eq(sub, s))


@task("selection.call", props=["C18"], functions=FUNCS)
def t_call(E):
    """S(a)[b] == S[a, b];  S((a, b)) == S(a)(b);  `in` is `[]`"""
    s = sel(E, "s")
    a, b, c = comp(E, "a"), comp(E, "b"), comp(E, "c")
    sab = E.method(s, "__call__", (a, b))
    E.prove("C18.Selection.call.tuple_is_iterated_subselection",
            E.eq(sab, E.method(E.method(s, "get_subselection", a), "get_subselection", b)))
    E.prove("C18.Selection.call.single_component", E.eq(E.method(s, "__call__", a), E.method(s, "get_subselection", a)))
    lhs = E.method(E.method(s, "__call__", a), "__getitem__", b)
    rhs = E.method(s, "__getitem__", (a, b))
    E.prove("C18.Selection.subselection_commutes_with_membership", E.z(lhs) == E.z(rhs))
    lhs3 = E.method(E.method(s, "__call__", (a, b)), "__getitem__", c)
    E.prove("C18.Selection.subselection_commutes_with_membership3", E.z(lhs3) == E.z(E.method(s, "__getitem__", (a, b, c))))
    E.prove("C18.Selection.contains_is_getitem", E.z(E.I.contains(s, (a, b))) == E.z(rhs))
    E.prove("C18.Selection.empty_address_is_check", E.z(E.method(s, "__getitem__", ())) == check(E, s))
    E.refutable("selection.call", E.z(lhs) == check(E, s))


@task("selection.builder", props=["C18"], functions=FUNCS)
def t_builder(E):
    """Selection.at[a, b]  selects exactly the addresses that start with (a, b);  `...` matches any component"""
    z3 = E.z3
    a, b, x, y = comp(E, "a"), comp(E, "b"), comp(E, "x"), comp(E, "y")
    at = E.I.getattr(E.cls(C + "Selection"), "at")
    s = E.method(at, "__getitem__", (a, b))
    hit = E.And(E.I.py_eq(x, a), E.I.py_eq(y, b))
    E.prove("C18.SelectionBuilder.at_prefix_not_selected", E.And(z3.Not(check(E, s)), z3.Not(E.z(E.method(s, "__getitem__", (x,))))))
    E.prove("C18.SelectionBuilder.at_exact", E.z(E.method(s, "__getitem__", (x, y))) == hit)
    E.prove("C18.SelectionBuilder.at_extension_selected", E.z(E.method(s, "__getitem__", (x, y, comp(E, "z")))) == hit)
    w = E.method(at, "__getitem__", (a, Ellipsis))
    E.prove("C18.SelectionBuilder.wildcard", E.z(E.method(w, "__getitem__", (x, y))) == E.z(E.I.py_eq(x, a)))
    e = E.method(at, "__getitem__", ())
    E.prove("C18.SelectionBuilder.empty_is_leaf", E.And(check(E, e), z3.Not(E.z(E.method(e, "__getitem__", (x,))))))
    s0 = sel(E, "s0")
    ext = E.method(s0, "extend", a, b)
    back = E.method(ext, "__call__", (a, b))
    E.prove("C18.Selection.extend_then_descend", E.Or(E.eq(back, s0), E.And(z3.Not(check(E, back)), z3.Not(check(E, s0)))))
    E.refutable("selection.builder", E.z(E.method(s, "__getitem__", (x, y))))
