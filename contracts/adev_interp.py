"""Contract for ADInterpreter.eval_jaxpr_adev / forward_mode (adev/core.py) - the CPS forward-mode interpreter  (C29, C04).

Schematic programs (a jaxpr with a concrete SHAPE - a sequence of `s` = sample_p site, `p` = ordinary unary primitive and
`c` = a cond_p equation whose two branch jaxprs each consist of one sample site - and symbolic atoms, primitives, sampled
values) are run through the REAL eval_jaxpr_adev, the REAL closures _sample_dual_kont / _cond_dual_kont /
eval_jaxpr_iterate_dual, the REAL forward_mode (for the branches of a cond), the REAL Dual helpers and Environment.  The
sampling primitives are abstract and honour the contract proved of the concrete ones in contracts/adev.py (REINFORCE,
TailCallADEVPrimitive, ...): jvp_estimate(key, dual_tree, konts) draws its value with one key derived from `key` and tail-calls
the dual continuation with ANOTHER key derived from `key`, independent of the first, and with the dual of the drawn value.
Staging a branch (stage(jaxpr_as_fun(branch))(*primals)) is external: it gives the branch's jaxpr back (A11).

Obligations per shape (bounded in shape - the evidence says so - unbounded in atoms, values, keys):
  * straight-line shapes: each site's primitive is invoked with the key its predecessor handed to the continuation (the first
    one with the caller's key);
  * every shape: the sampling keys of the sites executed along one path (for a cond: per branch) are pairwise independent and
    derive from the caller's key (theory/keys.py) - stated on the keys the primitives are observed to receive, not on how the
    interpreter derives them;
  * the arguments a site sees are the values computed upstream (data flow through the environment, ordinary primitives applied
    to primals, their tangents by the registered JVP rule; after a cond: the value of the executed branch);
  * the interpreter returns the dual of the output variable (for a cond: of the executed branch's path)."""
import z3

from pyvc.task import task
from pyvc.values import NativeFn, Obj, SBool, SInt, SReal, SymMap, UVal, U
from .common import *
from .interpreters import Rec, Vars, ENV

A = "genjax._src.adev.core"
EV = A + ":ADInterpreter.eval_jaxpr_adev"
FUNCS = [EV, A + ":ADInterpreter.flat_unzip", A + ":Dual.tree_pure", A + ":Dual.dual_tree", A + ":Dual.tree_primal",
         A + ":Dual.tree_tangent", A + ":Dual.tree_leaves", ENV + ":Environment.read", ENV + ":Environment.write",
         ENV + ":Environment.copy"]
FUNCS_COND = FUNCS + [A + ":ADInterpreter.forward_mode", A + ":Dual.tree_unzip"]


def dual(E, p, t):
    return E.new(A + ":Dual", primal=p, tangent=t)


class Machine:
    """the abstract surroundings of the interpreter: sample_p, abstract sampling primitives (recording their calls), ordinary
    primitives with their bind / JVP rule, the variables of a schematic jaxpr"""

    def __init__(self, E):
        self.E, I = E, E.I
        self.V = Vars(E)
        self.sample_p = sample_p = E.opaque("sample_p", "Primitive")
        I.module_cache[(A, "sample_p")] = sample_p
        self.split = split = E.ctx.fn("split", U, z3.IntSort(), z3.IntSort(), U)
        self.draw = draw = E.ctx.fn("adev_site_draw", U, U, U, U)          # (primitive, sampling key, argument primals)
        self.dtan = dtan = E.ctx.fn("adev_site_draw_tangent", U, U, U, U, U)
        self.calls = calls = []
        self.sites, self.prims, self.vars = [], [], []

        def jvp_estimate(I_, prim, key_, dual_tree, konts):
            """abstract sampling primitive (contract proved of the concrete ones): value drawn with split(key)[1], the dual
            continuation tail-called with split(key)[0]"""
            kt = I_.to_u(key_)
            prim_u = I_.to_u(I_.call_function(I_.qual(A + ":Dual.tree_primal"), [dual_tree], {}))
            tan_u = I_.to_u(I_.call_function(I_.qual(A + ":Dual.tree_tangent"), [dual_tree], {}))
            k_cont, k_samp = split(kt, 2, 0), split(kt, 2, 1)
            v = UVal(draw(prim.t, k_samp, prim_u), "array")
            dv = UVal(dtan(prim.t, k_samp, prim_u, tan_u), "array")
            E.assume(z3.Not(I.T.is_None(v.t)))
            calls.append(dict(prim=prim, key=kt, primals=prim_u, tangents=tan_u, k_cont=k_cont, k_samp=k_samp, v=v, dv=dv))
            _, kdual = konts
            return I_.call(kdual, [UVal(k_cont, "key"), dual(E, v, dv)], {})
        I.abstract_methods[("ADEVPrimitive", "jvp_estimate")] = jvp_estimate
        self.bind1 = bind1 = E.ctx.fn("prim_bind1", U, U, U)
        self.jvp1 = jvp1 = E.ctx.fn("prim_jvp_tangent1", U, U, U, U)

        def bind(I_, prim, *args, **params):
            r = bind1(prim.t, I_.to_u(tuple(args)))
            E.assume(z3.Not(I.T.is_None(r)))
            return UVal(r, "array")
        I.abstract_methods[("Primitive", "bind")] = bind
        I.abstract_attrs[("Primitive", "multiple_results")] = lambda I_, o: SBool(o.t == sample_p.t, True)
        I.abstract_methods[("Primitive", "get_bind_params")] = lambda I_, prim, params: ([], params)

        class JvpTable:          # jax.interpreters.ad.primitive_jvps
            def pyvc_getattr(self, I_, name):
                if name == "get":
                    def get(I__, prim, default=None):
                        def rule(I3, primals, tangents, **params):
                            p_ = list(I3.iterate(primals))
                            t_ = list(I3.iterate(tangents))
                            return (UVal(bind1(prim.t, I3.to_u(tuple(p_))), "array"),
                                    UVal(jvp1(prim.t, I3.to_u(tuple(p_)), I3.to_u(tuple(t_))), "array"))
                        return NativeFn("jvp_rule", rule)
                    return NativeFn("primitive_jvps.get", get)
                raise KeyError(name)
        I.ext_consts = dict(getattr(I, "ext_consts", {}) or {})
        I.ext_consts["jax.interpreters.ad.primitive_jvps"] = JvpTable()
        self.cond_p = I.ext_consts["jax.lax.cond_p"] = E.opaque("cond_p", "Primitive")
        E.assume(I.to_u(self.cond_p) != sample_p.t)
        sites = self.sites
        I.ext["jax.tree_util.tree_unflatten"] = lambda I_, tree, leaves: (
            [sites[tree[1]]] + list(I_.iterate(leaves)) if isinstance(tree, tuple) and tree[0] == "AP" else
            list(I_.iterate(leaves)) if isinstance(tree, tuple) and tree[0] == "OUTLIST" else
            UVal(E.ctx.fn("tree_unflatten", U, U, U)(I_.to_u(tree), I_.to_u(list(I_.iterate(leaves))))))
        I.ext["jax._src.source_info_util.user_context"] = lambda I_, *a, **k: None

    def var(self, name):
        E, V = self.E, self.V
        v = V.atom(name, "var")
        E.assume(z3.And(z3.Not(V.isD(v.t)), V.isV(v.t)))
        for o in self.vars:
            E.assume(V.count(v) != V.count(o))
        self.vars.append(v)
        return v

    def prim_eqn(self, cur, out):
        E, I = self.E, self.E.I
        pr = E.opaque(f"p{len(self.prims)}", "Primitive")
        E.assume(z3.And(pr.t != self.sample_p.t, pr.t != I.to_u(self.cond_p)))
        self.prims.append(pr)
        return Rec(primitive=pr, params={}, invars=[cur], outvars=[out], source_info=Rec(traceback=None)), pr

    def site_eqn(self, cur, out):
        ap = self.E.opaque(f"adev_prim{len(self.sites)}", "ADEVPrimitive")
        self.sites.append(ap)
        return Rec(primitive=self.sample_p, params={"in_tree": ("AP", len(self.sites) - 1), "num_consts": 0}, invars=[cur],
                   outvars=[out], source_info=Rec(traceback=None)), ap


def _program(shape):
    @task(f"adev.interpreter.program[{shape}]", props=["C29", "C04"], functions=FUNCS)
    def t(E):
        from theory import keys as KY
        I = E.I
        M = Machine(E)
        calls, bind1, jvp1 = M.calls, M.bind1, M.jvp1
        eqns = []
        xv = M.var("xv")
        cur = xv
        for ch in shape:
            out = M.var(f"v{len(eqns)}")
            eqns.append((M.prim_eqn if ch == "p" else M.site_eqn)(cur, out)[0])
            cur = out
        prims, sites = M.prims, M.sites
        jaxpr = Rec(constvars=[], invars=[xv], eqns=eqns, outvars=[cur])
        k = key(E)
        x, dx = E.opaque("x", "array"), E.opaque("dx", "array")
        E.assume(z3.Not(I.T.is_None(x.t)))
        st, res = E.attempt(lambda: E.call(EV, k, jaxpr, [], [dual(E, x, dx)]))
        E.require(f"C29.eval_jaxpr_adev.program_does_not_raise[{shape}]", st == "ok", raised=str(res))
        n_sites = shape.count("s")
        E.require(f"C29.eval_jaxpr_adev.every_sample_site_invokes_its_primitive_once_in_program_order[{shape}]",
                  len(calls) == n_sites and all(c["prim"] is sites[j] for j, c in enumerate(calls)))
        # reference run: primal / tangent flowing along the chain
        pv, tv = x.t, dx.t
        want_key = k.t
        ci = 0
        k_p = 0
        for j, ch in enumerate(shape):
            if ch == "p":
                pv, tv = bind1(prims[k_p].t, I.to_u((UVal(pv),))), jvp1(prims[k_p].t, I.to_u((UVal(pv),)), I.to_u((UVal(tv),)))
                k_p += 1
            else:
                c = calls[ci]
                E.prove(f"C29.eval_jaxpr_adev.site_{ci}_receives_the_key_its_predecessor_passed_on[{shape}]", c["key"] == want_key,
                        also=["C04"])
                E.prove(f"C29.eval_jaxpr_adev.site_{ci}_sees_the_values_computed_upstream[{shape}]", z3.And(
                    c["primals"] == I.to_u([UVal(pv)]), c["tangents"] == I.to_u([UVal(tv)])))
                pv, tv, want_key = c["v"].t, c["dv"].t, c["k_cont"]
                ci += 1
        E.require(f"C29.eval_jaxpr_adev.returns_a_dual[{shape}]", is_obj(res, "Dual"))
        E.prove(f"C29.eval_jaxpr_adev.result_is_the_dual_of_the_output_variable[{shape}]", z3.And(
            I.to_u(res.fields["primal"]) == pv, I.to_u(res.fields["tangent"]) == tv))
        samp = [c["k_samp"] for c in calls]
        for a in range(len(samp)):
            for b in range(a + 1, len(samp)):
                E.prove(f"C04.eval_jaxpr_adev.sites_{a}_and_{b}_draw_independently[{shape}]", KY.independent(I, samp[a], samp[b]),
                        also=["C29"])
        E.refutable(f"adev.interpreter.program[{shape}]", I.to_u(res.fields["primal"]) == x.t)
    return t


for _s in ("s", "ss", "sps", "pss", "sss"):
    _program(_s)


def _cond_program(shape):
    """shape: a string over s, p with exactly one `c` (the cond).  The cond's predicate is a second input variable; each of
    its two branch jaxprs is one sample site applied to the branch's input variable."""
    @task(f"adev.interpreter.program[{shape}]", props=["C29", "C04"], functions=FUNCS_COND)
    def t(E):
        from theory import keys as KY
        I = E.I
        M = Machine(E)
        calls, bind1, jvp1 = M.calls, M.bind1, M.jvp1
        eqns, kinds = [], []
        xv, bv = M.var("xv"), M.var("bv")
        cur = xv
        branches = None
        for ch in shape:
            out = M.var(f"v{len(eqns)}")
            if ch == "c":
                brs = []
                for nm in ("false", "true"):          # jax stores the branches of cond_p as (false branch, true branch)
                    bi, bo = M.var(f"{nm}_in"), M.var(f"{nm}_out")
                    eq, ap = M.site_eqn(bi, bo)
                    brs.append(dict(jaxpr=Rec(constvars=[], invars=[bi], eqns=[eq], outvars=[bo]), site=ap, name=nm))
                branches = brs
                markers = tuple(("BRANCH", j) for j in range(2))
                eqns.append(Rec(primitive=M.cond_p, params={"branches": markers}, invars=[bv, cur], outvars=[out],
                                source_info=Rec(traceback=None)))
                kinds.append(("c", None))
            elif ch == "p":
                eq, pr = M.prim_eqn(cur, out)
                eqns.append(eq)
                kinds.append(("p", pr))
            else:
                eq, ap = M.site_eqn(cur, out)
                eqns.append(eq)
                kinds.append(("s", ap))
            cur = out
        # A11 (staging is external): jaxpr_as_fun(branch) staged on the branch's operands gives the branch's jaxpr back, no
        # constants, one output (a list of length one)
        I.ext["jax.extend.core.jaxpr_as_fun"] = lambda I_, fn: ("JFUN", fn)

        def stage(I_, f):
            def staged(I2, *primals):
                assert isinstance(f, tuple) and f[0] == "JFUN", f
                j = f[1][1]
                closed = Rec(jaxpr=branches[j]["jaxpr"], literals=[])
                return (closed, (None, None, NativeFn("out_tree", lambda I3: ("OUTLIST", 1))))
            return NativeFn("staged", staged)
        I.module_cache[(A, "stage")] = NativeFn("stage", stage)
        I.module_cache[(A, "jaxpr_as_fun")] = NativeFn("jaxpr_as_fun", lambda I_, fn: ("JFUN", fn))
        jaxpr = Rec(constvars=[], invars=[xv, bv], eqns=eqns, outvars=[cur])
        k = key(E)
        x, dx = E.opaque("x", "array"), E.opaque("dx", "array")
        b, db = E.opaque("b", "array"), E.opaque("db", "array")
        E.assume(z3.Not(I.T.is_None(x.t)))
        st, res = E.attempt(lambda: E.call(EV, k, jaxpr, [], [dual(E, x, dx), dual(E, b, db)]))
        E.require(f"C29.eval_jaxpr_adev.program_does_not_raise[{shape}]", st == "ok", raised=str(res))
        E.require(f"C29.eval_jaxpr_adev.returns_a_dual[{shape}]", is_obj(res, "Dual"))
        ci_pos = shape.index("c")
        n_before, n_after = shape[:ci_pos].count("s"), shape[ci_pos + 1:].count("s")
        # lax.cond is modelled by running both branch functions on the operands and selecting (A4); the true branch is the first
        # function handed to lax.cond.  Each branch function runs its site and then - through the continuation - the rest.
        E.require(f"C29.eval_jaxpr_adev.each_branch_runs_its_site_and_then_the_rest_of_the_program[{shape}]",
                  len(calls) == n_before + 2 * (1 + n_after))
        from theory.externals import as_flag_term
        pred = as_flag_term(I, b)
        first_is_true = calls[n_before]["prim"] is branches[1]["site"]
        E.require(f"C29.eval_jaxpr_adev.the_true_branch_is_run_under_a_true_predicate[{shape}]",
                  first_is_true and calls[n_before + 1 + n_after]["prim"] is branches[0]["site"])
        for br_i, (nm, cond_holds) in enumerate((("true", pred), ("false", z3.Not(pred)))):
            path = calls[:n_before] + calls[n_before + br_i * (1 + n_after): n_before + (br_i + 1) * (1 + n_after)]
            pv, tv = x.t, dx.t
            ci = 0
            for kind, what in kinds:
                if kind == "p":
                    pv, tv = bind1(what.t, I.to_u((UVal(pv),))), jvp1(what.t, I.to_u((UVal(pv),)), I.to_u((UVal(tv),)))
                    continue
                c = path[ci]
                if kind == "s":
                    E.require(f"C29.eval_jaxpr_adev.sites_run_in_program_order[{shape}]", c["prim"] is what)
                E.prove(f"C29.eval_jaxpr_adev.site_{ci}_sees_the_values_computed_upstream[{shape}][{nm} branch]", z3.And(
                    c["primals"] == I.to_u([UVal(pv)]), c["tangents"] == I.to_u([UVal(tv)])))
                pv, tv = c["v"].t, c["dv"].t
                ci += 1
            E.prove(f"C29.eval_jaxpr_adev.result_is_the_dual_of_the_output_variable[{shape}][{nm} branch]", z3.Implies(cond_holds, z3.And(
                I.to_u(res.fields["primal"]) == pv, I.to_u(res.fields["tangent"]) == tv)))
            samp = [c["k_samp"] for c in path]
            for a in range(len(samp)):
                E.prove(f"C04.eval_jaxpr_adev.site_{a}_draws_with_a_key_derived_from_the_given_key[{shape}][{nm} branch]",
                        KY.derived_from(I, samp[a], k.t), also=["C29"])
                for b_ in range(a + 1, len(samp)):
                    E.prove(f"C04.eval_jaxpr_adev.sites_{a}_and_{b_}_draw_independently[{shape}][{nm} branch]",
                            KY.independent(I, samp[a], samp[b_]), also=["C29"])
        E.refutable(f"adev.interpreter.program[{shape}]", I.to_u(res.fields["primal"]) == x.t)
    return t


for _s in ("c", "cs", "sc", "scs", "cps"):
    _cond_program(_s)
