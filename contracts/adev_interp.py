"""Contract for ADInterpreter.eval_jaxpr_adev (adev/core.py) - the CPS forward-mode interpreter  (C29, C04).

Schematic programs (a jaxpr with a concrete SHAPE - a sequence of `s` = sample_p site and `p` = ordinary unary primitive - and
symbolic atoms, primitives, sampled values) are run through the REAL eval_jaxpr_adev, the REAL closures _sample_dual_kont /
eval_jaxpr_iterate_dual, the REAL Dual helpers and Environment.  The sampling primitives are abstract and honour the contract
proved of the concrete ones in contracts/adev.py (REINFORCE, TailCallADEVPrimitive, ...): jvp_estimate(key, dual_tree, konts)
draws its value with one key derived from `key` and tail-calls the dual continuation with ANOTHER key derived from `key`,
independent of the first, and with the dual of the drawn value.

Obligations per shape (bounded in shape - the evidence says so - unbounded in atoms, values, keys):
  * each site's primitive is invoked with the key its predecessor handed to the continuation (the first one with the caller's
    key), so the randomness of different sites is independent (theory/keys.py);
  * the arguments a site sees are the values computed upstream (data flow through the environment, ordinary primitives applied
    to primals, their tangents by the registered JVP rule);
  * the interpreter returns the dual of the output variable."""
import z3

from pyvc.task import task
from pyvc.values import NativeFn, Obj, SBool, SInt, SReal, SymMap, UVal, U
from .common import *
from .interpreters import Rec, Vars, ENV

A = "genjax._src.adev.core"
EV = A + ":ADInterpreter.eval_jaxpr_adev"
FUNCS = [EV, A + ":ADInterpreter.flat_unzip", A + ":Dual.tree_pure", A + ":Dual.dual_tree", A + ":Dual.tree_primal",
         A + ":Dual.tree_tangent", A + ":Dual.tree_leaves", ENV + ":Environment.read", ENV + ":Environment.write",
         ENV + ":Environment.copy"]


def dual(E, p, t):
    return E.new(A + ":Dual", primal=p, tangent=t)


def _program(shape):
    @task(f"adev.interpreter.program[{shape}]", props=["C29", "C04"], functions=FUNCS)
    def t(E):
        from theory import keys as KY
        I = E.I
        V = Vars(E)
        sample_p = E.opaque("sample_p", "Primitive")
        I.module_cache[(A, "sample_p")] = sample_p
        split = E.ctx.fn("split", U, z3.IntSort(), z3.IntSort(), U)
        draw = E.ctx.fn("adev_site_draw", U, U, U, U)          # (primitive, sampling key, argument primals)
        dtan = E.ctx.fn("adev_site_draw_tangent", U, U, U, U, U)
        calls = []

        def jvp_estimate(I_, prim, key_, dual_tree, konts):
            """abstract sampling primitive (contract proved of the concrete ones): value drawn with split(key)[1], the dual
            continuation tail-called with split(key)[0]"""
            kt = I_.to_u(key_)
            prim_u = I_.to_u(I_.call_function(I_.qual(A + ":Dual.tree_primal"), [dual_tree], {}))
            tan_u = I_.to_u(I_.call_function(I_.qual(A + ":Dual.tree_tangent"), [dual_tree], {}))
            k_cont, k_samp = split(kt, 2, 0), split(kt, 2, 1)
            v = UVal(draw(prim.t, k_samp, prim_u), "array")
            dv = UVal(dtan(prim.t, k_samp, prim_u, tan_u), "array")
            E.assume(z3.Not(I.T.is_None(v.t)))
            calls.append(dict(prim=prim, key=kt, primals=prim_u, tangents=tan_u, k_cont=k_cont, k_samp=k_samp, v=v, dv=dv))
            _, kdual = konts
            return I_.call(kdual, [UVal(k_cont, "key"), dual(E, v, dv)], {})
        I.abstract_methods[("ADEVPrimitive", "jvp_estimate")] = jvp_estimate
        bind1 = E.ctx.fn("prim_bind1", U, U, U)
        jvp1 = E.ctx.fn("prim_jvp_tangent1", U, U, U, U)

        def bind(I_, prim, *args, **params):
            r = bind1(prim.t, I_.to_u(tuple(args)))
            E.assume(z3.Not(I.T.is_None(r)))
            return UVal(r, "array")
        I.abstract_methods[("Primitive", "bind")] = bind
        I.abstract_attrs[("Primitive", "multiple_results")] = lambda I_, o: SBool(o.t == sample_p.t, True)
        I.abstract_methods[("Primitive", "get_bind_params")] = lambda I_, prim, params: ([], params)

        class JvpTable:          # jax.interpreters.ad.primitive_jvps
            def pyvc_getattr(self, I_, name):
                if name == "get":
                    def get(I__, prim, default=None):
                        def rule(I3, primals, tangents, **params):
                            p_ = list(I3.iterate(primals))
                            t_ = list(I3.iterate(tangents))
                            return (UVal(bind1(prim.t, I3.to_u(tuple(p_))), "array"),
                                    UVal(jvp1(prim.t, I3.to_u(tuple(p_)), I3.to_u(tuple(t_))), "array"))
                        return NativeFn("jvp_rule", rule)
                    return NativeFn("primitive_jvps.get", get)
                raise KeyError(name)
        I.ext_consts = dict(getattr(I, "ext_consts", {}) or {})
        I.ext_consts["jax.interpreters.ad.primitive_jvps"] = JvpTable()
        I.ext_consts["jax.lax.cond_p"] = E.opaque("cond_p", "Primitive")
        E.assume(E.I.to_u(I.ext_consts["jax.lax.cond_p"]) != sample_p.t)
        prims, sites, eqns = [], [], []
        xv = V.atom("xv", "var")
        E.assume(z3.Not(V.isD(xv.t)))
        cur = xv
        for ch in shape:
            out = V.atom(f"v{len(eqns)}", "var")
            E.assume(z3.Not(V.isD(out.t)))
            if ch == "p":
                pr = E.opaque(f"p{len(prims)}", "Primitive")
                E.assume(z3.And(pr.t != sample_p.t, pr.t != I.to_u(I.ext_consts["jax.lax.cond_p"])))
                prims.append(pr)
                eqns.append(Rec(primitive=pr, params={}, invars=[cur], outvars=[out], source_info=Rec(traceback=None)))
            else:
                ap = E.opaque(f"adev_prim{len(sites)}", "ADEVPrimitive")
                sites.append(ap)
                eqns.append(Rec(primitive=sample_p, params={"in_tree": ("AP", len(sites) - 1), "num_consts": 0}, invars=[cur],
                                outvars=[out], source_info=Rec(traceback=None)))
            cur = out
        allv = [xv] + [e.outvars[0] for e in eqns]
        for i in range(len(allv)):
            E.assume(V.isV(allv[i].t))
            for j in range(i):
                E.assume(V.count(allv[i]) != V.count(allv[j]))
        I.ext["jax.tree_util.tree_unflatten"] = lambda I_, tree, leaves: (
            [sites[tree[1]]] + list(I_.iterate(leaves)) if isinstance(tree, tuple) and tree[0] == "AP" else
            UVal(E.ctx.fn("tree_unflatten", U, U, U)(I_.to_u(tree), I_.to_u(list(I_.iterate(leaves))))))
        I.ext["jax._src.source_info_util.user_context"] = lambda I_, *a, **k: None
        jaxpr = Rec(constvars=[], invars=[xv], eqns=eqns, outvars=[cur])
        k = key(E)
        x, dx = E.opaque("x", "array"), E.opaque("dx", "array")
        E.assume(z3.Not(I.T.is_None(x.t)))
        st, res = E.attempt(lambda: E.call(EV, k, jaxpr, [], [dual(E, x, dx)]))
        E.require(f"C29.eval_jaxpr_adev.program_does_not_raise[{shape}]", st == "ok", raised=str(res))
        n_sites = shape.count("s")
        E.require(f"C29.eval_jaxpr_adev.every_sample_site_invokes_its_primitive_once_in_program_order[{shape}]",
                  len(calls) == n_sites and all(c["prim"] is sites[j] for j, c in enumerate(calls)))
        # reference run: primal / tangent flowing along the chain
        pv, tv = x.t, dx.t
        want_key = k.t
        ci = 0
        k_p = 0
        for j, ch in enumerate(shape):
            if ch == "p":
                pv, tv = bind1(prims[k_p].t, I.to_u((UVal(pv),))), jvp1(prims[k_p].t, I.to_u((UVal(pv),)), I.to_u((UVal(tv),)))
                k_p += 1
            else:
                c = calls[ci]
                E.prove(f"C29.eval_jaxpr_adev.site_{ci}_receives_the_key_its_predecessor_passed_on[{shape}]", c["key"] == want_key,
                        also=["C04"])
                E.prove(f"C29.eval_jaxpr_adev.site_{ci}_sees_the_values_computed_upstream[{shape}]", z3.And(
                    c["primals"] == I.to_u([UVal(pv)]), c["tangents"] == I.to_u([UVal(tv)])))
                pv, tv, want_key = c["v"].t, c["dv"].t, c["k_cont"]
                ci += 1
        E.require(f"C29.eval_jaxpr_adev.returns_a_dual[{shape}]", is_obj(res, "Dual"))
        E.prove(f"C29.eval_jaxpr_adev.result_is_the_dual_of_the_output_variable[{shape}]", z3.And(
            I.to_u(res.fields["primal"]) == pv, I.to_u(res.fields["tangent"]) == tv))
        samp = [c["k_samp"] for c in calls]
        for a in range(len(samp)):
            for b in range(a + 1, len(samp)):
                E.prove(f"C04.eval_jaxpr_adev.sites_{a}_and_{b}_draw_independently[{shape}]", KY.independent(I, samp[a], samp[b]),
                        also=["C29"])
        E.refutable(f"adev.interpreter.program[{shape}]", I.to_u(res.fields["primal"]) == x.t)
    return t


for _s in ("s", "ss", "sps", "pss", "sss"):
    _program(_s)
