"""Contracts for inference/vi.py  (C30): the VALUE computed inside the `_loss` closures of ELBO / IWELBO / PWake / QWake and
the plumbing of adev_distribution.  `expectation(f)` is replaced by a recorder: grad_estimate(key, args) evaluates the real
closure f(*args) symbolically (the value whose gradient the ADEV machinery estimates; estimator correctness is C29).
That the gradient estimate's expectation is the gradient of the expectation is C29 + linearity of expectation (assumed)."""
from pyvc.task import task
from pyvc.values import NativeFn, Obj, SBool, SInt, SReal, Stacked, StarOpaque, TupleT, UVal
from .common import *
from .smc import proposal_theory, SMC, SP
from .vmap import forall_i

VI = "genjax._src.inference.vi"
ADEV = "genjax._src.adev.core"
FUNCS = [VI + ":ELBO", VI + ":IWELBO", VI + ":PWake", VI + ":QWake", VI + ":adev_distribution", VI + ":logpdf",
         SMC + ":SMCAlgorithm.estimate_normalizing_constant", SMC + ":ChangeTarget.run_smc", SMC + ":Importance.run_smc",
         SMC + ":ImportanceK.run_smc"]


def record_expectation(E, diff_args=None):
    """expectation(f) -> object whose grad_estimate(key, args) records the loss value.  The ADEV machinery differentiates the
    loss FUNCTION with respect to its own parameters: the function is therefore evaluated at `diff_args` - fresh variables
    standing for its parameters - not at the caller's argument values, so that a loss which takes part of its value from the
    enclosing grad_estimate's arguments (a constant for the differentiation) does not meet the specification"""
    losses = []

    def expectation(I, f):
        def grad_estimate(I, key, args):
            at = list(diff_args) if diff_args is not None else list(args)
            assert len(at) == len(list(args))
            v = I.call(f, at, {})
            losses.append(v)
            return UVal(I.ctx.fn("adev_grad_estimate", U, U, U)(I.to_u(key), I.to_u(v)))
        class Rec:
            def pyvc_getattr(self, I, name):
                if name == "grad_estimate":
                    return NativeFn("grad_estimate", grad_estimate)
                raise AttributeError(name)
        return Rec()
    E.I.overrides[ADEV + ":expectation"] = expectation
    return losses


def setup(E):
    T = E.I.T
    qw, qc, ql = proposal_theory(E)
    g = G(E, "model")
    obs = chm(E, "observations")

    def make_target(I, *args):
        return E.new(SP + ":Target", p=g, args=tuple(args), constraint=obs)
    return qw, qc, ql, g, obs, NativeFn("make_target", make_target)


def same_target_lemma(E, g, tr, obs, key2, args_t):
    """LEMMA INSTANCE (C03 corollary + C17 partition): constraining the same target with its own constraint merged with the
    unconstrained choices of one of its traces constrains every choice to the trace's value, so the importance weight is
    the trace's score."""
    T = E.I.T
    latents = T.chm_filter_sel(T.tr_choices(tr), T.sel_not(T.chm_sel(obs.t)))
    merged2 = T.chm_or(obs.t, latents)
    tr2 = T.gen_tr(g.t, key2, merged2, args_t)
    E.assume(T.cdens(tr2, merged2) == T.tr_score(tr))
    return tr2


def _apps(term, fname):
    """all (distinct) applications of the uninterpreted function `fname` in a term, nested ones included"""
    import z3
    found, seen = [], set()

    def walk(e):
        if e.get_id() in seen:
            return
        seen.add(e.get_id())
        if z3.is_app(e) and e.decl().name() == fname and not any(e.eq(x) for x in found):
            found.append(e)
        for ch in e.children():
            walk(ch)
    walk(term)
    return found


def weight_keys(E, wterm, what):
    """the keys a re-targeted importance weight was computed with, READ OFF the weight term (the contracts do not say how the
    algorithms derive them):  (key of the target's importance run, key of the proposal's draw, key of the re-targeting run)"""
    import z3
    t = z3.simplify(wterm)
    ws = _apps(t, "gf_generate_w")
    outer = [a for a in ws if _apps(a.arg(2), "gf_generate_tr")]
    inner = [a for a in ws if not _apps(a.arg(2), "gf_generate_tr")]
    draws = _apps(t, "q_random_weighted_choice")
    E.require(f"C30.{what}.weight_is_one_proposal_draw_one_importance_run_and_its_retargeting",
              len(outer) == 1 and len(inner) == 1 and len(draws) == 1, found=(len(outer), len(inner), len(draws)))
    return inner[0].arg(1), draws[0].arg(1), outer[0].arg(1)


@task("vi.elbo", props=["C30", "C04"], functions=FUNCS)
def t_elbo(E):
    z3, T = E.z3, E.I.T
    theta = E.real("theta")             # the loss function's own parameter (what ADEV differentiates with respect to)
    theta_outer = E.real("theta_at_call")   # the value grad_estimate is called at: a constant for the differentiation
    losses = record_expectation(E, diff_args=(theta,))
    qw, qc, ql, g, obs, make_target = setup(E)
    guide = E.opaque("guide", "SampleDistribution")
    k = key(E)
    ge = E.I.call(E.call(VI + ":ELBO", guide, make_target), [k, (theta_outer,)], {})
    # keys: read off the single re-targeted importance weight the loss is computed from (however the algorithms derive them)
    from pyvc.interp_ops import zreal as _zr
    from theory import keys as KY
    lse_terms = getattr(E.ctx, "lse", [])
    E.require("C30.ELBO.loss_is_computed_from_one_weight_vector", len(lse_terms) == 1 and len(losses) == 1)
    k_imp0, k_imp1, k_ret = weight_keys(E, _zr(lse_terms[0][1].at(z3.IntVal(0))), "ELBO")
    E.prove("C04.ELBO.guide_draw_and_model_importance_use_independent_keys_derived_from_the_given_key", z3.And(
        KY.independent(E.I, k_imp0, k_imp1), KY.derived_from(E.I, k_imp0, k.t), KY.derived_from(E.I, k_imp1, k.t)), also=["C30"])
    target = E.new(SP + ":Target", p=g, args=(theta,), constraint=obs)
    tu = E.I.to_u(target)
    choice, lq = qc(guide.t, k_imp1, tu), qw(guide.t, k_imp1, tu)
    merged = T.chm_or(obs.t, choice)
    args_t = E.I.to_u((theta,))
    tr = T.gen_tr(g.t, k_imp0, merged, args_t)
    same_target_lemma(E, g, tr, obs, k_ret, args_t)
    E.cover("vi.elbo.reached")
    E.prove("C30.ELBO.loss_recorded", len(losses) == 1)
    E.prove("C30.ELBO.loss_is_minus_log_joint_minus_log_guide_density_at_a_guide_sample",
            E.eq(losses[0], SReal(-(T.cdens(tr, merged) - lq))))
    E.refutable("vi.elbo", E.eq(losses[0], SReal(-T.cdens(tr, merged))))


@task("vi.wake", props=["C30", "C04"], functions=FUNCS)
def t_wake(E):
    z3, T = E.z3, E.I.T
    theta = E.real("theta")             # the loss function's own parameter (what ADEV differentiates with respect to)
    theta_outer = E.real("theta_at_call")   # the value grad_estimate is called at: a constant for the differentiation
    losses = record_expectation(E, diff_args=(theta,))
    qw, qc, ql, g, obs, make_target = setup(E)
    post = E.opaque("posterior_approx", "SampleDistribution")
    prop = E.opaque("proposal", "SampleDistribution")
    k = key(E)
    from pyvc.interp_ops import zreal as _zr
    from theory import keys as KY
    target = E.new(SP + ":Target", p=g, args=(theta,), constraint=obs)
    tu = E.I.to_u(target)
    E.I.call(E.call(VI + ":PWake", post, make_target), [k, (theta_outer,)], {})
    E.require("C30.PWake.loss_recorded", len(losses) == 1)
    # keys read off the loss term: the posterior approximation's draw and the model's importance run
    t0 = z3.simplify(_zr(losses[0]))
    d0, g0 = _apps(t0, "q_random_weighted_choice"), _apps(t0, "gf_generate_tr")
    E.require("C30.PWake.loss_is_built_from_one_posterior_draw_and_one_model_trace", len(d0) == 1 and len(g0) == 1)
    s1, s2 = d0[0].arg(1), g0[0].arg(1)
    E.prove("C04.PWake.posterior_draw_and_model_run_use_independent_keys_derived_from_the_given_key", z3.And(
        KY.independent(E.I, s1, s2), KY.derived_from(E.I, s1, k.t), KY.derived_from(E.I, s2, k.t)), also=["C30"])
    sample = qc(post.t, s1, tu)
    tr = T.gen_tr(g.t, s2, T.chm_or(obs.t, sample), E.I.to_u((theta,)))
    E.prove("C30.PWake.loss_is_minus_model_score_at_a_posterior_sample", E.eq(losses[0], SReal(-T.tr_score(tr))))
    E.I.call(E.call(VI + ":QWake", prop, post, make_target), [k, (theta_outer,)], {})
    E.require("C30.QWake.loss_recorded", len(losses) == 2)
    t1 = z3.simplify(_zr(losses[1]))
    d1, e1 = _apps(t1, "q_random_weighted_choice"), _apps(t1, "q_estimate_logpdf")
    E.require("C30.QWake.loss_is_built_from_one_posterior_draw_and_one_proposal_density", len(d1) == 1 and len(e1) == 1)
    sample1 = qc(post.t, d1[0].arg(1), tu)
    E.prove("C30.QWake.loss_is_minus_proposal_log_density_of_a_posterior_sample",
            E.eq(losses[1], SReal(-ql(prop.t, e1[0].arg(1), sample1, tu))))
    E.refutable("vi.wake", E.eq(losses[0], losses[1]))


@task("vi.iwelbo", props=["C30"], functions=FUNCS)
def t_iwelbo(E):
    z3, T = E.z3, E.I.T
    theta = E.real("theta")             # the loss function's own parameter (what ADEV differentiates with respect to)
    theta_outer = E.real("theta_at_call")   # the value grad_estimate is called at: a constant for the differentiation
    losses = record_expectation(E, diff_args=(theta,))
    qw, qc, ql, g, obs, make_target = setup(E)
    prop = E.opaque("proposal", "SampleDistribution")
    N = E.int("N", conc=True)
    E.assume(N.t >= 1)
    k = key(E)
    E.I.call(E.call(VI + ":IWELBO", prop, make_target, N), [k, (theta_outer,)], {})
    target = E.new(SP + ":Target", p=g, args=(theta,), constraint=obs)
    tu = E.I.to_u(target)
    args_t = E.I.to_u((theta,))
    lse_terms = getattr(E.ctx, "lse", [])
    E.require("C30.IWELBO.one_logsumexp", len(lse_terms) == 1)
    # the per-particle keys are read off particle i's re-targeted weight (symbolic i), however the algorithms derive them
    from pyvc.interp_ops import zreal as _zr
    i_any = E.ctx.const("i_any_particle", z3.IntSort())
    ki, kq, kr = weight_keys(E, _zr(lse_terms[0][1].at(i_any)), "IWELBO")
    at = lambda term, i: z3.substitute(term, (i_any, i))

    def w(i):
        choice, lq = qc(prop.t, at(kq, i), tu), qw(prop.t, at(kq, i), tu)
        merged = T.chm_or(obs.t, choice)
        tr = T.gen_tr(g.t, at(ki, i), merged, args_t)
        same_target_lemma(E, g, tr, obs, at(kr, i), args_t)
        return SReal(T.cdens(tr, merged) - lq)
    spec = Stacked(N.t, w, tag="iw")
    R = z3.RealSort()
    # the vector of reweighted log-weights equals the vector of importance weights (pointwise), hence so does its logsumexp
    if lse_terms:
        E.I.stacked_equal(lse_terms[0][1], spec)
    E.prove("C30.IWELBO.loss_is_minus_log_mean_exp_of_importance_weights", E.eq(losses[0], SReal(
        -(E.ctx.fn("logsumexp", U, R)(E.I.to_u(spec)) - E.ctx.fn("log", R, R)(z3.ToReal(N.t))))))
    E.refutable("vi.iwelbo", E.eq(losses[0], SReal(-E.ctx.fn("logsumexp", U, R)(E.I.to_u(spec)))))


@task("vi.adev_distribution", props=["C30", "C29"], functions=FUNCS)
def t_adev_distribution(E):
    """adev_distribution(prim, logpdf).sample draws through the ADEV primitive; its logpdf sums the given density"""
    z3 = E.z3
    E.I.overrides.pop(DIST + ":ExactDensity.sample", None)
    E.I.overrides.pop(DIST + ":ExactDensity.logpdf", None)
    sp = E.ctx.fn("sample_primitive", U, U, U, U)
    E.I.overrides[ADEV + ":sample_primitive"] = lambda I, prim, *args, key=None: UVal(sp(I.to_u(prim), I.to_u(tuple(args)), I.to_u(key)), "array")
    prim = E.opaque("adev_primitive", "ADEVPrimitive")
    dens = E.ctx.fn("differentiable_logpdf", U, U, z3.RealSort())
    logpdf = NativeFn("differentiable_logpdf", lambda I, v, *a: SReal(dens(I.to_u(v), I.to_u(tuple(a)))))
    d = E.call(VI + ":adev_distribution", prim, logpdf, "mydist")
    k, a = key(E), E.real("a")
    E.prove("C30.adev_distribution.sample_is_the_adev_primitive_with_the_given_key",
            E.eq(E.method(d, "sample", k, a), UVal(sp(prim.t, E.I.to_u((a,)), k.t), "array")))
    v = E.opaque("v", "array")
    E.prove("C30.adev_distribution.logpdf_is_the_given_density", E.eq(E.method(d, "logpdf", v, a), SReal(dens(v.t, E.I.to_u((a,))))))
