"""Contracts for Trace.get_subtrace and the get_inner_trace overrides  (C34)."""
from pyvc.task import task
from pyvc.values import Obj, SBool, SInt, SReal, Stacked, TupleT, UVal
from .common import *

FUNCS = [GF + ":Trace.get_subtrace", GF + ":Trace.get_inner_trace", STATIC + ":StaticTrace.get_inner_trace",
         COMB + ".vmap:VmapTrace.get_inner_trace", COMB + ".scan:ScanTrace.get_inner_trace",
         COMB + ".switch:SwitchTrace.get_inner_trace", COMB + ".mask:MaskTrace.get_inner_trace",
         COMB + ".dimap:DimapTrace.get_inner_trace"]


def inner_of(E, t, addr):
    return UVal(E.ctx.fn("tr_inner", U, U, U)(E.I.to_u(t), E.I.to_u(addr)), "Trace")


@task("subtrace.delegation", props=["C34"], functions=FUNCS)
def t_delegation(E):
    z3, T = E.z3, E.I.T
    g = G(E)
    inner = T.abstract_trace("inner", g=g.t)
    a, b = E.opaque("a", "str"), E.opaque("b", "str")
    dm = E.new(COMB + ".dimap:DimapTrace", gen_fn=E.opaque("dm", "GenerativeFunction"), inner=inner,
               args=E.opaque("args", "tuple"), retval=E.opaque("rv"))
    E.prove("C34.DimapTrace.get_subtrace.delegates_to_inner", E.eq(E.method(dm, "get_subtrace", a), inner_of(E, inner, a)))
    E.prove("C34.DimapTrace.choices_and_score_are_inner", E.And(
        E.eq(E.method(dm, "get_choices"), E.method(inner, "get_choices")), E.eq(E.method(dm, "get_score"), E.method(inner, "get_score"))))
    check = E.flag("check")
    mt = E.call(COMB + ".mask:MaskTrace.build", E.opaque("mc", "GenerativeFunction"), inner, check)
    E.prove("C34.MaskTrace.get_subtrace.delegates_to_inner", E.eq(E.method(mt, "get_subtrace", a), inner_of(E, inner, a)))
    E.prove("C34.MaskTrace.true_flag_choices_are_inner", E.Implies(check, E.And(
        E.eq(E.method(mt, "get_choices"), E.method(inner, "get_choices")), E.eq(E.method(mt, "get_score"), E.method(inner, "get_score")))))
    # vector combinators: the stacked sub-trace (delegation to the batched inner trace)
    n = E.ctx.const("n", z3.IntSort())
    batch = E.ctx.fn("elem", z3.IntSort(), U)
    binner = Stacked(n, lambda i: UVal(batch(i), "Trace"), tag="batch")
    vt = E.new(COMB + ".vmap:VmapTrace", gen_fn=E.opaque("vm", "GenerativeFunction"), inner=binner, args=E.opaque("va", "tuple"),
               score=E.real("vs"), chm=E.opaque("vc", "ChoiceMap"), dim_length=SInt(n, True))
    sub = E.method(vt, "get_subtrace", a)
    i = E.ctx.const("i", z3.IntSort())
    E.prove("C34.VmapTrace.get_subtrace.is_the_stacked_subtrace", E.And(
        isinstance(sub, Stacked), E.eq(sub.at(i), inner_of(E, UVal(batch(i), "Trace"), a)) if isinstance(sub, Stacked) else False))
    st = E.new(COMB + ".scan:ScanTrace", scan_gen_fn=E.opaque("sc", "GenerativeFunction"), inner=binner, args=E.opaque("sa", "tuple"),
               retval=E.opaque("sr"), score=E.real("ss"), chm=E.opaque("scm", "ChoiceMap"), scan_length=SInt(n, True))
    sub2 = E.method(st, "get_subtrace", a)
    E.prove("C34.ScanTrace.get_subtrace.is_the_stacked_subtrace", E.And(
        isinstance(sub2, Stacked), E.eq(sub2.at(i), inner_of(E, UVal(batch(i), "Trace"), a)) if isinstance(sub2, Stacked) else False))
    # get_subtrace with several addresses walks down one level per address
    two = E.method(dm, "get_subtrace", a, b)
    E.prove("C34.Trace.get_subtrace.walks_addresses_in_order", E.eq(two, inner_of(E, inner_of(E, inner, a), b)))
    E.refutable("subtrace.delegation", E.eq(two, inner_of(E, inner, a)))


def _switch(n):
    @task(f"subtrace.switch.n{n}", props=["C34", "C13"], functions=FUNCS)
    def t(E):
        z3, T = E.z3, E.I.T
        gs = tuple(E.opaque(f"G{j}", "GenerativeFunction") for j in range(n))
        sw = E.new(COMB + ".switch:Switch", branches=gs)
        idx = E.int("idx", conc=True)        # get_inner_trace indexes a Python list: needs a concrete index
        subs = [T.abstract_trace(f"sub{j}", g=gs[j].t) for j in range(n)]
        tr = E.new(COMB + ".switch:SwitchTrace", gen_fn=sw, args=(idx,) + tuple(E.opaque(f"a{j}", "tuple") for j in range(n)),
                   subtraces=list(subs), retval=E.opaque("rv"), score=E.real("s"))
        a = E.opaque("a", "str")
        got = E.attempt(lambda: E.method(tr, "get_subtrace", a))
        clamp = z3.If(idx.t < 0, 0, z3.If(idx.t > n - 1, n - 1, idx.t))
        E.prove(f"C34.SwitchTrace.get_subtrace.no_raise[n{n}]", got[0] == "ok")
        if got[0] == "ok":
            for j in range(n):
                E.prove(f"C34.SwitchTrace.get_subtrace.uses_the_executed_branch[{j}of{n}]",
                        E.Implies(clamp == j, E.eq(got[1], inner_of(E, subs[j], a))))
    return t


_switch(2)
_switch(3)
