"""shared helpers for contract files"""
import z3
from pyvc.values import Obj, SBool, SInt, SReal, TupleT, U, UVal

GF = "genjax._src.core.generative.generative_function"
CM = "genjax._src.core.generative.choice_map"
INC = "genjax._src.core.compiler.interpreters.incremental"
FT = "genjax._src.core.generative.functional_types"
STAGING = "genjax._src.core.compiler.staging"
COMB = "genjax._src.generative_functions.combinators"
DIST = "genjax._src.generative_functions.distributions.distribution"
STATIC = "genjax._src.generative_functions.static"
REQ = "genjax._src.core.generative.requests"
CONCEPTS = "genjax._src.core.generative.concepts"


def G(E, name="G"):
    return E.opaque(name, "GenerativeFunction")


def key(E, name="key"):
    return E.opaque(name, "key")


def chm(E, name="c"):
    return E.opaque(name, "ChoiceMap")


def update(E, constraint):
    return E.new(GF + ":Update", constraint=constraint)


def diff(E, primal, tangent):
    return E.new(INC + ":Diff", primal=primal, tangent=tangent)


def NoChange(E):
    return E.I.qual(INC + ":NoChange")


def UnknownChange(E):
    return E.I.qual(INC + ":UnknownChange")


def sym_tangent(E, name):
    """a tangent that is NoChange or UnknownChange, decided by a symbolic Python-level bool"""
    b = E.flag(name, conc=True)
    if E.I.truth(b, tag=name):
        return NoChange(E)
    return UnknownChange(E)


def nochange_sound(E, rd, new_ret, old_ret):
    """C08: a retdiff tagged NoChange everywhere carries the previous return value (trees without leaves excepted)"""
    T = E.I.T
    p = E.I.to_u(E.call(INC + ":Diff.tree_primal", rd))
    noleaves = E.ctx.fn("has_no_leaves", U, E.z3.BoolSort())(p)
    return E.Implies(E.And(T.all_nochange(rd), E.Not(noleaves)), E.eq(new_ret, old_ret))


def fld(E, o, name):
    """field of a repository object; an unrelated fresh opaque value when `o` is not such an object (so that a clause
    about the field is refuted instead of crashing the checker)"""
    if isinstance(o, Obj) and name in o.fields:
        return o.fields[name]
    return E.opaque("missing_field_" + name)


def is_obj(o, cls_name):
    return isinstance(o, Obj) and o.cls.name == cls_name
