"""shared helpers for contract files"""
import z3
from pyvc.values import Obj, SBool, SInt, SReal, TupleT, U, UVal

GF = "genjax._src.core.generative.generative_function"
CM = "genjax._src.core.generative.choice_map"
INC = "genjax._src.core.compiler.interpreters.incremental"
FT = "genjax._src.core.generative.functional_types"
STAGING = "genjax._src.core.compiler.staging"
COMB = "genjax._src.generative_functions.combinators"
DIST = "genjax._src.generative_functions.distributions.distribution"
STATIC = "genjax._src.generative_functions.static"
REQ = "genjax._src.core.generative.requests"
CONCEPTS = "genjax._src.core.generative.concepts"


def G(E, name="G"):
    return E.opaque(name, "GenerativeFunction")


def key(E, name="key"):
    return E.opaque(name, "key")


def chm(E, name="c"):
    return E.opaque(name, "ChoiceMap")


def update(E, constraint):
    return E.new(GF + ":Update", constraint=constraint)


def diff(E, primal, tangent):
    return E.new(INC + ":Diff", primal=primal, tangent=tangent)


def NoChange(E):
    return E.I.qual(INC + ":NoChange")


def UnknownChange(E):
    return E.I.qual(INC + ":UnknownChange")


def sym_tangent(E, name):
    """a tangent that is NoChange or UnknownChange, decided by a symbolic Python-level bool"""
    b = E.flag(name, conc=True)
    if E.I.truth(b, tag=name):
        return NoChange(E)
    return UnknownChange(E)


def nochange_sound(E, rd, new_ret, old_ret):
    """C08: a retdiff tagged NoChange everywhere carries the previous return value (trees without leaves excepted)"""
    T = E.I.T
    p = E.I.to_u(E.call(INC + ":Diff.tree_primal", rd))
    noleaves = E.ctx.fn("has_no_leaves", U, E.z3.BoolSort())(p)
    return E.Implies(E.And(T.all_nochange(rd), E.Not(noleaves)), E.eq(new_ret, old_ret))


def callee_key(E, v, fname, what):
    """the key the real code handed to an abstract callee: `v` is the callee's result (e.g. the trace gf_simulate(G, key,
    args)); when the result is not a direct application of `fname` the contract cannot be stated on this path (undecided)"""
    from theory import keys as K
    from pyvc.values import Unsupported
    t = v.t if isinstance(v, UVal) else E.I.to_u(v)
    k = K.key_of(t, fname)
    if k is None:
        raise Unsupported(f"{what}: result is not a direct {fname} application: {str(t)[:80]}")
    return k


def loop_key_discipline(E, loop, k, key_at, carried_key, n, what, pos=0):
    """C04 for a lax.scan loop whose iterations each hand ONE key to a consumer (DESIGN §5 C04, theory/keys.py).
      key_at(i)      z3 term: the key the real loop body hands to its consumer at iteration i
      carried_key(c) the key component of a carry
    Obligations (none mentions HOW the keys are derived):
      .carried_key_descends_from_the_given_key   (induction) the only source of randomness is the caller's key
      .iteration_key_descends_from_the_given_key
      .consecutive_iterations_draw_independently  key_i, key_{i+1}: neither is an ancestor-or-equal of the other
      .all_iterations_draw_independently          key_i, key_j, i != j  (uses the proved invariants on the carried key)"""
    from theory import keys as K
    z3 = E.z3
    I = E.I
    depth = K._fns(I)[0]

    def below(t):
        return z3.Implies(z3.And(K.facts(I, [t, k.t], [depth(k.t)])), K.ancestor_or_equal(I, k.t, t))
    loop.prove_invariant(E, f"C04.{what}.carried_key_descends_from_the_given_key", lambda i, c: below(carried_key(c).t))
    i, j = E.ctx.const("i", z3.IntSort()), E.ctx.const("j", z3.IntSort())
    E.prove(f"C04.{what}.iteration_key_descends_from_the_given_key",
            E.Implies(z3.And(i >= 0, i < n), below(key_at(i))))
    E.prove(f"C04.{what}.consecutive_iterations_draw_independently",
            E.Implies(z3.And(i >= 0, i + 1 < n), K.independent(I, key_at(i), key_at(i + 1))))
    # helper invariant (derived from the code, not from the property): the carried key is loop-invariant.  It only serves
    # the all-pairs clause; the two clauses above do not depend on it
    ok = loop.prove_invariant(E, f"C04.{what}.helper.carried_key_is_loop_invariant", lambda i_, c: E.eq(carried_key(c), k))
    i, j = E.ctx.const("i", z3.IntSort()), E.ctx.const("j", z3.IntSort())      # fresh indices: unfolded with ALL invariants
    E.prove(f"C04.{what}.all_iterations_draw_independently",
            E.Implies(z3.And(i >= 0, i < n, j >= 0, j < n, i != j), K.independent(I, key_at(i), key_at(j))))


def batch_key_discipline(E, k, key_at, n, what):
    """C04 for a vmapped call: element i's consumer gets key_at(i) (z3 term).  Every element key descends from the caller's
    key, is not the caller's key itself, and two different elements draw independently (theory/keys.py)"""
    from theory import keys as K
    z3, I = E.z3, E.I
    depth = K._fns(I)[0]
    i, j = E.ctx.const("i", z3.IntSort()), E.ctx.const("j", z3.IntSort())
    ki, kj = key_at(i), key_at(j)
    E.prove(f"C04.{what}.element_keys_descend_from_the_given_key", E.Implies(
        z3.And(i >= 0, i < n, z3.And(K.facts(I, [ki, k.t], [depth(k.t)]))), K.ancestor_or_equal(I, k.t, ki)))
    E.prove(f"C04.{what}.elements_draw_independently", E.Implies(
        z3.And(i >= 0, i < n, j >= 0, j < n, i != j), K.independent(I, ki, kj)))


def pair_key_discipline(E, k, keys, what):
    """C04 for a method that hands a fixed number of keys to different consumers: pairwise independent, all from `k`"""
    from theory import keys as K
    z3, I = E.z3, E.I
    depth = K._fns(I)[0]
    for a, ka in enumerate(keys):
        E.prove(f"C04.{what}.key_{a}_descends_from_the_given_key", E.Implies(
            z3.And(K.facts(I, [ka, k.t], [depth(k.t)])), K.ancestor_or_equal(I, k.t, ka)))
        for b in range(a + 1, len(keys)):
            E.prove(f"C04.{what}.keys_{a}_and_{b}_are_independent", K.independent(I, ka, keys[b]))


def fld(E, o, name):
    """field of a repository object; an unrelated fresh opaque value when `o` is not such an object (so that a clause
    about the field is refuted instead of crashing the checker)"""
    if isinstance(o, Obj) and name in o.fields:
        return o.fields[name]
    return E.opaque("missing_field_" + name)


def is_obj(o, cls_name):
    return isinstance(o, Obj) and o.cls.name == cls_name
