"""Contracts for inference/smc.py (Importance, ImportanceK, ChangeTarget, SMCAlgorithm, ParticleCollection) and Target  (C26).

What is proved are the weights: which particles are built (constraints of the target merged with the proposal's choices),
log-weight = importance weight of the target minus the proposal's weight, the marginal-likelihood estimate, the reweighting
formula of ChangeTarget.  Unbiasedness / consistency are the importance-sampling identity over these weights (A8/A10, assumed)."""
from pyvc.task import task
from pyvc.values import NativeFn, Obj, SBool, SInt, SReal, Stacked, StarOpaque, TupleT, UVal
from .common import *
from .vmap import forall_i

SMC = "genjax._src.inference.smc"
SP = "genjax._src.inference.sp"
FUNCS = [SMC + ":Importance.run_smc", SMC + ":Importance.run_csmc", SMC + ":ImportanceK.run_smc", SMC + ":ChangeTarget.run_smc",
         SMC + ":ParticleCollection.get_log_marginal_likelihood_estimate", SMC + ":ParticleCollection.get_particle",
         SMC + ":SMCAlgorithm.estimate_normalizing_constant", SP + ":Target.importance", SP + ":Target.filter_to_unconstrained"]


def proposal_theory(E):
    """an arbitrary proposal (SampleDistribution): random_weighted -> (log q(choice), choice), estimate_logpdf -> log q"""
    c = E.ctx
    R = E.z3.RealSort()
    qw = c.fn("q_random_weighted_logw", U, U, U, R)
    qc = c.fn("q_random_weighted_choice", U, U, U, U)
    ql = c.fn("q_estimate_logpdf", U, U, U, U, R)

    def rw(I, q, key, target):
        a = (q.t, I.to_u(key), I.to_u(target))
        return (SReal(qw(*a)), UVal(qc(*a), "ChoiceMap"))

    def el(I, q, key, v, target):
        return SReal(ql(q.t, I.to_u(key), I.to_u(v), I.to_u(target)))
    E.I.abstract_methods[("SampleDistribution", "random_weighted")] = rw
    E.I.abstract_methods[("SampleDistribution", "estimate_logpdf")] = el
    return qw, qc, ql


def target_(E):
    g = G(E, "p")
    args, c = E.opaque("target_args", "tuple"), chm(E, "target_constraint")
    return E.new(SP + ":Target", p=g, args=args, constraint=c), g, args, c


def _find_apps(term, fname):
    """applications of the uninterpreted function `fname` occurring in a term"""
    import z3 as _z3
    found, seen = [], set()

    def walk(e):
        if e.get_id() in seen:
            return
        seen.add(e.get_id())
        if _z3.is_app(e) and e.decl().name() == fname:
            found.append(e)
            return
        for ch in e.children():
            walk(ch)
    walk(term)
    return found


def _keys_of_particle(E, particle_u, with_q, what):
    """(key of the target's importance run, key of the proposal's draw inside its constraint) read off a particle term
    gf_generate_tr(p, KEY, constraint, args) - the contracts do not say how the algorithm derives these keys, only (C04) that they
    are independent and come from the key it was given"""
    import z3 as _z3
    nt = _z3.simplify(particle_u)
    E.require(f"C26.{what}.particle_is_a_target_importance_trace", _z3.is_app(nt) and nt.decl().name() == "gf_generate_tr" and nt.num_args() == 4)
    k1 = None
    if with_q:
        draws = _find_apps(nt.arg(2), "q_random_weighted_choice")
        E.require(f"C26.{what}.constraint_holds_one_draw_of_the_proposal", len(draws) == 1)
        k1 = draws[0].arg(1)
    return nt.arg(1), k1


def _importance(with_q):
    tag = "proposal" if with_q else "prior"

    @task(f"smc.importance.{tag}", props=["C26", "C04"], functions=FUNCS)
    def t(E):
        z3, T = E.z3, E.I.T
        qw, qc, ql = proposal_theory(E)
        tgt, g, args, c = target_(E)
        q = E.opaque("q", "SampleDistribution") if with_q else None
        imp = E.new(SMC + ":Importance", target=tgt, q=q)
        k = key(E)
        pc = E.method(imp, "run_smc", k)
        from theory import keys as KY
        particles, lw = pc.fields["particles"], pc.fields["log_weights"]
        # the keys are read off the particle: the target's importance run and (inside its constraint) the proposal's draw -
        # whichever halves of whichever split they are
        k0, k1 = _keys_of_particle(E, E.I.to_u(particles.at(z3.IntVal(0))), with_q, f"Importance.run_smc.{tag}")
        if with_q:
            tu = E.I.to_u(tgt)
            choice, lq = qc(q.t, k1, tu), qw(q.t, k1, tu)
            merged = T.chm_or(c.t, choice)
            E.prove(f"C04.Importance.run_smc.{tag}.proposal_and_target_draw_with_independent_keys_derived_from_the_given_key", z3.And(
                KY.independent(E.I, k0, k1), KY.derived_from(E.I, k0, k.t), KY.derived_from(E.I, k1, k.t)), also=["C26"])
        else:
            merged, lq = c.t, z3.RealVal(0)
        tr = T.gen_tr(g.t, k0, merged, args.t)
        E.cover(f"smc.importance.{tag}.reached")
        E.prove(f"C26.Importance.run_smc.{tag}.particle_is_target_importance_on_constraint_merged_with_proposed_choices",
                E.eq(particles.at(z3.IntVal(0)), UVal(tr, "Trace")))
        E.prove(f"C26.Importance.run_smc.{tag}.particle_satisfies_the_target_constraints", T.agrees(T.tr_choices(tr), merged))
        E.prove(f"C26.Importance.run_smc.{tag}.log_weight_is_target_weight_minus_proposal_weight",
                E.eq(lw.at(z3.IntVal(0)), SReal(T.cdens(tr, merged) - lq)))
        E.prove(f"C26.Importance.run_smc.{tag}.one_particle", E.And((lw.n if isinstance(lw.n, int) else 0) == 1))
        lml = E.method(pc, "get_log_marginal_likelihood_estimate")
        E.prove(f"C26.ParticleCollection.lml.{tag}.single_particle_is_its_weight", E.eq(lml, lw.at(z3.IntVal(0))))
        # conditional SMC: the retained choices are the particle; proposal weight by estimate_logpdf
        retained = chm(E, "retained")
        pc2 = E.method(imp, "run_csmc", k, retained)
        k0c, _ = _keys_of_particle(E, E.I.to_u(pc2.fields["particles"].at(z3.IntVal(0))), False, f"Importance.run_csmc.{tag}")
        tr2 = T.gen_tr(g.t, k0c, T.chm_or(c.t, retained.t), args.t)
        if with_q:
            # the proposal's density estimate of the retained choices: q.estimate_logpdf(some key, retained, target)
            from pyvc.interp_ops import zreal as _zr
            est = _find_apps(z3.simplify(_zr(pc2.fields["log_weights"].at(z3.IntVal(0)))), "q_estimate_logpdf")
            E.require(f"C26.Importance.run_csmc.{tag}.uses_one_proposal_density_estimate_of_the_retained_choices", len(est) == 1)
            lq2 = ql(q.t, est[0].arg(1), retained.t, E.I.to_u(tgt))
        else:
            lq2 = z3.RealVal(0)
        E.prove(f"C26.Importance.run_csmc.{tag}.retained_particle_and_weight", E.And(
            E.eq(pc2.fields["particles"].at(z3.IntVal(0)), UVal(tr2, "Trace")),
            E.eq(pc2.fields["log_weights"].at(z3.IntVal(0)), SReal(T.cdens(tr2, T.chm_or(c.t, retained.t)) - lq2))))
        E.refutable(f"smc.importance.{tag}", E.eq(lw.at(z3.IntVal(0)), 0.0))
    return t


_importance(True)
_importance(False)


@task("smc.importance_k", props=["C26", "C04"], functions=FUNCS)
def t_importance_k(E):
    z3, T = E.z3, E.I.T
    qw, qc, ql = proposal_theory(E)
    tgt, g, args, c = target_(E)
    K = E.int("K", conc=True)
    E.assume(K.t >= 1)
    k = key(E)
    split = E.ctx.fn("split", U, z3.IntSort(), z3.IntSort(), U)
    sub = lambda i: split(split(k.t, 2, 1), K.t, i)
    for with_q in (True, False):
        tag = "proposal" if with_q else "prior"
        q = E.opaque("q", "SampleDistribution") if with_q else None
        imp = E.new(SMC + ":ImportanceK", target=tgt, q=q, k_particles=K)
        pc = E.method(imp, "run_smc", k)
        tu = E.I.to_u(tgt)

        particles, lw = pc.fields["particles"], pc.fields["log_weights"]
        # the per-particle keys are read off particle i (symbolic i): the target's importance run and the proposal's draw
        i_any = E.ctx.const("i_any_particle", z3.IntSort())
        ki, kq = _keys_of_particle(E, E.I.to_u(particles.at(i_any)), with_q, f"ImportanceK.run_smc.{tag}")
        key_imp = lambda i: z3.substitute(ki, (i_any, i))
        key_q = (lambda i: z3.substitute(kq, (i_any, i))) if with_q else None

        def spec(i, with_q=with_q, q=q):
            if with_q:
                choice, lq = qc(q.t, key_q(i), tu), qw(q.t, key_q(i), tu)
                merged = T.chm_or(c.t, choice)
            else:
                merged, lq = c.t, z3.RealVal(0)
            tr = T.gen_tr(g.t, key_imp(i), merged, args.t)
            return tr, merged, lq
        from theory import keys as KY
        i1, i2 = E.ctx.const("i_particle", z3.IntSort()), E.ctx.const("j_particle", z3.IntSort())
        E.prove(f"C04.ImportanceK.run_smc.{tag}.particles_draw_with_independent_keys_derived_from_the_given_key", z3.Implies(
            z3.And(0 <= i1, i1 < K.t, 0 <= i2, i2 < K.t, i1 != i2),
            z3.And(KY.independent(E.I, key_imp(i1), key_imp(i2)), KY.derived_from(E.I, key_imp(i1), k.t))), also=["C26"])
        E.prove(f"C26.ImportanceK.run_smc.{tag}.particle_i_and_its_weight", forall_i(E, K.t, lambda i: E.And(
            E.eq(particles.at(i), UVal(spec(i)[0], "Trace")),
            E.eq(lw.at(i), SReal(T.cdens(spec(i)[0], spec(i)[1]) - spec(i)[2])),
            T.agrees(T.tr_choices(spec(i)[0]), spec(i)[1]))))
        E.prove(f"C26.ImportanceK.run_smc.{tag}.K_particles", (lw.n if not isinstance(lw.n, int) else z3.IntVal(lw.n)) == K.t)
        R = z3.RealSort()
        lml = E.method(pc, "get_log_marginal_likelihood_estimate")
        E.prove(f"C26.ParticleCollection.lml.{tag}.is_logsumexp_minus_log_K", E.eq(lml, SReal(
            E.ctx.fn("logsumexp", U, R)(E.I.to_u(lw)) - E.ctx.fn("log", R, R)(z3.ToReal(K.t)))))
        E.refutable(f"smc.importance_k.lml.{tag}", E.eq(lml, SReal(E.ctx.fn("logsumexp", U, R)(E.I.to_u(lw)))))
    E.refutable("smc.importance_k", E.eq(lw.at(z3.IntVal(0)), 0.0))


@task("smc.importance_k.csmc", props=["C26"], functions=FUNCS + [SMC + ":ImportanceK.run_csmc"])
def t_importance_k_csmc(E):
    """conditional SMC with K particles: K-1 fresh particles as in run_smc plus the RETAINED choices as the last particle, each
    weighted by target importance weight minus proposal log-density (estimate_logpdf for the retained one).
    `stack_to_first_dim(a, b)` (append b to the stacked a) is modelled, not executed (A4: jnp.concatenate / reshape)."""
    z3, T = E.z3, E.I.T
    qw, qc, ql = proposal_theory(E)
    tgt, g, args, c = target_(E)
    K = E.int("K", conc=True)
    E.assume(K.t >= 2)
    k = key(E)
    retained = chm(E, "retained")

    def stack_to_first_dim(I, a, b):
        from theory.externals import ite
        if isinstance(a, Stacked):
            stacked_operands.append(a)
            n = a.n if not isinstance(a.n, int) else z3.IntVal(a.n)
            return Stacked(n + 1, lambda i: ite(I, i < n, a.at(i), b), tag="stack_to_first_dim")
        raise Exception(f"stack_to_first_dim model: first operand {type(a).__name__}")
    E.I.overrides[SMC + ":stack_to_first_dim"] = stack_to_first_dim
    E.ctx.notes.append("ASSUMED of stack_to_first_dim (inference/smc.py; modelled, not executed: jnp.reshape / concatenate / squeeze): "
                       "it appends its second operand to the stacked first operand")
    stacked_operands = []
    for with_q in (True, False):
        tag = "proposal" if with_q else "prior"
        q = E.opaque("q", "SampleDistribution") if with_q else None
        imp = E.new(SMC + ":ImportanceK", target=tgt, q=q, k_particles=K)
        del stacked_operands[:]
        st, pc = E.attempt(lambda: E.method(imp, "run_csmc", k, retained))
        E.require(f"C26.ImportanceK.run_csmc.{tag}.does_not_raise", st == "ok", raised=str(pc))
        particles, lw = pc.fields["particles"], pc.fields["log_weights"]
        E.prove(f"C26.ImportanceK.run_csmc.{tag}.K_particles", (lw.n if not isinstance(lw.n, int) else z3.IntVal(lw.n)) == K.t)
        last = K.t - 1
        tr_last = E.I.to_u(particles.at(last))
        # the last particle holds the retained choices (merged with the target's constraint) ...
        nt = z3.simplify(tr_last)
        E.require(f"C26.ImportanceK.run_csmc.{tag}.last_particle_is_a_target_importance_trace",
                  z3.is_app(nt) and nt.decl().name() == "gf_generate_tr" and nt.num_args() == 4)
        E.prove(f"C26.ImportanceK.run_csmc.{tag}.last_particle_is_the_retained_one",
                z3.And(nt.arg(0) == g.t, nt.arg(2) == T.chm_or(c.t, retained.t), nt.arg(3) == args.t))
        # ... and is weighted by its importance weight minus the proposal's log-density estimate of the retained choices
        w_last = lw.at(last)
        merged = T.chm_or(c.t, retained.t)
        if with_q:
            # the proposal's estimate for the retained choices: q.estimate_logpdf(some key, retained, target)
            cands = []
            seen_ = set()

            def walk(e):
                if e.get_id() in seen_:
                    return
                seen_.add(e.get_id())
                if z3.is_app(e) and e.decl().name() == "q_estimate_logpdf":
                    cands.append(e)
                for ch in e.children():
                    walk(ch)
            from pyvc.interp_ops import zreal
            walk(z3.simplify(zreal(w_last)))
            E.require(f"C26.ImportanceK.run_csmc.{tag}.retained_weight_uses_one_proposal_density_estimate", len(cands) == 1)
            E.prove(f"C26.ImportanceK.run_csmc.{tag}.retained_particle_weight", z3.And(
                cands[0].arg(0) == q.t, cands[0].arg(2) == retained.t, cands[0].arg(3) == E.I.to_u(tgt),
                E.z(E.eq(w_last, SReal(T.cdens(nt, merged) - cands[0])))))
        else:
            E.prove(f"C26.ImportanceK.run_csmc.{tag}.retained_particle_weight", E.eq(w_last, SReal(T.cdens(nt, merged))))
        # the K-1 other particles: fresh importance traces, each weighted by ITS OWN weight minus ITS OWN proposal weight

        from pyvc.interp_ops import zreal as _zr
        if with_q:
            # the operands of the two stackings: the K-1 proposed choice maps and their K-1 proposal log-weights
            E.require(f"C26.ImportanceK.run_csmc.{tag}.appends_the_retained_choices_and_their_density_to_the_fresh_ones",
                      len(stacked_operands) == 2)
            ch_stack, sc_stack = stacked_operands

            def fresh(i):
                ci, si = E.I.to_u(ch_stack.at(i)), z3.simplify(_zr(sc_stack.at(i)))
                ti = E.I.to_u(particles.at(i))
                mi = T.chm_or(c.t, ci)
                same_draw = z3.simplify(ci).num_args() == 3 and si.num_args() == 3 and \
                    z3.simplify(ci).decl().name() == "q_random_weighted_choice" and si.decl().name() == "q_random_weighted_logw"
                body = z3.And(T.tr_genfn(ti) == g.t, T.tr_args(ti) == args.t, T.agrees(T.tr_choices(ti), mi),
                              _zr(lw.at(i)) == T.cdens(ti, mi) - si,
                              (z3.simplify(ci).arg(1) == si.arg(1)) if same_draw else z3.BoolVal(False))
                return body
            E.prove(f"C26.ImportanceK.run_csmc.{tag}.fresh_particle_i_is_weighted_by_its_own_importance_weight_minus_its_own_proposal_weight",
                    forall_i(E, K.t - 1, fresh))
        else:
            E.require(f"C26.ImportanceK.run_csmc.{tag}.appends_the_retained_particle_to_the_fresh_ones", len(stacked_operands) == 2)
            sc_stack, tr_stack = stacked_operands

            def fresh(i):
                ti = E.I.to_u(particles.at(i))
                return z3.And(ti == E.I.to_u(tr_stack.at(i)), T.tr_genfn(ti) == g.t, T.tr_args(ti) == args.t,
                              T.agrees(T.tr_choices(ti), c.t), _zr(lw.at(i)) == T.cdens(ti, c.t))
            E.prove(f"C26.ImportanceK.run_csmc.{tag}.fresh_particle_i_is_weighted_by_its_own_importance_weight", forall_i(E, K.t - 1, fresh))
    E.refutable("smc.importance_k.csmc", E.eq(lw.at(z3.IntVal(0)), 0.0))


@task("smc.reciprocal_normalizing_constant", props=["C26", "C25"], functions=FUNCS + [
    SMC + ":SMCAlgorithm.estimate_reciprocal_normalizing_constant", SMC + ":ChangeTarget.run_csmc_for_normalizing_constant"])
def t_reciprocal(E):
    """estimate_reciprocal_normalizing_constant(key, target, latent choices, w) (what Marginal with an algorithm returns as its
    density estimate): conditional SMC of the algorithm with the latent choices retained; the K-1 other particles are
    re-weighted for the target (new importance weight - old score + old weight), the retained one gets  w - its score + its
    weight; the result is  retained score - (logsumexp(all K weights) - log K)."""
    z3, T = E.z3, E.I.T
    R = z3.RealSort()
    tgt, g, args, c = target_(E)
    old_tgt = E.new(SP + ":Target", p=G(E, "p_old"), args=E.opaque("old_args", "tuple"), constraint=chm(E, "old_constraint"))
    K = E.int("K", conc=True)
    E.assume(K.t >= 2)
    cf = E.ctx.fn("prev_csmc_particle", U, U, z3.IntSort(), U)
    cw = E.ctx.fn("prev_csmc_logw", U, U, z3.IntSort(), R)
    runs = []

    def run_csmc(I, s, key_, retained):
        kt, rt = I.to_u(key_), I.to_u(retained)
        runs.append((kt, rt))
        return E.new(SMC + ":ParticleCollection", particles=Stacked(K.t, lambda i: UVal(cf(kt, rt, i), "Trace")),
                     log_weights=Stacked(K.t, lambda i: SReal(cw(kt, rt, i))), is_valid=SBool(True, False))
    am = E.I.abstract_methods
    am[("SMCAlgorithm", "run_csmc")] = run_csmc
    am[("SMCAlgorithm", "get_num_particles")] = lambda I, s: K
    am[("SMCAlgorithm", "get_final_target")] = lambda I, s: old_tgt
    E.I.abstract_classes = dict(E.I.abstract_classes, SMCAlgorithm=SMC + ":SMCAlgorithm")
    stacked_operands = []

    def stack_to_first_dim(I, a, b):
        from theory.externals import ite
        if isinstance(a, Stacked):
            stacked_operands.append((a, b))
            n = a.n if not isinstance(a.n, int) else z3.IntVal(a.n)
            return Stacked(n + 1, lambda i: ite(I, i < n, a.at(i), b), tag="stack_to_first_dim")
        raise Exception(f"stack_to_first_dim model: first operand {type(a).__name__}")
    E.I.overrides[SMC + ":stack_to_first_dim"] = stack_to_first_dim
    E.ctx.notes.append("ASSUMED of stack_to_first_dim (inference/smc.py; modelled, not executed: jnp.reshape / concatenate / squeeze): "
                       "it appends its second operand to the stacked first operand")
    lse_args = []
    real_lse = E.I.ext["jax.scipy.special.logsumexp"]

    def recording_lse(I, x, *a, **kw):
        lse_args.append(x)
        return real_lse(I, x, *a, **kw)
    E.I.ext["jax.scipy.special.logsumexp"] = recording_lse
    prev = E.opaque("prev", "SMCAlgorithm")
    k = key(E)
    latent, w = chm(E, "latent_choices"), E.real("w")
    st, res = E.attempt(lambda: E.method(prev, "estimate_reciprocal_normalizing_constant", k, tgt, latent, w))
    E.require("C26.estimate_reciprocal_normalizing_constant.does_not_raise", st == "ok", raised=str(res))
    E.require("C26.estimate_reciprocal_normalizing_constant.one_conditional_run_one_evidence_sum",
              len(runs) == 1 and len(lse_args) == 1 and len(stacked_operands) == 1 and isinstance(lse_args[0], Stacked))
    rk, rr = runs[0]
    E.prove("C26.estimate_reciprocal_normalizing_constant.the_latent_choices_are_the_retained_particle", rr == latent.t)
    from pyvc.interp_ops import zreal as _zr
    allw = lse_args[0]
    old_p, old_w = (lambda i: cf(rk, rr, i)), (lambda i: cw(rk, rr, i))
    last = K.t - 1

    def others(i):
        wi = z3.simplify(_zr(allw.at(i)))
        lat_i = T.chm_filter_sel(T.tr_choices(old_p(i)), T.sel_not(T.chm_sel(old_tgt.fields["constraint"].t)))
        merged = T.chm_or(c.t, lat_i)
        # the new importance weight of particle i: gen_w(g, some key, merged, args)
        found, seen_ = [], set()

        def walk(e):
            if e.get_id() in seen_:
                return
            seen_.add(e.get_id())
            if z3.is_app(e) and e.decl().name() == "gf_generate_w":
                found.append(e)
            for ch in e.children():
                walk(ch)
        walk(wi)
        if len(found) != 1:
            return z3.BoolVal(False)
        gw = found[0]
        return z3.And(gw.arg(0) == g.t, gw.arg(2) == merged, gw.arg(3) == args.t, wi == gw - T.tr_score(old_p(i)) + old_w(i))
    E.prove("C26.estimate_reciprocal_normalizing_constant.other_particles_are_reweighted_for_the_target", z3.And(
        (allw.n if not isinstance(allw.n, int) else z3.IntVal(allw.n)) == K.t, forall_i(E, K.t - 1, others)))
    E.prove("C26.estimate_reciprocal_normalizing_constant.retained_particle_carries_the_given_weight",
            _zr(allw.at(last)) == w.t - T.tr_score(old_p(last)) + old_w(last))
    lse = E.ctx.fn("logsumexp", U, R)
    log = E.ctx.fn("log", R, R)
    E.prove("C26.estimate_reciprocal_normalizing_constant.is_retained_score_minus_log_mean_weight",
            E.eq(res, SReal(T.tr_score(old_p(last)) - (lse(E.I.to_u(allw)) - log(z3.ToReal(K.t))))), also=["C25"])
    E.refutable("smc.reciprocal_normalizing_constant", E.eq(res, 0.0))


@task("smc.change_target", props=["C26", "C04"], functions=FUNCS)
def t_change_target(E):
    """ChangeTarget reweights each particle by  new target weight - old particle score + old weight"""
    z3, T = E.z3, E.I.T
    tgt, g, args, c = target_(E)
    old_tgt = E.new(SP + ":Target", p=G(E, "p_old"), args=E.opaque("old_args", "tuple"), constraint=chm(E, "old_constraint"))
    K = E.int("K", conc=True)
    E.assume(K.t >= 1)
    pf = E.ctx.fn("prev_particle", z3.IntSort(), U)
    wf_ = E.ctx.fn("prev_logw", z3.IntSort(), z3.RealSort())
    prev_pc = E.new(SMC + ":ParticleCollection", particles=Stacked(K.t, lambda i: UVal(pf(i), "Trace")),
                    log_weights=Stacked(K.t, lambda i: SReal(wf_(i))), is_valid=SBool(True, False))
    am = E.I.abstract_methods
    am[("SMCAlgorithm", "run_smc")] = lambda I, s, key: prev_pc
    am[("SMCAlgorithm", "get_num_particles")] = lambda I, s: K
    am[("SMCAlgorithm", "get_final_target")] = lambda I, s: old_tgt
    prev = E.opaque("prev", "SMCAlgorithm")
    ct = E.new(SMC + ":ChangeTarget", prev=prev, target=tgt)
    k = key(E)
    pc = E.method(ct, "run_smc", k)
    # the key of particle i's re-targeting run is read off particle i (symbolic i), however ChangeTarget derives it
    from theory import keys as KY
    i_any = E.ctx.const("i_any_particle", z3.IntSort())
    ki, _ = _keys_of_particle(E, E.I.to_u(pc.fields["particles"].at(i_any)), False, "ChangeTarget.run_smc")
    key_at = lambda i: z3.substitute(ki, (i_any, i))
    i1, i2 = E.ctx.const("i_particle", z3.IntSort()), E.ctx.const("j_particle", z3.IntSort())
    E.prove("C04.ChangeTarget.run_smc.particles_are_retargeted_with_independent_keys_derived_from_the_given_key", z3.Implies(
        z3.And(0 <= i1, i1 < K.t, 0 <= i2, i2 < K.t, i1 != i2),
        z3.And(KY.independent(E.I, key_at(i1), key_at(i2)), KY.derived_from(E.I, key_at(i1), k.t))), also=["C26"])

    def spec(i):
        old_choices = T.tr_choices(pf(i))
        latents = T.chm_filter_sel(old_choices, T.sel_not(T.chm_sel(old_tgt.fields["constraint"].t)))
        merged = T.chm_or(c.t, latents)
        tr = T.gen_tr(g.t, key_at(i), merged, args.t)
        return tr, merged
    E.prove("C26.ChangeTarget.run_smc.reweights_by_ratio_of_new_to_old_target", forall_i(E, K.t, lambda i: E.And(
        E.eq(pc.fields["particles"].at(i), UVal(spec(i)[0], "Trace")),
        E.eq(pc.fields["log_weights"].at(i), SReal(T.cdens(spec(i)[0], spec(i)[1]) - T.tr_score(pf(i)) + wf_(i))))))
    some = chm(E, "some")
    E.prove("C26.Target.filter_to_unconstrained.removes_exactly_the_constrained_addresses", E.eq(
        E.method(tgt, "filter_to_unconstrained", some),
        UVal(T.chm_filter_sel(some.t, T.sel_not(T.chm_sel(c.t))), "ChoiceMap")))
    E.refutable("smc.change_target", E.eq(pc.fields["log_weights"].at(z3.IntVal(0)), SReal(wf_(0))))


@task("smc.sp_interface", props=["C26", "C04"], functions=FUNCS + [
    SMC + ":SMCAlgorithm.random_weighted", SMC + ":SMCAlgorithm.estimate_logpdf", SMC + ":ParticleCollection.sample_particle",
    SMC + ":ChangeTarget.run_csmc", SMC + ":ChangeTarget.get_num_particles", SMC + ":ChangeTarget.get_final_target",
    SMC + ":ParticleCollection.get_particles", SMC + ":ParticleCollection.get_log_weights"])
def t_sp_interface(E):
    """SMCAlgorithm.random_weighted / estimate_logpdf (the SampleDistribution face of an SMC algorithm), for an arbitrary
    algorithm `prev` (abstract run_smc / run_csmc, K particles, its own final target) and a target handed in at the call whose
    constraint is ANOTHER choice map than the algorithm's:  the algorithm is re-targeted (ChangeTarget), one particle is drawn
    with probability proportional to its weight, the density estimate is  particle score - log evidence estimate, and the
    returned choices are the particle's choices that the GIVEN target leaves unconstrained."""
    z3, T = E.z3, E.I.T
    R = z3.RealSort()
    tgt, g, args, c = target_(E)
    old_tgt = E.new(SP + ":Target", p=G(E, "p_old"), args=E.opaque("old_args", "tuple"), constraint=chm(E, "old_constraint"))
    K = E.int("K", conc=True)
    E.assume(K.t >= 1)
    split = E.ctx.fn("split", U, z3.IntSort(), z3.IntSort(), U)
    pf = E.ctx.fn("prev_particle", U, z3.IntSort(), U)                 # (the key run_smc was given, i)
    wf_ = E.ctx.fn("prev_logw", U, z3.IntSort(), R)
    cf = E.ctx.fn("prev_csmc_particle", U, U, z3.IntSort(), U)         # (key, retained, i)
    cw = E.ctx.fn("prev_csmc_logw", U, U, z3.IntSort(), R)
    runs = []

    def coll(particle, weight):
        return E.new(SMC + ":ParticleCollection", particles=Stacked(K.t, lambda i: UVal(particle(i), "Trace")),
                     log_weights=Stacked(K.t, lambda i: SReal(weight(i))), is_valid=SBool(True, False))

    def run_smc(I, s, key_):
        kt = I.to_u(key_)
        runs.append(("smc", kt))
        return coll(lambda i: pf(kt, i), lambda i: wf_(kt, i))

    def run_csmc(I, s, key_, retained):
        kt, rt = I.to_u(key_), I.to_u(retained)
        runs.append(("csmc", kt, rt))
        return coll(lambda i: cf(kt, rt, i), lambda i: cw(kt, rt, i))
    am = E.I.abstract_methods
    am[("SMCAlgorithm", "run_smc")] = run_smc
    am[("SMCAlgorithm", "run_csmc")] = run_csmc
    am[("SMCAlgorithm", "get_num_particles")] = lambda I, s: K
    am[("SMCAlgorithm", "get_final_target")] = lambda I, s: old_tgt
    # the categorical draw of sample_particle: an index in range, a function of (key, logits) (A10)
    cat_idx = E.ctx.fn("categorical_draw", U, U, z3.IntSort())
    draws = []

    def cat_rw(I, d, key_, logits):
        kt, lt = I.to_u(key_), I.to_u(logits)
        i = cat_idx(kt, lt)
        E.assume(z3.And(i >= 0, i < K.t))
        draws.append((kt, logits))
        return (SReal(E.ctx.fn("categorical_logp", U, U, R)(kt, lt)), SInt(i, False))
    cat = E.opaque("categorical", "Distribution")
    am[("Distribution", "random_weighted")] = cat_rw
    E.I.module_cache[(SMC, "categorical")] = cat
    # an opaque instance of SMCAlgorithm: abstract methods by the contracts above, the inherited concrete ones are the real code
    E.I.abstract_classes = dict(E.I.abstract_classes, SMCAlgorithm=SMC + ":SMCAlgorithm")
    prev = E.opaque("prev", "SMCAlgorithm")
    k = key(E)
    lse = E.ctx.fn("logsumexp", U, R)
    log = E.ctx.fn("log", R, R)
    lse_args = []
    real_lse = E.I.ext["jax.scipy.special.logsumexp"]

    def recording_lse(I, x, *a, **kw):
        lse_args.append(x)
        return real_lse(I, x, *a, **kw)
    E.I.ext["jax.scipy.special.logsumexp"] = recording_lse
    for what in ("random_weighted", "estimate_logpdf"):
        del runs[:], draws[:], lse_args[:]
        v = chm(E, "v")
        call = (lambda: E.method(prev, "random_weighted", k, tgt)) if what == "random_weighted" else \
               (lambda: E.method(prev, "estimate_logpdf", k, v, tgt))
        st, res = E.attempt(call)
        E.require(f"C26.SMCAlgorithm.{what}.does_not_raise", st == "ok", raised=str(res))
        E.require(f"C26.SMCAlgorithm.{what}.runs_the_algorithm_once_and_draws_one_particle", len(runs) == 1 and len(draws) == 1,
                  runs=len(runs), draws=len(draws))
        E.cover(f"smc.sp_interface.{what}.reached")
        run_key, draw_key = runs[0][1], draws[0][0]
        from theory import keys as KY
        E.prove(f"C04.SMCAlgorithm.{what}.the_run_and_the_particle_draw_use_independent_keys_derived_from_the_given_key", z3.And(
            KY.independent(E.I, run_key, draw_key), KY.derived_from(E.I, run_key, k.t), KY.derived_from(E.I, draw_key, k.t)), also=["C26"])
        if what == "estimate_logpdf":
            E.prove("C26.SMCAlgorithm.estimate_logpdf.the_value_is_the_retained_particle", runs[0][0] == "csmc" and runs[0][2] == v.t)
        # the re-targeted collection (ChangeTarget.run_smc / run_csmc: obligation C26.ChangeTarget.run_smc.reweights_...): particle i
        # is the given target's importance on (its constraint | the old particle's choices the OLD target leaves unconstrained)
        old_p = (lambda i: pf(run_key, i)) if what == "random_weighted" else (lambda i: cf(run_key, v.t, i))
        old_w = (lambda i: wf_(run_key, i)) if what == "random_weighted" else (lambda i: cw(run_key, v.t, i))

        def new_particle(i):
            latents = T.chm_filter_sel(T.tr_choices(old_p(i)), T.sel_not(T.chm_sel(old_tgt.fields["constraint"].t)))
            merged = T.chm_or(c.t, latents)
            tr = T.gen_tr(g.t, split(run_key, K.t, i), merged, args.t)
            return tr, SReal(T.cdens(tr, merged) - T.tr_score(old_p(i)) + old_w(i))
        # logsumexp is external (an uninterpreted function of the weight vector): the vectors the real code applied it to are
        # recorded, and must be - pointwise - the re-targeted weights (once for the draw, once for the evidence estimate)
        E.require(f"C26.SMCAlgorithm.{what}.normalises_the_draw_and_estimates_the_evidence_from_a_weight_vector",
                  len(lse_args) == 2 and all(isinstance(a_, Stacked) for a_ in lse_args), n=len(lse_args))
        for nm, a_ in zip(("particle_draw", "evidence_estimate"), lse_args):
            E.prove(f"C26.SMCAlgorithm.{what}.{nm}_uses_the_weights_of_the_retargeted_particles",
                    E.And((a_.n if not isinstance(a_.n, int) else z3.IntVal(a_.n)) == K.t,
                          forall_i(E, K.t, lambda i: E.eq(a_.at(i), new_particle(i)[1]))))
        E.prove(f"C26.SMCAlgorithm.{what}.particle_is_drawn_with_probability_proportional_to_its_weight",
                forall_i(E, K.t, lambda i: E.eq(draws[0][1].at(i), SReal(zreal_(lse_args[0].at(i)) - lse(E.I.to_u(lse_args[0]))))))
        j = cat_idx(draw_key, E.I.to_u(draws[0][1]))
        chosen = new_particle(j)[0]
        lml = lse(E.I.to_u(lse_args[1])) - log(z3.ToReal(K.t))
        lde = res[0] if what == "random_weighted" else res
        E.prove(f"C26.SMCAlgorithm.{what}.density_estimate_is_particle_score_minus_log_evidence_estimate",
                E.eq(lde, SReal(T.tr_score(chosen) - lml)))
        if what == "random_weighted":
            E.prove("C26.SMCAlgorithm.random_weighted.returns_exactly_the_choices_the_given_target_leaves_unconstrained",
                    E.eq(res[1], UVal(T.chm_filter_sel(T.tr_choices(chosen), T.sel_not(T.chm_sel(c.t))), "ChoiceMap")))
    E.refutable("smc.sp_interface", E.eq(lde, 0.0))


def zreal_(v):
    from pyvc.interp_ops import zreal
    return zreal(v)
