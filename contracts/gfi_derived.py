"""Contracts for generative_function.py (derived GFI methods, closures, IgnoreKwargs), concepts.py and requests.py
(C32, C38, C08 EmptyRequest shortcut)."""
from pyvc.task import task
from pyvc.values import Obj, SBool, SReal, TupleT, UVal
from .common import *

G_ = GF + ":"
FUNCS38 = [G_ + "GenerativeFunction.update", G_ + "GenerativeFunction.importance", G_ + "GenerativeFunction.propose",
           G_ + "Trace.edit", G_ + "Trace.update", G_ + "Trace.project", CONCEPTS + ":PrimitiveEditRequest.edit",
           REQ + ":EmptyRequest.edit", REQ + ":DiffAnnotate.edit", CONCEPTS + ":EditRequest.dimap",
           CONCEPTS + ":EditRequest.map", CONCEPTS + ":EditRequest.contramap"]
FUNCS32 = [G_ + "GenerativeFunctionClosure." + m for m in ("simulate", "generate", "assess", "project", "edit", "__call__",
                                                           "_with_kwargs")] + \
          [G_ + "IgnoreKwargs." + m for m in ("simulate", "generate", "assess", "project", "edit", "handle_kwargs")] + \
          [G_ + "GenerativeFunction.handle_kwargs", G_ + "GenerativeFunction.__call__"]


@task("derived.propose_importance", props=["C38", "C04"], functions=FUNCS38)
def t_propose(E):
    T = E.I.T
    g, k = G(E), key(E)
    a = E.opaque("args", "tuple")
    sample, score, ret = E.method(g, "propose", k, a)
    tr = UVal(T.sim(g.t, k.t, a.t), "Trace")
    E.prove("C38.GenerativeFunction.propose.is_simulate_view", E.And(
        E.eq(sample, E.method(tr, "get_choices")), E.eq(score, E.method(tr, "get_score")),
        E.eq(ret, E.method(tr, "get_retval"))))
    c = chm(E)
    t2, w = E.method(g, "importance", k, c, a)
    E.prove("C38.GenerativeFunction.importance.is_generate", E.And(
        E.eq(t2, UVal(T.gen_tr(g.t, k.t, c.t, a.t), "Trace")), E.eq(w, SReal(T.gen_w(g.t, k.t, c.t, a.t)))))
    E.refutable("derived.propose_importance", E.eq(score, 0.0))


@task("derived.trace_methods", props=["C38"], functions=FUNCS38)
def t_trace_methods(E):
    T = E.I.T
    g, k = G(E), key(E)
    tr = T.abstract_trace("tr", g=g.t)
    c = chm(E)
    ad = E.opaque("argdiffs", "tuple")
    E.assume(T.d_is_tree(ad.t))
    req = update(E, c)
    direct = E.method(g, "edit", k, tr, req, ad)
    # Trace.edit(request, argdiffs) == gen_fn.edit(trace, request, argdiffs)
    via = E.method(tr, "edit", k, req, ad)
    E.prove("C38.Trace.edit.equals_gen_fn_edit", E.eq(tuple(via), tuple(direct)))
    # default argdiffs = no_change(args)
    nc = E.call(INC + ":Diff.no_change", E.method(tr, "get_args"))
    via_d = E.method(tr, "edit", k, req)
    E.prove("C38.Trace.edit.default_argdiffs_are_no_change", E.eq(tuple(via_d), tuple(E.method(g, "edit", k, tr, req, nc))))
    # update
    upd = E.method(tr, "update", k, c, ad)
    E.prove("C38.Trace.update.equals_update_request", E.And(
        E.eq(upd[0], direct[0]), E.eq(upd[1], direct[1]), E.eq(upd[2], direct[2]),
        E.eq(upd[3], direct[3].fields["constraint"])))
    upd_d = E.method(tr, "update", k, c)
    dn = E.method(g, "edit", k, tr, update(E, c), nc)
    E.prove("C38.Trace.update.default_argdiffs_are_no_change", E.And(E.eq(upd_d[0], dn[0]), E.eq(upd_d[1], dn[1])))
    gu = E.method(g, "update", k, tr, c, ad)
    E.prove("C38.GenerativeFunction.update.equals_update_request", E.And(
        E.eq(gu[0], direct[0]), E.eq(gu[1], direct[1]), E.eq(gu[2], direct[2]), E.eq(gu[3], direct[3].fields["constraint"])))
    s = E.opaque("sel", "Selection")
    E.prove("C38.Trace.project.equals_gen_fn_project", E.eq(E.method(tr, "project", k, s), E.method(g, "project", k, tr, s)))
    E.refutable("derived.trace_methods", E.eq(upd[1], 0.0))


@task("derived.empty_request", props=["C38", "C08"], functions=FUNCS38)
def t_empty_request(E):
    T = E.I.T
    g, k = G(E), key(E)
    tr = T.abstract_trace("tr", g=g.t)
    ad = E.opaque("argdiffs", "tuple")
    E.assume(T.d_is_tree(ad.t))
    er = E.new(REQ + ":EmptyRequest")
    new, w, rd, bwd = E.method(er, "edit", k, tr, ad)
    nc = T.d_nc_all(ad.t)
    empty = E.call(CM + ":ChoiceMap.empty")
    direct = E.method(g, "edit", k, tr, update(E, empty), ad)
    E.prove("C38.EmptyRequest.identity_when_args_unchanged", E.Implies(nc, E.And(
        E.eq(new, tr), E.eq(w, 0.0), isinstance(bwd, Obj) and bwd.cls.name == "EmptyRequest" or E.Not(nc),
        E.eq(E.call(INC + ":Diff.tree_primal", rd), E.method(tr, "get_retval")), T.all_nochange(rd))))
    # (C08: in particular the return-value change tags are those of the empty Update - a changed argument may change the
    # return value of the callee, and sites downstream of an unaddressed StaticRequest site rely on that tag)
    E.prove("C38.EmptyRequest.empty_update_otherwise", E.Implies(E.Not(nc), E.eq(tuple((new, w, rd, bwd)), tuple(direct))),
            also=["C08"])
    E.refutable("derived.empty_request", E.eq(new, tr))


@task("derived.diff_annotate", props=["C38"], functions=FUNCS38)
def t_diff_annotate(E):
    T = E.I.T
    g, k = G(E), key(E)
    tr = T.abstract_trace("tr", g=g.t)
    ad = E.opaque("argdiffs", "tuple")
    E.assume(T.d_is_tree(ad.t))
    req = update(E, chm(E))
    da = E.method(req, "dimap")                      # identity maps (the defaults)
    E.prove("C38.EditRequest.dimap.builds_DiffAnnotate", isinstance(da, Obj) and da.cls.name == "DiffAnnotate")
    r1 = E.method(da, "edit", k, tr, ad)
    r0 = E.method(req, "edit", k, tr, ad)
    E.prove("C38.DiffAnnotate.identity_maps_equal_inner_request", E.eq(tuple(r1), tuple(r0)))
    f, h = E.opaque("argdiff_fn"), E.opaque("retdiff_fn")
    da2 = E.method(req, "dimap", pre=f, post=h)
    r2 = E.method(da2, "edit", k, tr, ad)
    ap = (lambda f_, x_: E.ctx.fn("apply", U, U, U)(f_, E.I.ctx.fn("u_cons", U, U, U)(x_, E.z3.Const("u_nil", U))))
    inner = E.method(req, "edit", k, tr, UVal(ap(f.t, ad.t)))
    E.prove("C38.DiffAnnotate.maps_are_applied_around_inner_request", E.And(
        E.eq(r2[0], inner[0]), E.eq(r2[1], inner[1]), E.eq(r2[3], inner[3]),
        E.eq(r2[2], UVal(ap(h.t, E.I.to_u(inner[2]))))))
    m = E.method(req, "map", h)
    cm_ = E.method(req, "contramap", f)
    E.prove("C38.EditRequest.map_contramap", E.And(
        E.eq(m.fields["retdiff_fn"], h), E.eq(cm_.fields["argdiff_fn"], f), E.eq(m.fields["request"], req)))
    E.refutable("derived.diff_annotate", E.eq(r2[2], inner[2]))


def closure(E, g, with_kwargs):
    stored = E.tuple_with_tail([E.real("s0")], "stored_rest") if False else (E.real("s0"), E.opaque("s1"))
    kw = {"scale": E.real("kw_scale")} if with_kwargs else {}
    return E.new(G_ + "GenerativeFunctionClosure", gen_fn=g, args=stored, kwargs=kw), stored, kw


def _closure_task(with_kwargs):
    tag = "kwargs" if with_kwargs else "plain"

    @task(f"closure.{tag}", props=["C32", "C01", "C02", "C03"], functions=FUNCS32)
    def t(E):
        T = E.I.T
        g, k = G(E), key(E)
        cl, stored, kw = closure(E, g, with_kwargs)
        extra = (E.real("x0"),)
        full = stored + extra
        if with_kwargs:
            target = E.method(g, "handle_kwargs")          # real GenerativeFunction.handle_kwargs -> IgnoreKwargs(g)
            targs = (full, kw)
        else:
            target, targs = g, full
        tr = E.method(cl, "simulate", k, extra)
        # a closure used as a program: its trace / weight / score laws are those of the wrapped function at stored + extra
        E.prove(f"C32.GenerativeFunctionClosure.simulate.{tag}", E.eq(tr, E.method(target, "simulate", k, targs)), also=["C01"])
        c = chm(E)
        E.prove(f"C32.GenerativeFunctionClosure.generate.{tag}",
                E.eq(tuple(E.method(cl, "generate", k, c, extra)), tuple(E.method(target, "generate", k, c, targs))),
                also=["C03"])
        E.prove(f"C32.GenerativeFunctionClosure.assess.{tag}",
                E.eq(tuple(E.method(cl, "assess", c, extra)), tuple(E.method(target, "assess", c, targs))), also=["C02"])
        E.prove(f"C32.GenerativeFunctionClosure.call.{tag}",
                E.eq(E.method(cl, "__call__", k, *extra), E.method(E.method(target, "simulate", k, targs), "get_retval")))
        old = T.abstract_trace("old", g=g.t)
        s = E.opaque("sel", "Selection")
        E.prove(f"C32.GenerativeFunctionClosure.project.{tag}",
                E.eq(E.method(cl, "project", k, old, s), E.method(g, "project", k, old, s)))
        # edit: stored arguments are prepended (tagged UnknownChange), keyword arguments merged
        xd = (diff(E, extra[0], sym_tangent(E, "x_nochange")),)
        req = update(E, c)
        got = E.attempt(lambda: E.method(cl, "edit", k, old, req, xd))
        full_diffs = E.call(INC + ":Diff.unknown_change", stored) + xd
        if with_kwargs:
            want = E.method(target, "edit", k, old, req, (full_diffs, E.call(INC + ":Diff.unknown_change", kw)))
        else:
            want = E.method(g, "edit", k, old, req, full_diffs)
        E.prove(f"C32.GenerativeFunctionClosure.edit.{tag}.no_raise", got[0] == "ok")
        if got[0] == "ok":
            E.prove(f"C32.GenerativeFunctionClosure.edit.{tag}", E.eq(tuple(got[1]), tuple(want)))
            E.prove(f"C32.GenerativeFunctionClosure.edit.{tag}.new_args_include_stored",
                    E.eq(E.method(got[1][0], "get_args"), E.method(want[0], "get_args")))
        if with_kwargs:
            # the keyword arguments are ARGUMENTS of the kwarg-handling version of the function (for a static function they reach
            # the program): its edit must see them tagged as possibly changed, like the stored positional ones.  Stated with an
            # arbitrary kwarg-handling version (the default IgnoreKwargs drops the keyword diffs, so it cannot tell)
            hk = G(E, "kwarg_handling_version")
            E.I.abstract_methods[("GenerativeFunction", "handle_kwargs")] = lambda I, s: hk
            old_hk = T.abstract_trace("old_hk", g=hk.t)
            got2 = E.attempt(lambda: E.method(cl, "edit", k, old_hk, req, xd))
            want2 = E.method(hk, "edit", k, old_hk, req, (full_diffs, E.call(INC + ":Diff.unknown_change", kw)))
            E.prove(f"C32.GenerativeFunctionClosure.edit.{tag}.keyword_arguments_are_handed_on_tagged_as_possibly_changed",
                    got2[0] == "ok" and E.eq(tuple(got2[1]), tuple(want2)))
            del E.I.abstract_methods[("GenerativeFunction", "handle_kwargs")]
        E.refutable(f"closure.{tag}", E.eq(E.method(tr, "get_score"), 0.0))
    return t


_closure_task(False)
_closure_task(True)


@task("closure.ignore_kwargs", props=["C32"], functions=FUNCS32)
def t_ignore_kwargs(E):
    T = E.I.T
    g, k = G(E), key(E)
    ik = E.new(G_ + "IgnoreKwargs", wrapped=g)
    a = E.opaque("args", "tuple")
    kw = {"z": E.real("z")}
    c = chm(E)
    E.prove("C32.IgnoreKwargs.simulate", E.eq(E.method(ik, "simulate", k, (a, kw)), E.method(g, "simulate", k, a)))
    E.prove("C32.IgnoreKwargs.generate", E.eq(tuple(E.method(ik, "generate", k, c, (a, kw))), tuple(E.method(g, "generate", k, c, a))))
    E.prove("C32.IgnoreKwargs.assess", E.eq(tuple(E.method(ik, "assess", c, (a, kw))), tuple(E.method(g, "assess", c, a))))
    old = T.abstract_trace("old", g=g.t)
    ad = E.opaque("argdiffs", "tuple")
    E.assume(T.d_is_tree(ad.t))
    req = update(E, c)
    E.prove("C32.IgnoreKwargs.edit", E.eq(tuple(E.method(ik, "edit", k, old, req, (ad, kw))), tuple(E.method(g, "edit", k, old, req, ad))))
    s = E.opaque("sel", "Selection")
    E.prove("C32.IgnoreKwargs.project", E.eq(E.method(ik, "project", k, old, s), E.method(g, "project", k, old, s)))
    cl = E.method(g, "__call__", E.real("a0"), scale=E.real("sc"))
    E.prove("C32.GenerativeFunction.call.builds_closure", isinstance(cl, Obj) and cl.cls.name == "GenerativeFunctionClosure"
            and len(cl.fields["args"]) == 1 and set(cl.fields["kwargs"]) == {"scale"})


_SUGAR = ["vmap", "repeat", "scan", "accumulate", "reduce", "iterate", "iterate_final", "masked_iterate", "masked_iterate_final",
          "mask", "or_else", "switch", "mix", "dimap", "map", "contramap"]


@task("gfi.combinator_methods", props=["C11", "C12", "C13", "C14", "C15", "C16"],
      functions=[G_ + "GenerativeFunction." + m for m in _SUGAR])
def t_combinator_methods(E):
    """the combinator METHODS of a generative function (g.vmap(in_axes=..), g.scan(n=..), g.mask(), g.switch(..), ...) build
    exactly the combinator the module-level constructors build from g and the same parameters - so everything proved of
    Vmap / Scan / MaskCombinator / Switch / Dimap and of the derived combinators holds for what the methods return"""
    g, g2, g3 = G(E), G(E, "g2"), G(E, "g3")
    n, ax, f, h = E.int("n", conc=True), E.opaque("in_axes"), E.opaque("f"), E.opaque("h")
    v = E.method(g, "vmap", in_axes=ax)
    E.prove("C11.GenerativeFunction.vmap.is_the_Vmap_of_self_with_the_given_axes",
            isinstance(v, Obj) and v.cls.name == "Vmap" and E.And(E.eq(v.fields["gen_fn"], g), E.eq(v.fields["in_axes"], ax)))
    s = E.method(g, "scan", n=n)
    E.prove("C12.GenerativeFunction.scan.is_the_Scan_of_self_with_the_given_length",
            isinstance(s, Obj) and s.cls.name == "Scan" and E.And(E.eq(s.fields["kernel_gen_fn"], g), E.eq(s.fields["length"], n)))
    m = E.method(g, "mask")
    E.prove("C14.GenerativeFunction.mask.is_the_MaskCombinator_of_self",
            isinstance(m, Obj) and m.cls.name == "MaskCombinator" and E.eq(m.fields["gen_fn"], g))
    sw = E.method(g, "switch", g2, g3)
    E.prove("C13.GenerativeFunction.switch.branches_are_self_then_the_others_in_order",
            isinstance(sw, Obj) and sw.cls.name == "Switch" and len(sw.fields["branches"]) == 3 and E.And(
                E.eq(sw, E.call(COMB + ".switch:switch", g, g2, g3)), E.eq(tuple(sw.fields["branches"]), (g, g2, g3))))
    for pid, name, mod, kw in (("C11", "repeat", ".repeat:repeat", {"n": n}), ("C12", "accumulate", ".scan:accumulate", {}),
                               ("C12", "reduce", ".scan:reduce", {}), ("C12", "iterate", ".scan:iterate", {"n": n}),
                               ("C12", "iterate_final", ".scan:iterate_final", {"n": n}),
                               ("C16", "masked_iterate", ".scan:masked_iterate", {}),
                               ("C16", "masked_iterate_final", ".scan:masked_iterate_final", {}),
                               ("C15", "dimap", ".dimap:dimap", {"pre": f, "post": h})):
        a = E.method(g, name, **kw)
        E.prove(f"{pid}.GenerativeFunction.{name}.is_the_module_level_combinator_of_self",
                E.eq(a, E.I.call(E.call(COMB + mod, **kw), [g], {})))
        E.refutable(f"gfi.combinator_methods.{name}", E.eq(a, E.I.call(E.call(COMB + mod, **kw), [g2], {})))
    E.prove("C15.GenerativeFunction.map.is_the_module_level_combinator_of_self",
            E.eq(E.method(g, "map", f), E.I.call(E.call(COMB + ".dimap:map", f=f), [g], {})))
    E.prove("C15.GenerativeFunction.contramap.is_the_module_level_combinator_of_self",
            E.eq(E.method(g, "contramap", f), E.I.call(E.call(COMB + ".dimap:contramap", f=f), [g], {})))
    E.prove("C13.GenerativeFunction.or_else.if_branch_is_self", E.eq(E.method(g, "or_else", g2), E.call(COMB + ".or_else:or_else", g, g2)))
    E.prove("C13.GenerativeFunction.mix.components_are_self_then_the_others", E.eq(E.method(g, "mix", g2), E.call(COMB + ".mixture:mix", g, g2)))
