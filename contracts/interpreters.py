"""Loop contracts for the jaxpr interpreters (C36 stateful, C09 incremental).

Both interpreters are a left fold over `jaxpr.eqns` of one loop body acting on an Environment.  The reference semantics of a
jaxpr (jax.core.eval_jaxpr) is the same fold of the reference step

    env[outvar_j] := (prim.bind(*subfuns, *read(env, invars), **params))_j        read(env, Literal l) = l.val

so `interpreter == ordinary evaluation` for EVERY number of equations follows by induction from the step contract proved here:
the REAL loop body (extracted from the real source each run by `E.loop_body`, not re-written), started in an ARBITRARY
environment (symbolic finite map) on an ARBITRARY equation (opaque primitive / params / variables; literals, drop-vars and
repeated variables included), produces exactly the reference step's environment (whole-map equality: frame included).
Equation arity is schematic: in-arity 0..2, out-arity 1..2 (the body treats variables uniformly through safe_map).
The prologue / epilogue (writing constvars and invars, reading outvars) are covered by running the REAL whole function on
jaxprs with 0, 1 and 2 equations (`*.whole_function[...]`)."""
import z3
from pyvc.task import task
from pyvc.values import NativeFn, Obj, SBool, SInt, SReal, SymMap, UVal, U
from .common import *

ST = "genjax._src.core.compiler.interpreters.stateful"
ENV = "genjax._src.core.compiler.interpreters.environment"
FUNCS36 = [ST + ":StatefulInterpreter.eval_jaxpr_stateful", ENV + ":Environment.read", ENV + ":Environment.get",
           ENV + ":Environment.write"]
FUNCS09 = [INC + ":IncrementalInterpreter.eval_jaxpr_incremental", INC + ":default_propagation_rule",
           ENV + ":Environment.read", ENV + ":Environment.get", ENV + ":Environment.write"]
AB, AU = z3.ArraySort(U, z3.BoolSort()), z3.ArraySort(U, U)


class Rec:
    """a plain record (jaxpr / equation): attribute access only"""

    def __init__(self, **kw):
        self.__dict__.update(kw)

    def pyvc_getattr(self, I, name):
        return self.__dict__[name]


class Vars:
    """jaxpr atoms: opaque values that are a Var (possibly a DropVar) or a Literal"""

    def __init__(self, E):
        self.E = E
        f = E.ctx.fn
        self.isL, self.isV, self.isD = f("is_Literal", U, z3.BoolSort()), f("is_Var", U, z3.BoolSort()), f("is_DropVar", U, z3.BoolSort())

        aa = E.I.abstract_attrs
        aa[("jaxatom", "count")] = lambda I, o: UVal(E.ctx.fn("var_count", U, U)(o.t), "value")
        aa[("jaxatom", "val")] = lambda I, o: UVal(E.ctx.fn("literal_val", U, U)(o.t))
        aa[("Primitive", "multiple_results")] = lambda I, o: SBool(E.ctx.fn("prim_multiple_results", U, z3.BoolSort())(o.t), True)

    def atom(self, name, kind="any"):
        E = self.E
        v = E.opaque(name, "jaxatom")
        E.assume(self.isL(v.t) != self.isV(v.t))                      # exactly one of Literal / Var
        E.assume(z3.Implies(self.isD(v.t), self.isV(v.t)))           # DropVar is a Var
        if kind == "var":                                             # binders (outvars, invars of the jaxpr) are Vars
            E.assume(self.isV(v.t))
        E.assume(z3.Not(E.I.T.is_None(self.val(v))))                  # a Literal holds a value, never None
        return v

    def count(self, v):
        return self.E.I.to_u(self.E.I.hashable(self.E.I.getattr(v, "count")))

    def val(self, v):
        return self.E.I.to_u(self.E.I.getattr(v, "val"))


def install_primitive(E, n_sub, m_out):
    """eqn.primitive.get_bind_params(params) -> (subfuns, bind_params): `n_sub` opaque sub-functions, opaque parameters;
    prim.bind(*args, **params): an uninterpreted pure function of (prim, args, params); for a multiple_results primitive
    its value is a list with one result per binder of the equation (well-formed equation)"""
    def gbp(I, prim, params):
        subs = [UVal(E.ctx.fn(f"bind_subfun_{j}", U, U, U)(prim.t, I.to_u(params))) for j in range(n_sub)]
        for s in subs:      # sub-functions are raw callables: their own primal, counted as unchanged (C21 plain_tree clauses)
            E.assume(z3.And(E.I.T.d_primal(s.t) == s.t, E.I.T.d_nc_all(s.t)))
        return (subs, UVal(E.ctx.fn("bind_params", U, U, U)(prim.t, I.to_u(params)), "kwargs"))
    E.I.abstract_methods[("Primitive", "get_bind_params")] = gbp

    def bind(I, prim, *args, **params):
        r = E.ctx.fn("prim_bind", U, U, U, U)(prim.t, I.to_u(tuple(args)), I.to_u(params))
        E.assume(E.I.T.d_primal(r) == r)
        if I.truth(I.getattr(prim, "multiple_results"), tag="multiple_results"):
            outs = [UVal(E.ctx.fn("result_get", U, z3.IntSort(), U)(r, z3.IntVal(j))) for j in range(m_out)]
            for o in outs:                                   # results of a primitive are plain arrays (no Diff leaves)
                E.assume(E.I.T.d_primal(o.t) == o.t)
            return outs
        return UVal(r)
    E.I.abstract_methods[("Primitive", "bind")] = bind


def equation(E, V, k_in, m_out, tag=""):
    prim = E.opaque("prim" + tag, "Primitive")
    return Rec(primitive=prim, params=E.opaque("params" + tag), invars=[V.atom(f"in{tag}_{j}") for j in range(k_in)],
               outvars=[V.atom(f"out{tag}_{j}", "var") for j in range(m_out)])


def read_spec(E, V, has, val, v):
    """reference read; precondition (well-formed jaxpr): a Var that is read is bound"""
    return z3.If(V.isL(v.t), V.val(v), z3.Select(val, V.count(v)))


def bound(E, V, has, val, v):
    """a Var that is read is bound, to a value (never None: cells hold arrays / Diff values)"""
    k = V.count(v)
    return z3.Or(V.isL(v.t), z3.And(z3.Select(has, k), z3.Not(E.I.T.is_None(z3.Select(val, k)))))


def write_spec(E, V, has, val, v, cell):
    skip = z3.Or(V.isL(v.t), V.isD(v.t))
    return (z3.If(skip, has, z3.Store(has, V.count(v), z3.BoolVal(True))), z3.If(skip, val, z3.Store(val, V.count(v), cell)))


def no_handler(E):
    return Rec(handles=NativeFn("handles", lambda I, prim: False),
               dispatch=NativeFn("dispatch", lambda I, *a, **k: E.opaque("never")))


def _stateful_step(k_in, m_out, n_sub):
    tag = f"[in={k_in},out={m_out},subfuns={n_sub}]"

    @task(f"stateful.step{tag}", props=["C36"], functions=FUNCS36)
    def t(E):
        V = Vars(E)
        install_primitive(E, n_sub, m_out)
        has0, val0 = E.ctx.const("env_dom", AB), E.ctx.const("env_val", AU)
        env = E.new(ENV + ":Environment", env=SymMap(has0, val0, None, "env"))
        eqn = equation(E, V, k_in, m_out)
        for v in eqn.invars:
            E.assume(bound(E, V, has0, val0, v))              # well-formed jaxpr: variables are defined before use
        if m_out != 1:                                        # well-formed equation: several binders => multiple_results
            E.assume(E.I.getattr(eqn.primitive, "multiple_results"))
        interp = E.new(ST + ":StatefulInterpreter")
        st, res = E.attempt(lambda: E.loop_body(ST + ":StatefulInterpreter.eval_jaxpr_stateful", dict(
            self=interp, stateful_handler=no_handler(E), env=env, eqn=eqn, jaxpr=None, consts=[], args=[])))
        E.prove(f"C36.eval_jaxpr_stateful.step_does_not_raise{tag}", st == "ok")
        if st != "ok":
            return
        E.cover("stateful.step.reached")
        after = env.fields["env"]
        # reference step
        reads = [UVal(read_spec(E, V, has0, val0, v)) for v in eqn.invars]
        T = E.I.T
        subs, params = E.I.call_method(eqn.primitive, "get_bind_params", [eqn.params], {})
        out = E.I.call_method(eqn.primitive, "bind", list(subs) + reads, {"**opaque": params})
        outs = out if isinstance(out, list) else [out]
        has, val = has0, val0
        for v, o in zip(eqn.outvars, outs):
            has, val = write_spec(E, V, has, val, v, E.I.to_u(o))
        E.prove(f"C36.eval_jaxpr_stateful.step_is_the_reference_step.domain{tag}", after.has == has)
        E.prove(f"C36.eval_jaxpr_stateful.step_is_the_reference_step.values{tag}", after.val == val)
        E.refutable(f"stateful.step{tag}", after.val == val0)
    return t


for _k, _m, _s in ((0, 1, 0), (1, 1, 0), (2, 1, 0), (2, 2, 0), (1, 2, 1), (2, 1, 1)):
    _stateful_step(_k, _m, _s)


def reference_eval(E, V, jaxpr, consts, args, lift=lambda x: x):
    """jax.core.eval_jaxpr as the fold of the reference step from the empty environment"""
    has, val = z3.K(U, z3.BoolVal(False)), z3.K(U, E.I.to_u(None))
    for v, c in list(zip(jaxpr.constvars, consts)) + list(zip(jaxpr.invars, args)):
        has, val = write_spec(E, V, has, val, v, E.I.to_u(lift(c)))
    for eqn in jaxpr.eqns:
        reads = [UVal(read_spec(E, V, has, val, v)) for v in eqn.invars]
        subs, params = E.I.call_method(eqn.primitive, "get_bind_params", [eqn.params], {})
        out = E.I.call_method(eqn.primitive, "bind", list(subs) + reads, {"**opaque": params})
        for v, o in zip(eqn.outvars, out if isinstance(out, list) else [out]):
            has, val = write_spec(E, V, has, val, v, E.I.to_u(o))
    return [read_spec(E, V, has, val, v) for v in jaxpr.outvars], has, val


def a_jaxpr(E, V, n_eqns):
    """constvars [c], invars [x], `n_eqns` unary single-result equations reading ARBITRARY atoms, outvars: two arbitrary
    atoms; well-formedness (a Var is bound before it is read) is assumed along the reference evaluation"""
    jaxpr = Rec(constvars=[V.atom("cv", "var")], invars=[V.atom("xv", "var")],
                eqns=[equation(E, V, 1, 1, tag=f"_e{j}") for j in range(n_eqns)],
                outvars=[V.atom("ov0"), V.atom("ov1")] if n_eqns == 0 else [V.atom("ov0")])
    return jaxpr


def assume_well_formed(E, V, jaxpr, consts, args, lift=lambda x: x):
    has, val = z3.K(U, z3.BoolVal(False)), z3.K(U, E.I.to_u(None))
    for v, c in list(zip(jaxpr.constvars, consts)) + list(zip(jaxpr.invars, args)):
        has, val = write_spec(E, V, has, val, v, E.I.to_u(lift(c)))
    for eqn in jaxpr.eqns:
        for v in eqn.invars:
            E.assume(bound(E, V, has, val, v))
        reads = [UVal(read_spec(E, V, has, val, v)) for v in eqn.invars]
        subs, params = E.I.call_method(eqn.primitive, "get_bind_params", [eqn.params], {})
        out = E.I.call_method(eqn.primitive, "bind", list(subs) + reads, {"**opaque": params})
        for v, o in zip(eqn.outvars, out if isinstance(out, list) else [out]):
            E.assume(z3.Not(E.I.T.is_None(E.I.to_u(o))))
            has, val = write_spec(E, V, has, val, v, E.I.to_u(o))
    for v in jaxpr.outvars:
        E.assume(bound(E, V, has, val, v))


def _stateful_whole(n_eqns):
    @task(f"stateful.whole_function[eqns={n_eqns}]", props=["C36"], functions=FUNCS36)
    def t(E):
        V = Vars(E)
        install_primitive(E, 0, 1)
        jaxpr = a_jaxpr(E, V, n_eqns)
        consts, args = [E.opaque("const0", "array")], [E.opaque("arg0", "array")]
        for x in consts + args:
            E.assume(z3.Not(E.I.T.is_None(x.t)))
        assume_well_formed(E, V, jaxpr, consts, args)
        interp = E.new(ST + ":StatefulInterpreter")
        st, res = E.attempt(lambda: E.method(interp, "eval_jaxpr_stateful", no_handler(E), jaxpr, consts, args))
        E.require(f"C36.eval_jaxpr_stateful.whole_function.does_not_raise[eqns={n_eqns}]", st == "ok", raised=str(res))
        want, _, _ = reference_eval(E, V, jaxpr, consts, args)
        E.require(f"C36.eval_jaxpr_stateful.whole_function.one_output_per_outvar[eqns={n_eqns}]",
                  isinstance(res, list) and len(res) == len(want))
        E.prove(f"C36.eval_jaxpr_stateful.whole_function.outputs_are_ordinary_evaluation[eqns={n_eqns}]",
                z3.And([E.I.to_u(r) == w for r, w in zip(res, want)]))
        E.refutable(f"stateful.whole_function[eqns={n_eqns}]", E.I.to_u(res[0]) == E.I.to_u(consts[0]))
    return t


def _incremental_step(k_in, m_out, n_sub, with_handler):
    tag = f"[in={k_in},out={m_out},subfuns={n_sub},handler={'handles-nothing' if with_handler else 'None'}]"

    @task(f"incremental.step{tag}", props=["C09", "C15"], functions=FUNCS09)
    def t(E):
        V = Vars(E)
        T = E.I.T
        install_primitive(E, n_sub, m_out)
        has0, val0 = E.ctx.const("env_dom", AB), E.ctx.const("env_val", AU)
        env = E.new(ENV + ":Environment", env=SymMap(has0, val0, None, "dual_env"))
        eqn = equation(E, V, k_in, m_out)
        for v in eqn.invars:
            E.assume(bound(E, V, has0, val0, v))
            # interpreter invariant (re-established below for every written cell): environment cells are Diff trees
            cell = z3.Select(val0, V.count(v))
            E.assume(z3.Implies(V.isV(v.t), z3.And(E.ctx.fn("is_Diff", U, z3.BoolSort())(cell), T.d_is_tree(cell))))
            # a Literal holds a raw constant: not a Diff, its own primal, counts as unchanged (C21 plain_tree clauses)
            E.assume(z3.Not(E.ctx.fn("is_Diff", U, z3.BoolSort())(V.val(v))))
            E.assume(z3.And(T.d_primal(V.val(v)) == V.val(v), T.d_nc_all(V.val(v))))
        if m_out != 1:
            E.assume(E.I.getattr(eqn.primitive, "multiple_results"))
        interp = E.new(INC + ":IncrementalInterpreter")
        st, res = E.attempt(lambda: E.loop_body(INC + ":IncrementalInterpreter.eval_jaxpr_incremental", dict(
            self=interp, stateful_handler=no_handler(E) if with_handler else None, dual_env=env, _eqn=eqn, jaxpr=None,
            consts=[], primals=[], tangents=[])))
        E.require(f"C09.eval_jaxpr_incremental.step_does_not_raise{tag}", st == "ok", raised=str(res))
        E.cover("incremental.step.reached")
        after = env.fields["env"]
        # reference: ordinary evaluation on the primal values + the two-point tag lattice
        reads = [UVal(read_spec(E, V, has0, val0, v)) for v in eqn.invars]
        primals = [E.call(D_ + "tree_primal", r) for r in reads]
        all_nc = z3.And([T.all_nochange(r) for r in reads]) if reads else z3.BoolVal(True)
        subs, params = E.I.call_method(eqn.primitive, "get_bind_params", [eqn.params], {})
        out = E.I.call_method(eqn.primitive, "bind", list(subs) + primals, {"**opaque": params})
        outs = out if isinstance(out, list) else [out]
        # what C09 demands of the step (NOT the exact tag: a more conservative rule would still satisfy the property):
        #   domain: exactly the binders that are neither literals nor drop-vars are (re)bound;  frame: no other cell changes;
        #   the cell finally bound to a binder is a Diff tree whose primal is that result of the reference step, and it is
        #   tagged NoChange only if every input was (or the result has no leaves)
        has = has0
        skip = [z3.Or(V.isL(v.t), V.isD(v.t)) for v in eqn.outvars]
        cnt = [V.count(v) for v in eqn.outvars]
        for s_, c_ in zip(skip, cnt):
            has = z3.If(s_, has, z3.Store(has, c_, z3.BoolVal(True)))
        E.prove(f"C09.eval_jaxpr_incremental.step.binds_exactly_the_equation_binders{tag}", after.has == has)
        kf = E.ctx.const("any_key", U)
        written = z3.Or([z3.And(z3.Not(s_), c_ == kf) for s_, c_ in zip(skip, cnt)])
        E.prove(f"C09.eval_jaxpr_incremental.step.frame_no_other_cell_changes{tag}",
                z3.Implies(z3.Not(written), z3.Select(after.val, kf) == z3.Select(val0, kf)))
        for j, o in enumerate(outs):
            later = z3.Or([z3.And(z3.Not(skip[i]), cnt[i] == cnt[j]) for i in range(j + 1, len(outs))]) \
                if j + 1 < len(outs) else z3.BoolVal(False)
            is_last = z3.And(z3.Not(skip[j]), z3.Not(later))
            cell = z3.Select(after.val, cnt[j])
            ou = E.I.to_u(o)
            noleaves = E.ctx.fn("has_no_leaves", U, z3.BoolSort())(ou)
            E.prove(f"C09.eval_jaxpr_incremental.step.primal_of_output_is_bind_of_input_primals{tag}[{j}]",
                    z3.Implies(is_last, T.d_primal(cell) == ou))
            E.prove(f"C09.eval_jaxpr_incremental.step.written_cell_is_a_diff_tree{tag}[{j}]", z3.Implies(is_last, T.d_is_tree(cell)))
            E.prove(f"C09.eval_jaxpr_incremental.step.output_nochange_only_if_every_input_nochange{tag}[{j}]",
                    z3.Implies(z3.And(is_last, T.d_nc_all(cell)), z3.Or(all_nc, noleaves)),
                    also=["C15"])       # (C15: Dimap.edit tags pre(args) and post(...) by running them through this interpreter)
        E.refutable(f"incremental.step{tag}", z3.Select(after.val, cnt[0]) == z3.Select(val0, cnt[0]))
    return t


D_ = INC + ":Diff."
for _k, _m, _s, _h in ((0, 1, 0, False), (1, 1, 0, False), (2, 1, 0, True), (2, 2, 0, False), (1, 1, 1, True)):
    _incremental_step(_k, _m, _s, _h)


ISP = "genjax._src.core.compiler.initial_style_primitive"


@task("initial_style.bind", props=["C36"], functions=[ISP + ":initial_style_bind"])
def t_initial_style(E):
    """an initial-style primitive evaluates to its wrapped function: the `impl` handed to prim.bind, applied to the operands
    the primitive is bound to (with the parameters it is bound with), is eval_jaxpr(staged f, consts, flat args), and the
    wrapper returns prim.bind's outputs unflattened with f's output tree"""
    I = E.I
    f = E.opaque("f", "callable")
    consts = [E.opaque("lit0", "array"), E.opaque("lit1", "array")]
    flat_args = [E.opaque("flat0", "array")]
    inner = Rec(debug_info=E.opaque("debug_info"))
    closed = Rec(jaxpr=inner, literals=consts)
    in_tree, out_tree_v = E.opaque("in_tree"), E.opaque("out_tree_value")
    out_tree = NativeFn("out_tree", lambda I_: out_tree_v)
    user_arg = E.opaque("x")
    I.ext["genjax._src.core.compiler.staging.stage"] = lambda I_, fn: NativeFn(
        "staged", lambda I__, *a, **k: (closed, (flat_args, in_tree, out_tree)))
    I.overrides["genjax._src.core.compiler.staging:stage"] = lambda I_, fn: NativeFn(
        "staged", lambda I__, *a, **k: (closed, (flat_args, in_tree, out_tree)))
    ev = E.ctx.fn("eval_jaxpr", U, U, U, U)
    I.ext["jax.core.eval_jaxpr"] = lambda I_, jp, cs, *a: UVal(ev(I_.to_u(jp.debug_info), I_.to_u(list(cs)), I_.to_u(list(a))))
    I.ext["itertools.chain"] = lambda I_, *xs: [y for x in xs for y in I_.iterate(x)]
    I.ext["jax.util.split_list"] = lambda I_, xs, ns: [list(xs)[: ns[0]], list(xs)[ns[0]:]]
    I.ext["jax.tree_util.tree_unflatten"] = lambda I_, tree, leaves: UVal(
        E.ctx.fn("tree_unflatten", U, U, U)(I_.to_u(tree), I_.to_u(leaves)))
    seen = {}

    def bind(I_, prim, *args, **params):
        seen["args"], seen["params"] = list(args), dict(params)
        seen["outs"] = E.opaque("prim_outputs")
        return seen["outs"]
    I.abstract_methods[("Primitive", "bind")] = bind
    prim = E.opaque("prim", "Primitive")
    wrapped = E.call(ISP + ":initial_style_bind", prim, extra=E.opaque("extra_param"))
    wrapped = I.call(wrapped, [f], {})
    res = I.call(wrapped, [user_arg], {})
    E.require("C36.initial_style_bind.binds_the_primitive", "args" in seen)
    args, params = seen["args"], seen["params"]
    E.prove("C36.initial_style_bind.operands_are_consts_then_flat_args", E.eq(args, consts + flat_args))
    E.require("C36.initial_style_bind.passes_impl_and_num_consts", "impl" in params and "num_consts" in params)
    # fun_impl (InitialStylePrimitive.__init__): impl(*args, **params)
    out = I.call(params["impl"], list(args), dict(params))
    E.prove("C36.initial_style_bind.impl_evaluates_the_wrapped_function",
            I.to_u(out) == ev(I.to_u(inner.debug_info), I.to_u(consts), I.to_u(flat_args)))
    # an interpreter re-binds the primitive with the values ITS environment holds for the operands (not the tracers seen at
    # staging time): the impl must evaluate the staged function on the operands it is HANDED, constants included
    consts2 = [E.opaque("rebound_lit0", "array"), E.opaque("rebound_lit1", "array")]
    args2 = [E.opaque("rebound_flat0", "array")]
    out2 = I.call(params["impl"], consts2 + args2, dict(params))
    E.prove("C36.initial_style_bind.impl_uses_the_operands_it_is_handed_constants_included",
            I.to_u(out2) == ev(I.to_u(inner.debug_info), I.to_u(consts2), I.to_u(args2)))
    E.prove("C36.initial_style_bind.result_is_unflattened_with_the_output_tree",
            I.to_u(res) == E.ctx.fn("tree_unflatten", U, U, U)(out_tree_v.t, I.to_u(seen["outs"])))
    E.prove("C36.initial_style_bind.user_parameters_are_forwarded", "extra" in params)
    E.refutable("initial_style.bind", I.to_u(out) == ev(I.to_u(inner.debug_info), I.to_u(flat_args), I.to_u(consts)))


@task("staging.stage", props=["C36", "C09"], functions=[STAGING + ":stage", STAGING + ":get_shaped_aval", STAGING + ":cached_stage_dynamic"])
def t_stage(E):
    """stage(f)(*args, **kwargs): the function is traced to a jaxpr AT JAX'S OWN ABSTRACT VALUES of the flattened arguments
    (jax.core.get_aval: shape, dtype and weak type - so that dtype promotion inside the staged program is the one ordinary
    evaluation performs), the closed jaxpr carries the constants the trace produced, and the flat arguments / input tree /
    output tree are returned for the interpreters (assumption A11 covers trace_to_jaxpr_dynamic itself)"""
    I = E.I
    seen = {}
    f = E.opaque("f", "callable")
    x0, x1 = E.opaque("arg0"), E.opaque("arg1")
    flat = [E.opaque("leaf0", "array"), E.opaque("leaf1", "array"), E.opaque("leaf2", "array")]
    in_tree, out_tree = E.opaque("in_tree"), E.opaque("out_tree")
    aval = E.ctx.fn("jax_get_aval", U, U)
    # (an abstract value is an external object: its methods - strip_weak_type, update, ... - are uninterpreted pure functions)
    I.ext["jax.core.get_aval"] = lambda I_, x: UVal(aval(I_.to_u(x)), "extobj")
    I.ext["jax.api_util.debug_info"] = lambda I_, *a, **k: E.opaque("debug_info")

    def wrap_init(I_, fn, params=None, debug_info=None):
        seen["wrapped"], seen["params"] = fn, params
        return E.opaque("wrapped_fun")
    I.ext["jax.extend.linear_util.wrap_init"] = wrap_init
    I.ext["jax.extend.linear_util.cache"] = lambda I_, fn: fn

    def tree_flatten(I_, tree):
        seen["flattened"] = tree
        return (list(flat), in_tree)
    I.ext["jax.tree_util.tree_flatten"] = tree_flatten

    def flatten_fun(I_, fun, tree):
        seen["flat_fun_of"] = (fun, tree)
        return (E.opaque("flat_fun"), out_tree)
    I.overrides[STAGING + ":_flatten_fun_nokwargs"] = flatten_fun
    jaxpr_u, consts_u = E.opaque("traced_jaxpr"), E.opaque("traced_consts")

    def trace(I_, flat_fun, in_avals):
        seen["avals"] = in_avals
        seen["traced"] = flat_fun
        return (jaxpr_u, E.opaque("out_avals"), consts_u)
    I.ext["jax.interpreters.partial_eval.trace_to_jaxpr_dynamic"] = trace
    I.ext["jax.extend.core.ClosedJaxpr"] = lambda I_, jp, cs: Rec(jaxpr=jp, consts=cs, literals=cs)
    staged = E.call(STAGING + ":stage", f)
    res = I.call(staged, [x0, x1], {"flag": True})
    E.require("C36.stage.traces_the_function_once", "avals" in seen and "wrapped" in seen and "flattened" in seen)
    E.prove("C36.stage.traces_the_given_function_with_its_keyword_arguments", seen["wrapped"] is f and seen["params"] == {"flag": True})
    E.prove("C36.stage.flattens_the_positional_arguments", tuple(seen["flattened"]) == (x0, x1))
    avs = list(I.iterate(seen["avals"]))
    E.require("C36.stage.one_abstract_value_per_flat_argument", len(avs) == len(flat))
    E.prove("C36.stage.arguments_are_traced_at_jax_own_abstract_values_weak_types_included",
            E.z3.And([I.to_u(a) == aval(x.t) for a, x in zip(avs, flat)]), also=["C09"])
    typed, (fa, it_, ot_) = res
    E.prove("C36.stage.closed_jaxpr_is_the_trace_with_its_constants", E.And(
        isinstance(typed, Rec), I.to_u(typed.jaxpr) == jaxpr_u.t, I.to_u(typed.consts) == consts_u.t))
    E.prove("C36.stage.returns_flat_arguments_and_trees", E.And(
        E.eq(list(fa), flat), I.to_u(it_) == in_tree.t, I.to_u(ot_) == out_tree.t))
    E.refutable("staging.stage", I.to_u(avs[0]) == aval(flat[1].t))


def _incremental_whole(n_eqns):
    @task(f"incremental.whole_function[eqns={n_eqns}]", props=["C09"], functions=FUNCS09)
    def t(E):
        """constants enter tagged NoChange, inputs with the caller's tags; outputs: primal = ordinary evaluation, and an output
        tagged NoChange can only have been computed from NoChange inputs"""
        V = Vars(E)
        T = E.I.T
        install_primitive(E, 0, 1)
        jaxpr = a_jaxpr(E, V, n_eqns)
        consts, args = [E.opaque("const0", "array")], [E.opaque("arg0", "array")]
        for x in consts + args:
            E.assume(z3.Not(T.is_None(x.t)))
        tg = sym_tangent(E, "arg0_nochange")
        for a in jaxpr.outvars + [v for e in jaxpr.eqns for v in e.invars]:
            E.assume(z3.Not(E.ctx.fn("is_Diff", U, z3.BoolSort())(V.val(a))))
            E.assume(z3.And(T.d_primal(V.val(a)) == V.val(a), T.d_nc_all(V.val(a))))
        assume_well_formed(E, V, jaxpr, consts, args)
        interp = E.new(INC + ":IncrementalInterpreter")
        st, res = E.attempt(lambda: E.method(interp, "eval_jaxpr_incremental", None, jaxpr, consts, args, [tg]))
        E.require(f"C09.eval_jaxpr_incremental.whole_function.does_not_raise[eqns={n_eqns}]", st == "ok", raised=str(res))
        want, _, _ = reference_eval(E, V, jaxpr, consts, args)
        E.require(f"C09.eval_jaxpr_incremental.whole_function.one_output_per_outvar[eqns={n_eqns}]",
                  isinstance(res, list) and len(res) == len(want))
        E.prove(f"C09.eval_jaxpr_incremental.whole_function.primal_outputs_are_ordinary_evaluation[eqns={n_eqns}]",
                z3.And([E.I.to_u(E.call(D_ + "tree_primal", r)) == w for r, w in zip(res, want)]))
        # the same function evaluated with ANOTHER value of the changed input gives the same value for every output that
        # is tagged NoChange (soundness of the tags, stated relationally)
        if tg.cls.name == "_UnknownChange":
            args2 = [E.opaque("arg0_other", "array")]
            E.assume(z3.Not(T.is_None(args2[0].t)))
            assume_well_formed(E, V, jaxpr, consts, args2)
            want2, _, _ = reference_eval(E, V, jaxpr, consts, args2)
            for j, (r, w, w2) in enumerate(zip(res, want, want2)):
                noleaves = E.ctx.fn("has_no_leaves", U, z3.BoolSort())(w)
                E.prove(f"C09.eval_jaxpr_incremental.whole_function.nochange_output_is_independent_of_changed_inputs[eqns={n_eqns}][{j}]",
                        z3.Implies(z3.And(T.all_nochange(r), z3.Not(noleaves)), w == w2))
        E.refutable(f"incremental.whole_function[eqns={n_eqns}]", E.I.to_u(E.call(D_ + "tree_primal", res[0])) == E.I.to_u(consts[0]))
    return t


for _n in (0, 1):
    _incremental_whole(_n)


for _n in (0, 1):        # prologue + epilogue (0) and the loop wiring (1); more equations are the fold of the step contract
    _stateful_whole(_n)
