"""Contracts for genjax._src.core.compiler.staging: FlagOp, tree_choose, multi_switch  (C20, C23, C13 helpers)."""
from pyvc.task import task
from pyvc.values import Obj, SBool, SInt, SReal, UVal
from pyvc.interp_ops import zint, zbool, conc_of
from .common import *

S = STAGING
FUNCS = [S + ":FlagOp.and_", S + ":FlagOp.or_", S + ":FlagOp.xor_", S + ":FlagOp.not_", S + ":FlagOp.where",
         S + ":FlagOp.cond", S + ":FlagOp.concrete_true", S + ":FlagOp.concrete_false", S + ":FlagOp.is_scalar"]


def truth(E, v):
    return v if isinstance(v, bool) else v.t


def conc(E, v):
    return True if isinstance(v, bool) else v.conc


@task("staging.flagop", props=["C20", "C23", "C19"], functions=FUNCS)
def t_flagop(E):
    z3 = E.z3
    f, g = E.flag("f"), E.flag("g")
    for name, op in (("and_", z3.And), ("or_", z3.Or), ("xor_", z3.Xor)):
        r = E.call(S + ":FlagOp." + name, f, g)
        E.prove(f"C20.FlagOp.{name}.logic", E.z(truth(E, r)) == op(f.t, g.t))
        # C23: concrete iff both operands are concrete Python bools (what jit changes), value identical either way
        E.prove(f"C23.FlagOp.{name}.concreteness", E.z(conc(E, r)) == z3.And(f.conc, g.conc))
    r = E.call(S + ":FlagOp.not_", f)
    E.prove("C20.FlagOp.not_.logic", E.z(truth(E, r)) == z3.Not(f.t))
    E.prove("C23.FlagOp.not_.concreteness", E.z(conc(E, r)) == f.conc)
    E.prove("C20.FlagOp.concrete_true", E.z(E.call(S + ":FlagOp.concrete_true", f)) == z3.And(f.conc, f.t))
    E.prove("C20.FlagOp.concrete_false", E.z(E.call(S + ":FlagOp.concrete_false", f)) == z3.And(f.conc, z3.Not(f.t)))
    a, b = E.real("a"), E.real("b")
    r = E.call(S + ":FlagOp.where", f, a, b)
    E.prove("C20.FlagOp.where.select", E.eq(r, SReal(z3.If(f.t, a.t, b.t))))
    E.refutable("staging.flagop", E.eq(r, a))
    E.prove("C20.FlagOp.is_scalar", E.z(E.call(S + ":FlagOp.is_scalar", f)) == True)  # noqa: E712  (scalar flags)


@task("staging.flagop.cond", props=["C20", "C23"], functions=FUNCS)
def t_flagop_cond(E):
    z3 = E.z3
    f = E.flag("f")
    x = E.real("x")
    tf = E.opaque("tf")
    ff = E.opaque("ff")
    r = E.call(S + ":FlagOp.cond", f, tf, ff, x)
    ap = (lambda f_, x_: E.ctx.fn("apply", U, U, U)(f_, E.I.ctx.fn("u_cons", U, U, U)(x_, E.z3.Const("u_nil", U))))
    xt = E.I.to_u(x)
    E.prove("C20.FlagOp.cond.branch", E.eq(r, UVal(z3.If(f.t, ap(tf.t, xt), ap(ff.t, xt)))))
    E.refutable("staging.flagop.cond", E.eq(r, UVal(ap(tf.t, xt))))


def _choose_task(n):
    @task(f"staging.tree_choose.n{n}", props=["C20", "C23", "C13"], functions=[S + ":tree_choose"])
    def t(E, n=n):
        z3 = E.z3
        idx = E.int("idx")
        # heterogeneous pytrees: (real, (real, flag)) per choice
        vs = [(E.real(f"a{k}"), {"u": E.real(f"b{k}"), "v": E.flag(f"c{k}", conc=False)}) for k in range(n)]
        r = E.call(S + ":tree_choose", idx, vs)
        m = idx.t % n
        for k in range(n):
            E.prove(f"C20.tree_choose.n{n}.selects_idx_mod_n[{k}]", E.Implies(m == k, E.And(
                E.eq(r[0], vs[k][0]), E.eq(r[1]["u"], vs[k][1]["u"]), E.eq(r[1]["v"], vs[k][1]["v"]))))
        # C23: the SAME index-free specification (element idx mod n) is proved on the Python-int arm and on the array arm
        E.prove(f"C23.tree_choose.n{n}.concrete_and_traced_index_agree", E.And(*[E.Implies(m == k, E.And(
            E.eq(r[0], vs[k][0]), E.eq(r[1]["u"], vs[k][1]["u"]), E.eq(r[1]["v"], vs[k][1]["v"]))) for k in range(n)]))
        if n > 1:
            E.refutable(f"staging.tree_choose.n{n}", E.eq(r[0], vs[0][0]))
    return t


for _n in (1, 2, 3, 4):
    _choose_task(_n)


def _mswitch_task(n):
    @task(f"staging.multi_switch.n{n}", props=["C20", "C13", "C23"], functions=[S + ":multi_switch", S + ":to_shape_fn"])
    def t(E, n=n):
        z3 = E.z3
        idx = E.int("idx")           # a concrete Python int (eager) or a traced / array index: both explored
        fs = [E.opaque(f"f{k}") for k in range(n)]
        xs = [(E.real(f"x{k}"),) for k in range(n)]
        r = E.call(S + ":multi_switch", idx, fs, xs)
        ap = (lambda f_, x_: E.ctx.fn("apply", U, U, U)(f_, E.I.ctx.fn("u_cons", U, U, U)(x_, E.z3.Const("u_nil", U))))
        zl = E.ctx.fn("zeros_like", U, U)
        clamp = z3.If(idx.t < 0, 0, z3.If(idx.t > n - 1, n - 1, idx.t))
        E.prove(f"C20.multi_switch.n{n}.length", len(r) == n)
        for j in range(n):
            out = ap(fs[j].t, E.I.to_u(xs[j][0]))
            E.prove(f"C20.multi_switch.n{n}.slot[{j}]",
                    E.eq(r[j], UVal(z3.If(clamp == j, out, zl(out)))), also=["C23"])
        if n > 1:
            E.refutable(f"staging.multi_switch.n{n}", E.eq(xs[0][0], xs[1][0]))        # (a canary no code under check can make true)
    return t


for _n in (1, 2, 3):
    _mswitch_task(_n)
