"""Contract for inference/requests/hmc.py: HMC.edit  (C28).

Under contract: the real HMC.edit including its `kernel` closure (the scan body).  Abstracted (uninterpreted, assumption A7
and listed in the evidence): selection_gradient (positions q = selected float choices, gradient of the score wrt q),
sample_momenta / assess_momenta (standard normal momenta and their log-density), the leafwise arithmetic of
`jtu.tree_map(lambda v, g: v + c * g, ...)` on opaque trees (a pure function of the lambda and the trees).
What is proved is the STRUCTURE of the leapfrog integrator: which gradient enters which half-kick, that the position update
uses the half-kicked momenta, that the trace is updated with exactly the new positions, and the MH log ratio."""
from pyvc.task import task
from pyvc.values import NativeFn, Obj, SBool, SInt, SReal, Stacked, TupleT, UVal
from pyvc.interp_ops import zint
from .common import *
from .vmap import forall_i

H = "genjax._src.inference.requests.hmc"
FUNCS = [H + ":HMC.edit", H + ":SafeHMC"]


def install_abstractions(E):
    I, c = E.I, E.ctx
    R = E.z3.RealSort()
    vals_f = c.fn("hmc_positions", U, U, U)            # (trace, selection)
    grad_f = c.fn("hmc_score_gradient", U, U, U, U)    # (trace, selection, argdiffs)
    mom_f = c.fn("hmc_initial_momenta", U, U, U)
    mlp_f = c.fn("momenta_logpdf", U, R, R)

    def selection_gradient(I, selection, trace, argdiffs):
        return (UVal(vals_f(I.to_u(trace), I.to_u(selection)), "ChoiceMap"),
                UVal(grad_f(I.to_u(trace), I.to_u(selection), I.to_u(argdiffs)), "ChoiceMap"))

    def sample_momenta(I, key, grads):
        m = mom_f(I.to_u(key), I.to_u(grads))
        return (UVal(m, "ChoiceMap"), SReal(mlp_f(m, E.z3.RealVal(1))))

    def assess_momenta(I, momenta, mul=1.0):
        from pyvc.interp_ops import zreal
        return SReal(mlp_f(I.to_u(momenta), zreal(mul)))
    I.overrides[H + ":selection_gradient"] = selection_gradient
    I.overrides[H + ":sample_momenta"] = sample_momenta
    I.overrides[H + ":assess_momenta"] = assess_momenta
    return vals_f, grad_f, mom_f, mlp_f


@task("hmc.edit", props=["C28"], functions=FUNCS)
def t_hmc(E):
    z3, T = E.z3, E.I.T
    vals_f, grad_f, mom_f, mlp_f = install_abstractions(E)
    model = G(E, "model")
    tr0 = T.abstract_trace("tr", g=model.t)
    sel = E.opaque("sel", "Selection")
    eps = E.real("eps")
    L = E.int("L", conc=True)
    E.assume(L.t >= 1)
    hmc = E.new(H + ":HMC", selection=sel, eps=eps, L=L)
    k = key(E)
    ad = E.call(INC + ":Diff.no_change", E.method(tr0, "get_args"))
    new, alpha, rd, bwd = E.method(hmc, "edit", k, tr0, ad)
    loop = [s for s in E.I.scans if s.shape is not None][0]
    split = E.ctx.fn("split", U, z3.IntSort(), z3.IntSort(), U)
    k_loop, k_mom = split(k.t, 2, 0), split(k.t, 2, 1)
    adu, selu = E.I.to_u(ad), sel.t
    grad_at = lambda t: grad_f(t, selu, adu)
    # leafwise arithmetic on opaque trees: the same lambdas as in the source, applied by the real tree_map
    half_eps = E.I.binop("Div", eps, 2)
    kick = lambda p, g: E.call("jax.tree_util:tree_map", None) if False else None
    tm2 = E.ctx.fn("tree_map2", U, U, U, U)

    loop.prove_invariant(E, "C28.HMC.kernel.trace_stays_a_trace_of_the_model",
                         lambda i, c: T.tr_genfn(E.I.to_u(c[0])) == model.t)
    # invariant: the gradient carried into iteration i is the gradient at the CURRENT trace (position)
    loop.prove_invariant(E, "C28.HMC.kernel.carried_gradient_is_gradient_at_current_position",
                         lambda i, c: E.eq(c[2], UVal(grad_at(E.I.to_u(c[0])), "ChoiceMap")))
    E.cover("hmc.edit.reached")
    fold = E.ctx.fn("fold_in", U, z3.IntSort(), U)

    def leapfrog(i):
        tr_i, q_i, g_i, p_i = loop.carry_at(i)
        loop.unfold(i)
        tr_n, q_n, g_n, p_n = loop.carry_at(i + 1)
        # re-execute the documented scheme with the real lambdas through the engine's tree_map model
        raw = lambda x: UVal(x.t) if isinstance(x, UVal) else x        # leaf arithmetic, not ChoiceMap.__add__ (= merge)
        add, mul = (lambda a, b: E.I.binop("Add", raw(a), raw(b))), (lambda a, b: E.I.binop("Mult", raw(a), raw(b)))
        half = E.I.binop("Div", eps, 2)
        kick_ = lambda p, g: UVal(add(p, mul(half, g)).t, "ChoiceMap")        # p + (eps/2) * g   (leafwise, lifted)
        drift = lambda q, p: UVal(add(q, mul(eps, p)).t, "ChoiceMap")          # q + eps * p
        p_half = kick_(p_i, UVal(grad_at(tr_i.t), "ChoiceMap"))
        q_next = drift(q_i, p_half)
        req = update(E, q_next)
        new_key = fold(k_loop, i + 1)
        tr_next = T.edit_tr(model.t, new_key, tr_i.t, E.I.to_u(req), adu)
        q_read = vals_f(tr_next, selu)
        p_next = kick_(p_half, UVal(grad_at(tr_next), "ChoiceMap"))
        return E.And(E.eq(tr_n, UVal(tr_next, "Trace")), E.eq(q_n, UVal(q_read, "ChoiceMap")), E.eq(p_n, p_next))
    E.prove("C28.HMC.kernel.one_iteration_is_one_leapfrog_step_with_gradients_at_the_current_positions",
            forall_i(E, L.t, leapfrog))
    E.prove("C28.HMC.initial_state", E.And(
        E.eq(loop.carry_at(z3.IntVal(0))[0], tr0), E.eq(loop.carry_at(z3.IntVal(0))[1], UVal(vals_f(tr0.t, selu), "ChoiceMap")),
        E.eq(loop.carry_at(z3.IntVal(0))[3], UVal(mom_f(k_mom, grad_at(tr0.t)), "ChoiceMap"))))
    final_tr, _, _, final_p = loop.carry_at(L.t)
    p0 = mom_f(k_mom, grad_at(tr0.t))
    E.prove("C28.HMC.returns_final_trace", E.eq(new, final_tr))
    E.prove("C28.HMC.alpha_is_H_start_minus_H_end", E.eq(alpha, SReal(
        T.tr_score(final_tr.t) - T.tr_score(tr0.t) + mlp_f(final_p.t, z3.RealVal(-1)) - mlp_f(p0, z3.RealVal(1)))))
    E.prove("C28.HMC.bwd_request_is_hmc_with_same_parameters", E.And(
        is_obj(bwd, "HMC"), E.eq(fld(E, bwd, "eps"), eps), E.eq(fld(E, bwd, "L"), L), E.eq(fld(E, bwd, "selection"), sel)))
    E.refutable("hmc.edit", E.eq(alpha, 0.0))
