"""Contract for inference/requests/hmc.py: HMC.edit  (C28).

Under contract: the real HMC.edit including its `kernel` closure (the scan body).  In the task `hmc.edit` the helpers are called
through their contracts (modular verification): selection_gradient (positions q = selected choices, gradient of the score wrt
q), sample_momenta / assess_momenta (standard normal momenta and their log-density); the helpers' own bodies are verified by the
tasks hmc.kinetic_energy, hmc.sample_momenta, hmc.selection_gradient below.  Trusted: jax.grad (A7), tfd.Normal (A10), and the
leafwise arithmetic of `jtu.tree_map(lambda v, g: v + c * g, ...)` on opaque trees (a pure function of the lambda and the trees).
What is proved is the STRUCTURE of the leapfrog integrator: which gradient enters which half-kick, that the position update
uses the half-kicked momenta, that the trace is updated with exactly the new positions, and the MH log ratio."""
from pyvc.task import task
from pyvc.values import NativeFn, Obj, SBool, SInt, SReal, Stacked, TupleT, UVal
from pyvc.interp_ops import zint
from .common import *
from .vmap import forall_i
from .choice_map import obs

H = "genjax._src.inference.requests.hmc"
FUNCS = [H + ":HMC.edit", H + ":SafeHMC"]


def install_abstractions(E):
    I, c = E.I, E.ctx
    R = E.z3.RealSort()
    vals_f = c.fn("hmc_positions", U, U, U)            # (trace, selection)
    grad_f = c.fn("hmc_score_gradient", U, U, U, U)    # (trace, selection, argdiffs)
    mom_f = c.fn("hmc_initial_momenta", U, U, U)
    mlp_f = c.fn("momenta_logpdf", U, R, R)

    def selection_gradient(I, selection, trace, argdiffs):
        return (UVal(vals_f(I.to_u(trace), I.to_u(selection)), "ChoiceMap"),
                UVal(grad_f(I.to_u(trace), I.to_u(selection), I.to_u(argdiffs)), "ChoiceMap"))

    E._hmc_momenta_keys = []

    def sample_momenta(I, key, grads):
        E._hmc_momenta_keys.append(I.to_u(key))          # (observed: the contracts read the momenta key off this call)
        m = mom_f(I.to_u(key), I.to_u(grads))
        return (UVal(m, "ChoiceMap"), SReal(mlp_f(m, E.z3.RealVal(1))))

    def assess_momenta(I, momenta, mul=1.0):
        from pyvc.interp_ops import zreal
        return SReal(mlp_f(I.to_u(momenta), zreal(mul)))
    I.overrides[H + ":selection_gradient"] = selection_gradient
    I.overrides[H + ":sample_momenta"] = sample_momenta
    I.overrides[H + ":assess_momenta"] = assess_momenta
    return vals_f, grad_f, mom_f, mlp_f


# ---------------------------------------------------------------------------------------------------------------------
# the helpers HMC.edit is built from, under contract themselves (so that the abstractions above are proved, not trusted):
#   normal_score / assess_momenta   kinetic energy  = sum over ALL elements of ALL leaves of log N(mul * p; 0, 1)
#   sample_momenta                  one standard-normal draw per selected leaf, of the leaf's shape, with pairwise independent
#                                   keys derived from the given key (theory/keys.py), and their score
#   selection_gradient              positions = the selected choices; the differentiated function assesses the model at
#                                   (positions merged over the unselected choices, the primal arguments)
# Trusted here: TFP's Normal (A10: Normal(0,1).log_prob(x) = -x^2/2 - log sqrt(2 pi) elementwise; .sample(seed=k) is a pure
# function of the parameters and k with the shape of the parameters) and jax.grad (A7).
HELPERS = [H + ":normal_sample", H + ":normal_score", H + ":assess_momenta", H + ":sample_momenta",
           H + ":grad_tree_unzip", H + ":grad_tree_zip", H + ":selection_gradient"]


class NormalDist:
    """tfd.Normal(loc, scale)"""

    def __init__(self, E, loc, scale):
        self.E, self.loc, self.scale = E, loc, scale

    def std_lp(self, x):
        z3 = self.E.z3
        c = z3.Real("half_log_2pi")
        from pyvc.interp_ops import zreal
        return SReal(-(zreal(x) * zreal(x)) / 2 - c)

    def pyvc_getattr(self, I, name):
        E, z3 = self.E, self.E.z3
        from pyvc.values import Unsupported
        if name == "log_prob":
            def log_prob(I, v):
                if not (self.loc == 0.0 and self.scale == 1.0):
                    raise Unsupported("tfd.Normal.log_prob for non-standard parameters")
                if isinstance(v, (SReal, float, int)) and not getattr(v, "vec", False):
                    return self.std_lp(v)
                if isinstance(v, Stacked):
                    return Stacked(v.n, lambda i: self.std_lp(v.at(i)), tag="normal-logpdf")
                if isinstance(v, UVal):
                    vec = I.ctx.branch(I.ctx.fn("leaf_is_vector", U, z3.BoolSort())(v.t), tag="momentum_leaf_is_vector")
                    return SReal(I.ctx.fn("std_normal_logpdf_array", U, z3.RealSort())(v.t), vec=vec)
                raise Unsupported(f"tfd.Normal.log_prob of {type(v).__name__}")
            return NativeFn("Normal.log_prob", log_prob)
        if name == "sample":
            def sample(I, seed=None, sample_shape=()):
                draw = I.ctx.fn("std_normal_draw", U, z3.IntSort(), z3.RealSort())
                k = I.to_u(seed)
                if not self.scale == 1.0:
                    raise Unsupported("tfd.Normal.sample with a non-unit scale")
                if isinstance(self.loc, Stacked):
                    return Stacked(self.loc.n, lambda i: SReal(zreal_(self.loc.at(i)) + draw(k, i)), tag="normal-sample")
                return SReal(zreal_(self.loc) + draw(k, z3.IntVal(0)))
            return NativeFn("Normal.sample", sample)
        raise Unsupported(f"tfd.Normal.{name}")


def zreal_(x):
    from pyvc.interp_ops import zreal
    return zreal(x)


def install_tfd_normal(E):
    z3 = E.z3
    E.I.ext["distributions.Normal"] = lambda I, loc=0.0, scale=1.0: NormalDist(E, loc, scale)
    # the normalising constant of the standard normal log-density: log sqrt(2 pi) = log(2 pi) / 2  (`log`, `pi` as used by
    # code that writes the density in closed form)
    log = E.ctx.fn("log", z3.RealSort(), z3.RealSort())
    E.assume(z3.Real("half_log_2pi") == log(2 * z3.Real("pi")) / 2)


def lp_total(E, v, mul=1.0):
    """spec: sum over all elements of log N(mul * v_e; 0, 1) for a scalar real or a concrete-length vector of reals"""
    z3 = E.z3
    c = z3.Real("half_log_2pi")
    m = zreal_(mul)
    one = lambda x: -((m * zreal_(x)) * (m * zreal_(x))) / 2 - c
    if isinstance(v, Stacked):
        return z3.Sum([one(v.at(z3.IntVal(k))) for k in range(v.n)])
    return one(v)


@task("hmc.kinetic_energy", props=["C28"], functions=HELPERS)
def t_kinetic(E):
    z3 = E.z3
    install_tfd_normal(E)
    a = E.real("p_a")
    b = Stacked(2, lambda i, xs=[E.real("p_b0"), E.real("p_b1")]: xs[i.as_long()] if z3.is_int_value(i) else
                SReal(z3.If(i == 0, xs[0].t, xs[1].t)), tag="vector-leaf")
    E.prove("C28.normal_score.scalar_leaf_is_its_log_density", E.eq(E.call(H + ":normal_score", a), SReal(lp_total(E, a))))
    E.prove("C28.normal_score.vector_leaf_is_the_sum_of_elementwise_log_densities",
            E.eq(E.call(H + ":normal_score", b), SReal(lp_total(E, b))))
    u = E.opaque("p_leaf", "leaf")
    r = E.call(H + ":normal_score", u)
    lpa = E.ctx.fn("std_normal_logpdf_array", U, z3.RealSort())(u.t)
    isv = E.ctx.fn("leaf_is_vector", U, z3.BoolSort())(u.t)
    E.prove("C28.normal_score.array_leaf_of_any_rank_is_totalled",
            E.eq(r, SReal(z3.If(isv, E.ctx.fn("sum_all", z3.RealSort(), z3.RealSort())(lpa), lpa))))
    mul = E.real("mul")
    momenta = {"a": a, "sub": {"b": b}}
    e = E.call(H + ":assess_momenta", momenta, mul)
    E.prove("C28.assess_momenta.is_the_sum_over_all_leaves_and_elements_of_the_scaled_momenta_log_densities",
            E.eq(e, SReal(lp_total(E, a, mul) + lp_total(E, b, mul))))
    e1 = E.call(H + ":assess_momenta", momenta)
    E.prove("C28.assess_momenta.default_scale_is_one", E.eq(e1, SReal(lp_total(E, a) + lp_total(E, b))))
    E.prove("C28.assess_momenta.is_even_in_the_momenta", E.eq(E.call(H + ":assess_momenta", momenta, -1.0), e1))
    E.refutable("hmc.kinetic_energy", E.eq(e1, SReal(lp_total(E, a))))


@task("hmc.sample_momenta", props=["C28", "C04"], functions=HELPERS)
def t_sample_momenta(E):
    from theory import keys as K
    z3 = E.z3
    install_tfd_normal(E)
    k = key(E)
    g_a = E.real("g_a")
    g_b = Stacked(2, lambda i: SReal(E.ctx.fn("g_b", z3.IntSort(), z3.RealSort())(i)), tag="gradient-vector")
    g_c = E.real("g_c")
    grads = {"a": g_a, "sub": {"b": g_b, "c": g_c}}
    momenta, score = E.call(H + ":sample_momenta", k, grads)
    E.require("C28.sample_momenta.one_momentum_per_selected_leaf_same_tree_structure",
              isinstance(momenta, dict) and set(momenta) == {"a", "sub"} and isinstance(momenta["sub"], dict)
              and set(momenta["sub"]) == {"b", "c"})
    ma, mb, mc = momenta["a"], momenta["sub"]["b"], momenta["sub"]["c"]
    E.require("C28.sample_momenta.each_momentum_has_the_shape_of_its_leaf",
              isinstance(ma, SReal) and isinstance(mc, SReal) and isinstance(mb, Stacked) and mb.n == 2)

    def draw_key(t):
        t = z3.simplify(t)
        ks = []

        def walk(e):
            if z3.is_app(e) and e.decl().name() == "std_normal_draw":
                ks.append(e.arg(0))
            for ch in e.children():
                walk(ch)
        walk(t)
        return ks
    keys = [draw_key(ma.t), draw_key(mb.at(z3.IntVal(0)).t), draw_key(mb.at(z3.IntVal(1)).t), draw_key(mc.t)]
    E.require("C28.sample_momenta.each_leaf_is_one_standard_normal_draw", all(len(x) == 1 for x in keys) and keys[1][0].eq(keys[2][0]))
    ka, kb, kc = keys[0][0], keys[1][0], keys[3][0]
    E.prove("C28.sample_momenta.a_leaf_is_exactly_a_zero_mean_unit_draw", E.And(
        ma.t == E.ctx.fn("std_normal_draw", U, z3.IntSort(), z3.RealSort())(ka, z3.IntVal(0)),
        zreal_(mb.at(z3.IntVal(1))) == E.ctx.fn("std_normal_draw", U, z3.IntSort(), z3.RealSort())(kb, z3.IntVal(1))))
    pair_key_discipline(E, k, [ka, kb, kc], "sample_momenta")
    for p in ("C28",):
        E.prove(f"{p}.sample_momenta.leaves_draw_independently", E.And(
            K.independent(E.I, ka, kb), K.independent(E.I, ka, kc), K.independent(E.I, kb, kc)))
    E.prove("C28.sample_momenta.score_is_the_log_density_of_the_drawn_momenta",
            E.eq(score, SReal(lp_total(E, ma) + lp_total(E, mb) + lp_total(E, mc))))
    E.refutable("hmc.sample_momenta", ka == kb)


@task("hmc.selection_gradient", props=["C28"], functions=HELPERS)
def t_selection_gradient(E):
    """selection_gradient(selection, trace, argdiffs) on a trace whose choices are {x, y, (s, z)} (reals), selection x | s:
    positions = the selected choices; the function handed to jax.grad maps a position tree q to the model's assess score at
    (q at the selected addresses, the trace's own values elsewhere, the primal arguments); the gradient tree has one entry per
    selected choice.  jax.grad itself is A7."""
    z3, T, I = E.z3, E.I.T, E.I
    xv, yv, zv = E.real("x_val"), E.real("y_val"), E.real("z_val")
    chm_ = E.call(CM + ":ChoiceMap.d", {"x": xv, "y": yv, ("s", "z"): zv})
    S_ = E.cls(CM + ":Selection")
    at = I.getattr(S_, "at")
    sel = E.method(E.method(at, "__getitem__", ("x",)), "__or__", E.method(at, "__getitem__", ("s",)))
    model = G(E, "model")
    tr = T.abstract_trace("tr", g=model.t)
    I.abstract_methods[("Trace", "get_choices")] = lambda I_, s: chm_
    I.overrides["genjax._src.core.typing:static_check_supports_grad"] = lambda I_, v: isinstance(v, (SReal, float))
    assessed = []

    def assess(I_, g, sample, args):
        assessed.append((sample, args))
        return (SReal(E.ctx.fn("potential", U, z3.RealSort())(E.ctx.const("assess_call", U))), UVal(E.ctx.const("assess_ret", U)))
    I.abstract_methods[("GenerativeFunction", "assess")] = assess
    grads = []

    def jax_grad(I_, f):
        def g(I__, tree):
            grads.append((f, tree))
            from theory.externals import map_leaves
            k = [0]

            def leaf(v):
                k[0] += 1
                return SReal(E.ctx.const(f"dU_{k[0]}", z3.RealSort()))
            return map_leaves(I__, leaf, tree)
        return NativeFn("grad(f)", g)
    I.ext["jax.grad"] = jax_grad
    ad = E.opaque("argdiffs", "tuple")
    E.assume(T.d_is_tree(ad.t))
    values, gtree = E.call(H + ":selection_gradient", sel, tr, ad)
    E.require("C28.selection_gradient.differentiates_one_function_once", len(grads) == 1)

    def look(c, *addr):
        v = E.method(E.method(c, "get_submap", *addr), "get_value")
        return v
    px, vx = obs(E, look(values, "x"))
    pz, vz = obs(E, look(values, "s", "z"))
    py, _ = obs(E, look(values, "y"))
    E.prove("C28.selection_gradient.positions_are_exactly_the_selected_choices", E.And(
        px, pz, E.Not(py), E.eq(vx, xv) if vx is not None else False, E.eq(vz, zv) if vz is not None else False))
    # the potential: evaluate the differentiated function at fresh positions
    f, gt = grads[0]
    qx, qz = E.real("q_x"), E.real("q_z")
    from theory.externals import map_leaves
    fresh = iter([qx, qz])
    order = []

    def sub(v):
        q = next(fresh)
        order.append((v, q))
        return q
    qtree = map_leaves(I, sub, gt)
    E.require("C28.selection_gradient.position_tree_has_one_leaf_per_selected_choice", len(order) == 2)
    del assessed[:]
    I.call(f, [qtree], {})
    E.require("C28.selection_gradient.potential_is_one_assess_of_the_model", len(assessed) == 1)
    sample, args = assessed[0]
    qmap = {id(v): q for v, q in order}
    q_of = lambda old: [q for v, q in order if v is old][0] if any(v is old for v, _ in order) else None
    sx, svx = obs(E, look(sample, "x"))
    sz, svz = obs(E, look(sample, "s", "z"))
    sy, svy = obs(E, look(sample, "y"))
    E.prove("C28.selection_gradient.potential_is_the_model_score_at_the_moved_selected_choices_and_the_kept_others", E.And(
        sx, sz, sy, E.eq(svx, q_of(xv)) if (svx is not None and q_of(xv) is not None) else False,
        E.eq(svz, q_of(zv)) if (svz is not None and q_of(zv) is not None) else False, E.eq(svy, yv) if svy is not None else False))
    E.prove("C28.selection_gradient.potential_uses_the_primal_arguments", I.to_u(args) == T.primal_u(ad))
    gx, gvx = obs(E, look(gtree, "x"))
    gz, gvz = obs(E, look(gtree, "s", "z"))
    gy, _ = obs(E, look(gtree, "y"))
    E.prove("C28.selection_gradient.gradient_tree_has_an_entry_exactly_for_the_selected_choices", E.And(gx, gz, E.Not(gy)))
    E.refutable("hmc.selection_gradient", E.eq(vx, yv) if vx is not None else False)


@task("hmc.edit", props=["C28", "C04"], functions=FUNCS)
def t_hmc(E):
    z3, T = E.z3, E.I.T
    vals_f, grad_f, mom_f, mlp_f = install_abstractions(E)
    model = G(E, "model")
    tr0 = T.abstract_trace("tr", g=model.t)
    sel = E.opaque("sel", "Selection")
    eps = E.real("eps")
    L = E.int("L", conc=True)
    E.assume(L.t >= 1)
    hmc = E.new(H + ":HMC", selection=sel, eps=eps, L=L)
    k = key(E)
    ad = E.call(INC + ":Diff.no_change", E.method(tr0, "get_args"))
    new, alpha, rd, bwd = E.method(hmc, "edit", k, tr0, ad)
    scans = [s for s in getattr(E.I, "scans", []) if s.shape is not None]
    if not scans:
        # a path on which the code ran no loop at all: only a single step can be written out - and it must be the leapfrog step
        E.require("C28.HMC.without_a_loop_only_a_single_step_is_run", E.ctx.entails(L.t == 1))
        adu, selu = E.I.to_u(ad), sel.t
        nt = z3.simplify(E.I.to_u(new))
        E.require("C28.HMC.single_step.returns_an_update_of_the_model_trace",
                  z3.is_app(nt) and nt.decl().name() == "gf_edit_tr" and nt.num_args() == 5)
        found, seen_ = [], set()

        def walk(e):
            if e.get_id() in seen_:
                return
            seen_.add(e.get_id())
            if z3.is_app(e) and e.decl().eq(mom_f(k.t, k.t).decl()):
                found.append(e)
                return
            for ch in e.children():
                walk(ch)
        walk(nt.arg(3))
        E.require("C28.HMC.single_step.the_move_uses_one_draw_of_momenta", len(found) == 1)
        p0 = UVal(found[0], "ChoiceMap")
        raw = lambda x: UVal(x.t) if isinstance(x, UVal) else x
        add, mul = (lambda a, b: E.I.binop("Add", raw(a), raw(b))), (lambda a, b: E.I.binop("Mult", raw(a), raw(b)))
        half = E.I.binop("Div", eps, 2)
        kick_ = lambda p, g: UVal(add(p, mul(half, g)).t, "ChoiceMap")
        drift = lambda q, p: UVal(add(q, mul(eps, p)).t, "ChoiceMap")
        g0 = UVal(grad_f(tr0.t, selu, adu), "ChoiceMap")
        q0 = UVal(vals_f(tr0.t, selu), "ChoiceMap")
        p_half = kick_(p0, g0)
        E.prove("C28.HMC.single_step.is_one_leapfrog_step_half_kick_drift_half_kick", z3.And(
            nt.arg(0) == model.t, nt.arg(2) == tr0.t, nt.arg(4) == adu,
            nt.arg(3) == E.I.to_u(update(E, drift(q0, p_half))),
            found[0].arg(1) == g0.t if found[0].num_args() > 1 else True))
        p1 = kick_(p_half, UVal(grad_f(nt, selu, adu), "ChoiceMap"))
        E.prove("C28.HMC.alpha_is_H_start_minus_H_end", E.eq(alpha, SReal(
            T.tr_score(nt) - T.tr_score(tr0.t) + mlp_f(p1.t, z3.RealVal(-1)) - mlp_f(p0.t, z3.RealVal(1)))))
        E.refutable("hmc.edit", E.eq(alpha, 0.0))
        return
    loop = scans[0]
    split = E.ctx.fn("split", U, z3.IntSort(), z3.IntSort(), U)
    from theory import keys as KY
    # the keys are read off what the code computed (whichever halves of whichever split they are): the momenta draw from the
    # initial carry, an iteration's update key from the trace that iteration produced; the derivation the current code uses
    # is only the fallback when a term has another shape
    k_loop, k_mom = split(k.t, 2, 0), split(k.t, 2, 1)
    if len(getattr(E, "_hmc_momenta_keys", [])) == 1:
        k_mom = E._hmc_momenta_keys[0]
    E.prove("C04.HMC.momenta_are_drawn_with_a_key_derived_from_the_given_key", KY.derived_from(E.I, k_mom, k.t), also=["C28"])
    adu, selu = E.I.to_u(ad), sel.t
    grad_at = lambda t: grad_f(t, selu, adu)
    # leafwise arithmetic on opaque trees: the same lambdas as in the source, applied by the real tree_map
    half_eps = E.I.binop("Div", eps, 2)
    kick = lambda p, g: E.call("jax.tree_util:tree_map", None) if False else None
    tm2 = E.ctx.fn("tree_map2", U, U, U, U)

    loop.prove_invariant(E, "C28.HMC.kernel.trace_stays_a_trace_of_the_model",
                         lambda i, c: T.tr_genfn(E.I.to_u(c[0])) == model.t)
    # invariant: the gradient carried into iteration i is the gradient at the CURRENT trace (position)
    loop.prove_invariant(E, "C28.HMC.kernel.carried_gradient_is_gradient_at_current_position",
                         lambda i, c: E.eq(c[2], UVal(grad_at(E.I.to_u(c[0])), "ChoiceMap")))
    E.cover("hmc.edit.reached")
    fold = E.ctx.fn("fold_in", U, z3.IntSort(), U)

    def leapfrog(i):
        tr_i, q_i, g_i, p_i = loop.carry_at(i)
        loop.unfold(i)
        tr_n, q_n, g_n, p_n = loop.carry_at(i + 1)
        # re-execute the documented scheme with the real lambdas through the engine's tree_map model
        raw = lambda x: UVal(x.t) if isinstance(x, UVal) else x        # leaf arithmetic, not ChoiceMap.__add__ (= merge)
        add, mul = (lambda a, b: E.I.binop("Add", raw(a), raw(b))), (lambda a, b: E.I.binop("Mult", raw(a), raw(b)))
        half = E.I.binop("Div", eps, 2)
        kick_ = lambda p, g: UVal(add(p, mul(half, g)).t, "ChoiceMap")        # p + (eps/2) * g   (leafwise, lifted)
        drift = lambda q, p: UVal(add(q, mul(eps, p)).t, "ChoiceMap")          # q + eps * p
        p_half = kick_(p_i, UVal(grad_at(tr_i.t), "ChoiceMap"))
        q_next = drift(q_i, p_half)
        req = update(E, q_next)
        body_carry, _ = loop.step(loop.carry_at(i), i)           # (the real loop body once more, to read the update's key off it)
        nk = KY.key_of(z3.simplify(E.I.to_u(body_carry[0])), "gf_edit_tr")
        new_key = nk if nk is not None else fold(k_loop, i + 1)
        tr_next = T.edit_tr(model.t, new_key, tr_i.t, E.I.to_u(req), adu)
        q_read = vals_f(tr_next, selu)
        p_next = kick_(p_half, UVal(grad_at(tr_next), "ChoiceMap"))
        return E.And(E.eq(tr_n, UVal(tr_next, "Trace")), E.eq(q_n, UVal(q_read, "ChoiceMap")), E.eq(p_n, p_next))
    E.prove("C28.HMC.kernel.one_iteration_is_one_leapfrog_step_with_gradients_at_the_current_positions",
            forall_i(E, L.t, leapfrog))
    E.prove("C28.HMC.initial_state", E.And(
        E.eq(loop.carry_at(z3.IntVal(0))[0], tr0), E.eq(loop.carry_at(z3.IntVal(0))[1], UVal(vals_f(tr0.t, selu), "ChoiceMap")),
        E.eq(loop.carry_at(z3.IntVal(0))[3], UVal(mom_f(k_mom, grad_at(tr0.t)), "ChoiceMap"))))
    final_tr, _, _, final_p = loop.carry_at(L.t)
    p0 = mom_f(k_mom, grad_at(tr0.t))
    E.prove("C28.HMC.returns_final_trace", E.eq(new, final_tr))
    E.prove("C28.HMC.alpha_is_H_start_minus_H_end", E.eq(alpha, SReal(
        T.tr_score(final_tr.t) - T.tr_score(tr0.t) + mlp_f(final_p.t, z3.RealVal(-1)) - mlp_f(p0, z3.RealVal(1)))))
    E.prove("C28.HMC.bwd_request_is_hmc_with_same_parameters", E.And(
        is_obj(bwd, "HMC"), E.eq(fld(E, bwd, "eps"), eps), E.eq(fld(E, bwd, "L"), L), E.eq(fld(E, bwd, "selection"), sel)))
    E.refutable("hmc.edit", E.eq(alpha, 0.0))
