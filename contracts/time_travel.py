"""Contracts for genjax._src.core.compiler.interpreters.time_travel  (C31).

  * TimeTravelingDebugger.jump / fwd / bwd / frame / summary: for an ARBITRARY recorded sequence (symbolic length) and an
    arbitrary in-range pointer the new pointer is in range (clamped step), nothing else changes;
  * RecordPoint.handle: the frame records the call's arguments and local return value, the reported result is the
    continuation applied to that call, and the stored continuation re-runs the call on new arguments (remix semantics);
  * TimeTravelingDebugger.remix: frames before the pointer are kept, the frame at the pointer is the call re-run on the new
    arguments, the rest is what recording the stored continuation on the new arguments yields;
  * _record: loop contract of the `while next:` loop (one arbitrary iteration of the REAL body: the frame is appended in
    execution order, a tagged frame's jump point is its position, the next recording is the frame's continuation on the
    frame's arguments) + the whole function on recordings with 0, 1 and 2 frames;
  * time_machine: the source is recorded as the first frame (`_enter`) and its result tagged `exit`.
The CPS jaxpr interpreter itself (eval_jaxpr_time_travel) is covered by its own tasks below (step contract for ordinary
equations; record equations on schematic jaxprs)."""
import z3
from pyvc.task import task
from pyvc.values import NativeFn, Obj, SBool, SInt, SReal, TupleT, UVal, U
from .common import *
from .interpreters import Rec

TT = "genjax._src.core.compiler.interpreters.time_travel"
FUNCS = [TT + ":TimeTravelingDebugger." + m for m in ("frame", "summary", "jump", "fwd", "bwd", "remix", "__call__")] + \
        [TT + ":RecordPoint.handle", TT + ":RecordPoint.default_call", TT + ":_record", TT + ":time_machine"]


def debugger(E, seq, ptr, jp=None, final=None):
    return E.new(TT + ":TimeTravelingDebugger", final_retval=final if final is not None else E.opaque("final_retval"),
                 sequence=seq, jump_points=jp if jp is not None else {}, ptr=ptr)


@task("time_travel.navigation", props=["C31"], functions=FUNCS)
def t_nav(E):
    seq = E.opaque("sequence", "tuple")
    n = E.I.bi_len(seq)
    ptr = E.int("ptr", conc=True)
    E.assume(z3.And(ptr.t >= 0, ptr.t < n.t))
    tagv = E.int("tagged_position", conc=True)
    E.assume(z3.And(tagv.t >= 0, tagv.t < n.t))          # _record invariant (proved below): jump points are positions
    d = debugger(E, seq, ptr, jp={"here": tagv})
    same = lambda r: E.And(E.eq(fld(E, r, "sequence"), seq), E.eq(fld(E, r, "final_retval"), d.fields["final_retval"]),
                           fld(E, r, "jump_points") is d.fields["jump_points"] or fld(E, r, "jump_points") == d.fields["jump_points"])
    inr = lambda r: z3.And(E.I.z(fld(E, r, "ptr")).t >= 0 if False else zint_(fld(E, r, "ptr")) >= 0, zint_(fld(E, r, "ptr")) < n.t)
    f = E.method(d, "fwd")
    E.prove("C31.TimeTravelingDebugger.fwd.moves_one_frame_forward_and_stays_within_the_recording",
            E.And(zint_(fld(E, f, "ptr")) == z3.If(ptr.t + 1 >= n.t, ptr.t, ptr.t + 1), inr(f), same(f)))
    b = E.method(d, "bwd")
    E.prove("C31.TimeTravelingDebugger.bwd.moves_one_frame_back_and_stays_within_the_recording",
            E.And(zint_(fld(E, b, "ptr")) == z3.If(ptr.t - 1 < 0, ptr.t, ptr.t - 1), inr(b), same(b)))
    j = E.method(d, "jump", "here")
    E.prove("C31.TimeTravelingDebugger.jump.goes_to_the_tagged_frame", E.And(zint_(fld(E, j, "ptr")) == tagv.t, inr(j), same(j)))
    tg, fr = E.method(d, "frame")
    E.prove("C31.TimeTravelingDebugger.frame.is_the_frame_at_the_pointer", E.eq(fr, E.I.getitem(seq, ptr)))
    E.prove("C31.TimeTravelingDebugger.frame.reports_the_tag_of_a_tagged_position",
            E.Implies(ptr.t == tagv.t, tg == "here") if isinstance(tg, str) or tg is None else False)
    fin, (tg2, fr2) = E.method(d, "summary")
    E.prove("C31.TimeTravelingDebugger.summary.final_retval_and_current_frame",
            E.And(E.eq(fin, d.fields["final_retval"]), E.eq(fr2, fr)))
    E.refutable("time_travel.navigation", zint_(fld(E, f, "ptr")) == ptr.t)


def zint_(x):
    from pyvc.interp_ops import zint
    return zint(x)


@task("time_travel.record_point", props=["C31"], functions=FUNCS)
def t_record_point(E):
    I = E.I
    fobj = E.opaque("callable", "callable")
    app = E.ctx.fn("apply_callable", U, U, U)
    cont_fn = E.ctx.fn("apply_cont", U, U, U)
    call = lambda *a: I.call(fobj, list(a), {})
    I.abstract_methods[("callable", "__call__")] = lambda I_, s, *a: UVal(app(s.t, I_.to_u(tuple(a))))
    the = E.ctx.const("the_cont", U)
    cont = NativeFn("cont", lambda I_, r: (UVal(cont_fn(the, I_.to_u(r))), E.opaque("next_frame")))
    rp = E.new(TT + ":RecordPoint", callable=fobj, debug_tag="t")
    a0, a1 = E.opaque("a0"), E.opaque("a1")
    final, (tg, frame) = E.method(rp, "handle", cont, a0, a1)
    E.prove("C31.RecordPoint.handle.result_is_the_continuation_of_the_call", I.to_u(final) == cont_fn(the, I.to_u(call(a0, a1))))
    E.require("C31.RecordPoint.handle.returns_a_frame_recording", is_obj(frame, "FrameRecording"))
    E.prove("C31.RecordPoint.handle.frame_records_the_call", E.And(
        E.eq(frame.fields["f"], fobj), E.eq(frame.fields["args"], (a0, a1)), E.eq(frame.fields["local_retval"], call(a0, a1)),
        tg == "t"))
    b0, b1 = E.opaque("b0"), E.opaque("b1")
    again = I.call(frame.fields["cont"], [b0, b1], {})
    E.prove("C31.RecordPoint.handle.stored_continuation_reruns_the_call_on_new_arguments",
            I.to_u(again) == cont_fn(the, I.to_u(call(b0, b1))))
    E.prove("C31.RecordPoint.default_call.is_the_callable", E.eq(E.method(rp, "default_call", a0), call(a0)))
    E.refutable("time_travel.record_point", I.to_u(again) == I.to_u(final))


def frame_obj(E, name):
    return E.new(TT + ":FrameRecording", f=E.opaque(name + "_f", "callable"), args=(E.opaque(name + "_arg"),),
                 local_retval=E.opaque(name + "_ret"), cont=E.opaque(name + "_cont", "callable"))


def _remix(k, p):
    @task(f"time_travel.remix[frames={k},ptr={p}]", props=["C31"], functions=FUNCS)
    def t(E):
        I = E.I
        app = E.ctx.fn("apply_callable", U, U, U)
        I.abstract_methods[("callable", "__call__")] = lambda I_, s, *a: UVal(app(s.t, I_.to_u(tuple(a))))
        frames = [frame_obj(E, f"fr{i}") for i in range(k)]
        d = debugger(E, list(frames), p, jp={"x": 0})
        rest = [frame_obj(E, "rest0"), frame_obj(E, "rest1")]
        rec_final = E.opaque("recorded_final")
        seen = {}

        def _record(I_, source):
            def inner(I__, *args):
                seen["source"], seen["args"] = source, args
                return (rec_final, debugger(E, list(rest), 0, final=rec_final))
            return NativeFn("recorded", inner)
        I.overrides[TT + ":_record"] = _record
        n0 = E.opaque("new_arg")
        r = E.method(d, "remix", n0)
        cur = frames[p]
        E.require("C31.TimeTravelingDebugger.remix.records_the_frame_continuation", "source" in seen)
        E.prove(f"C31.TimeTravelingDebugger.remix.rerecords_the_stored_continuation_on_the_new_arguments[frames={k},ptr={p}]",
                E.And(E.eq(seen["source"], cur.fields["cont"]), E.eq(tuple(seen["args"]), (n0,))))
        seq = fld(E, r, "sequence")
        E.require(f"C31.TimeTravelingDebugger.remix.sequence_length[frames={k},ptr={p}]",
                  isinstance(seq, list) and len(seq) == p + 1 + len(rest))
        nf = seq[p]
        E.require("C31.TimeTravelingDebugger.remix.new_frame_is_a_frame", is_obj(nf, "FrameRecording"))
        E.prove(f"C31.TimeTravelingDebugger.remix.frames_before_kept_current_rerun_rest_rerecorded[frames={k},ptr={p}]", E.And(
            *[E.eq(seq[i], frames[i]) for i in range(p)],
            E.eq(nf.fields["f"], cur.fields["f"]), E.eq(nf.fields["args"], (n0,)), E.eq(nf.fields["cont"], cur.fields["cont"]),
            I.to_u(nf.fields["local_retval"]) == app(cur.fields["f"].t, I.to_u((n0,))),
            *[E.eq(seq[p + 1 + i], rest[i]) for i in range(len(rest))]))
        E.prove(f"C31.TimeTravelingDebugger.remix.final_retval_and_pointer[frames={k},ptr={p}]",
                E.And(E.eq(fld(E, r, "final_retval"), rec_final), E.eq(fld(E, r, "ptr"), p)))
        E.refutable(f"time_travel.remix[frames={k},ptr={p}]", E.eq(nf.fields["local_retval"], cur.fields["local_retval"]))
    return t


for _k, _p in ((1, 0), (3, 0), (3, 1), (3, 2)):
    _remix(_k, _p)


def chain(E, frames_tags, finals):
    """a fake time_travel: recording source i yields (finals[i], next_i) with next_i = (tag, frame) or None"""
    calls = []

    def time_travel(I_, source):
        def run(I__, *args):
            i = len(calls)
            calls.append((source, args))
            nxt = frames_tags[i] if i < len(frames_tags) else None
            return (finals[i], nxt)
        return NativeFn("time_travelled", run)
    return time_travel, calls


def _record_whole(k):
    @task(f"time_travel.record[frames={k}]", props=["C31"], functions=FUNCS)
    def t(E):
        I = E.I
        frames = [frame_obj(E, f"fr{i}") for i in range(k)]
        tags = ["first", None, "third"][:k]
        finals = [E.opaque(f"final{i}") for i in range(k + 1)]
        tt, calls = chain(E, [(tg, fr) for tg, fr in zip(tags, frames)], finals)
        I.overrides[TT + ":time_travel"] = tt
        src = E.opaque("source", "callable")
        x = E.opaque("x")
        rec = E.call(TT + ":_record", src)
        retval, d = I.call(rec, [x], {})
        E.require(f"C31._record.returns_a_debugger[frames={k}]", is_obj(d, "TimeTravelingDebugger") and isinstance(d.fields["sequence"], list))
        seq = d.fields["sequence"]
        E.prove(f"C31._record.one_frame_per_recorded_call_in_execution_order[frames={k}]",
                len(seq) == k and E.And(*[E.eq(a, b) for a, b in zip(seq, frames)]))
        E.prove(f"C31._record.final_retval_is_the_last_recording_s_result[frames={k}]",
                E.And(E.eq(retval, finals[k]), E.eq(d.fields["final_retval"], finals[k]), E.eq(d.fields["ptr"], 0)))
        want_jp = {tg: i for i, tg in enumerate(tags) if tg}
        E.prove(f"C31._record.jump_points_are_the_positions_of_tagged_frames[frames={k}]", d.fields["jump_points"] == want_jp)
        E.prove(f"C31._record.each_continuation_is_recorded_on_its_frame_arguments[frames={k}]",
                len(calls) == k + 1 and E.And(E.eq(calls[0][0], src), E.eq(tuple(calls[0][1]), (x,)), *[
                    E.And(E.eq(calls[i + 1][0], frames[i].fields["cont"]), E.eq(tuple(calls[i + 1][1]), frames[i].fields["args"]))
                    for i in range(k)]))
        if k:
            E.refutable(f"time_travel.record[frames={k}]", E.eq(retval, finals[0]))
    return t


for _k in (0, 1, 3):
    _record_whole(_k)


@task("time_travel.record.loop_step", props=["C31"], functions=FUNCS)
def t_record_step(E):
    """one ARBITRARY iteration of `while next:` in _record.inner, from an arbitrary prefix (3 earlier frames)"""
    I = E.I
    prefix = [frame_obj(E, f"old{i}") for i in range(3)]
    jp = {"a": 0, "c": 2}
    frame = frame_obj(E, "cur")
    tagged = E.flag("tagged", conc=True)
    tg = "now" if I.truth(tagged) else None
    fin2, nxt2 = E.opaque("final_after"), E.opaque("next_after")
    tt, calls = chain(E, [], [fin2])
    calls_next = []

    time_travel = NativeFn("time_travel", lambda I_, source: NativeFn(
        "tt", lambda I__, *a: (calls_next.append((source, a)) or (fin2, nxt2))))
    seq, jpd = list(prefix), dict(jp)
    vars_, _ = E.loop_body(TT + ":_record", dict(next=(tg, frame), sequence=seq, jump_points=jpd, retval=E.opaque("old_final"),
                                               args=(E.opaque("old_arg"),), source=E.opaque("src"), time_travel=time_travel))
    E.prove("C31._record.loop_step.appends_the_frame_in_execution_order",
            len(seq) == 4 and E.And(*[E.eq(a, b) for a, b in zip(seq, prefix + [frame])]))
    want = dict(jp)
    if tg:
        want[tg] = 3
    E.prove("C31._record.loop_step.a_tagged_frame_s_jump_point_is_its_position", jpd == want)
    E.prove("C31._record.loop_step.next_recording_is_the_frame_continuation_on_the_frame_arguments",
            len(calls_next) == 1 and E.And(E.eq(calls_next[0][0], frame.fields["cont"]), E.eq(tuple(calls_next[0][1]), frame.fields["args"]),
                                           E.eq(vars_["retval"], fin2), E.eq(vars_["next"], nxt2)))
    E.refutable("time_travel.record.loop_step", len(seq) == 3)


@task("time_travel.time_machine", props=["C31"], functions=FUNCS)
def t_time_machine(E):
    I = E.I
    seen = {}
    result = E.opaque("debugger_out")

    def _record(I_, source):
        def inner(I__, *args):
            seen["args"] = args
            seen["source"] = source
            return (E.opaque("ret"), result)
        return NativeFn("recorded", inner)
    I.overrides[TT + ":_record"] = _record
    recs = []

    def rec(I_, callable_, debug_tag=None):
        def inner(I__, *args):
            recs.append((callable_, debug_tag, args))
            return UVal(E.ctx.fn("rec_result", U, U, U)(I_.to_u(callable_) if not isinstance(callable_, NativeFn) else E.ctx.const("lam", U),
                                                         I_.to_u(tuple(args))))
        return NativeFn("rec", inner)
    I.overrides[TT + ":rec"] = rec
    src = E.opaque("source", "callable")
    x = E.opaque("x")
    tm = E.call(TT + ":time_machine", src)
    out = I.call(tm, [x], {})
    E.prove("C31.time_machine.returns_the_recording_of_the_instrumented_source", E.And(E.eq(out, result), E.eq(tuple(seen["args"]), (x,))))
    I.call(seen["source"], [x], {})
    E.prove("C31.time_machine.source_is_recorded_as_enter_and_its_result_tagged_exit",
            len(recs) == 2 and recs[0][1] == "_enter" and recs[1][1] == "exit" and
            E.And(E.eq(recs[0][0], src), E.eq(tuple(recs[0][2]), (x,)), E.eq(recs[1][2][0], UVal(
                E.ctx.fn("rec_result", U, U, U)(src.t, I.to_u((x,)))))))


# ------------------------------------------------------------------------------------------- the CPS jaxpr interpreter
from .interpreters import (AB, AU, ENV, SymMap, Vars, bound, equation, install_primitive, read_spec, write_spec)  # noqa: E402

CPS = TT + ":TimeTravelCPSInterpreter.eval_jaxpr_time_travel"
FUNCS_CPS = [CPS, TT + ":RecordPoint.handle", ENV + ":Environment.read", ENV + ":Environment.write", ENV + ":Environment.copy"]


def cps_setup(E):
    I = E.I
    record_p = E.opaque("record_p", "Primitive")
    I.module_cache[(TT, "record_p")] = record_p
    return record_p


def _cps_step(k_in, m_out):
    tag = f"[in={k_in},out={m_out}]"

    @task(f"time_travel.cps.ordinary_step{tag}", props=["C31"], functions=FUNCS_CPS)
    def t(E):
        """an equation that is not a record point: the REAL loop body performs the reference step on the environment"""
        V = Vars(E)
        record_p = cps_setup(E)
        install_primitive(E, 0, m_out)
        has0, val0 = E.ctx.const("env_dom", AB), E.ctx.const("env_val", AU)
        env = E.new(ENV + ":Environment", env=SymMap(has0, val0, None, "env"))
        eqn = equation(E, V, k_in, m_out)
        eqn.source_info = Rec(traceback=None)
        E.assume(eqn.primitive.t != record_p.t)
        for v in eqn.invars:
            E.assume(bound(E, V, has0, val0, v))
        if m_out != 1:
            E.assume(E.I.getattr(eqn.primitive, "multiple_results"))
        st, res = E.attempt(lambda: E.loop_body(CPS, dict(
            eqn_idx=E.int("eqn_idx", conc=True), eqn=eqn, env=env, eqns=[eqn], invars=[], flat_args=[], rebind=E.flag("rebind", conc=True),
            jaxpr=None, consts=[], out_tree=None)))
        E.require(f"C31.eval_jaxpr_time_travel.ordinary_step_does_not_raise{tag}", st == "ok", raised=str(res))
        vars_, _ = res
        E.require(f"C31.eval_jaxpr_time_travel.ordinary_step_keeps_the_environment_object{tag}", vars_["env"] is env)
        after = env.fields["env"]
        reads = [UVal(read_spec(E, V, has0, val0, v)) for v in eqn.invars]
        subs, params = E.I.call_method(eqn.primitive, "get_bind_params", [eqn.params], {})
        out = E.I.call_method(eqn.primitive, "bind", list(subs) + reads, {"**opaque": params})
        has, val = has0, val0
        for v, o in zip(eqn.outvars, out if isinstance(out, list) else [out]):
            has, val = write_spec(E, V, has, val, v, E.I.to_u(o))
        E.prove(f"C31.eval_jaxpr_time_travel.ordinary_step_is_the_reference_step{tag}", z3.And(after.has == has, after.val == val))
        E.refutable(f"time_travel.cps.ordinary_step{tag}", after.val == val0)
    return t


for _k, _m in ((1, 1), (2, 2)):
    _cps_step(_k, _m)


def _cps_program(shape):
    """schematic programs:  'r' = [record point],  'prp' = [p1; record point; p2],  'rr' = [record point; record point]
    run through the REAL eval_jaxpr_time_travel and the REAL RecordPoint.handle"""
    @task(f"time_travel.cps.program[{shape}]", props=["C31"], functions=FUNCS_CPS)
    def t(E):
        I = E.I
        V = Vars(E)
        record_p = cps_setup(E)
        app = E.ctx.fn("apply_callable", U, U, U)

        def call_callable(I_, s, *a):                 # recorded callables return arrays (never None)
            r = app(s.t, I_.to_u(tuple(a)))
            E.assume(z3.Not(I.T.is_None(r)))
            return UVal(r)
        I.abstract_methods[("callable", "__call__")] = call_callable

        def bind(I_, prim, *args, **params):          # single-result ordinary primitives; results are never None
            r = E.ctx.fn("prim_bind1", U, U, U)(prim.t, I_.to_u(tuple(args)))
            E.assume(z3.Not(I.T.is_None(r)))
            return UVal(r)
        I.abstract_methods[("Primitive", "bind")] = bind
        I.abstract_attrs[("Primitive", "multiple_results")] = lambda I_, o: SBool(o.t == record_p.t, True)
        p = lambda pr, *a: E.ctx.fn("prim_bind1", U, U, U)(pr.t, I.to_u(tuple(a)))
        rps, eqns, cur = [], [], None
        xv = V.atom("xv", "var")
        E.assume(z3.Not(V.isD(xv.t)))
        cur_var, n_rec = xv, 0
        prims = []
        for ch in shape:
            out = V.atom(f"v{len(eqns)}", "var")
            E.assume(z3.Not(V.isD(out.t)))
            if ch == "p":
                pr = E.opaque(f"p{len(prims)}", "Primitive")
                E.assume(pr.t != record_p.t)
                prims.append(pr)
                eqns.append(Rec(primitive=pr, params={}, invars=[cur_var], outvars=[out], source_info=Rec(traceback=None)))
            else:
                g = E.opaque(f"g{n_rec}", "callable")
                rp = E.new(TT + ":RecordPoint", callable=g, debug_tag=f"tag{n_rec}")
                rps.append(rp)
                eqns.append(Rec(primitive=record_p, params={"in_tree": ("RP", n_rec), "num_consts": 0}, invars=[cur_var],
                                outvars=[out], source_info=Rec(traceback=None)))
                n_rec += 1
            cur_var = out
        # distinct variables have distinct counts (jaxpr invariant)
        allv = [xv] + [e.outvars[0] for e in eqns]
        for i in range(len(allv)):
            E.assume(V.isV(allv[i].t))
            for j in range(i):
                E.assume(V.count(allv[i]) != V.count(allv[j]))
        I.abstract_methods[("Primitive", "get_bind_params")] = lambda I_, prim, params: ([], params)
        I.ext["jax.tree_util.tree_unflatten"] = lambda I_, tree, leaves: (
            [rps[tree[1]]] + list(leaves) if isinstance(tree, tuple) and tree[0] == "RP" else
            UVal(E.ctx.fn("tree_unflatten", U, U, U)(I_.to_u(tree), I_.to_u(list(leaves)))))
        I.ext["jax.tree_util.tree_leaves"] = lambda I_, x: list(x)
        # a record point met while re-running a continuation (rebind) is an ordinary call of its callable
        # (RecordPoint.__call__ = initial_style_bind(record_p)(default_call): C36.initial_style_bind.* + JAX's bind -> impl)
        rebound = []

        def rp_call(I_, self_, *a):
            rebound.append(self_)          # the record point goes through record_p again: the next staging sees it as a frame
            return I_.call(self_.fields["callable"], list(a), {})
        I.overrides[TT + ":RecordPoint.__call__"] = rp_call
        jaxpr = Rec(constvars=[], invars=[xv], eqns=eqns, outvars=[cur_var])
        ot = E.opaque("out_tree_value")
        x = E.opaque("x", "array")
        E.assume(z3.Not(I.T.is_None(x.t)))
        for g_ in [r.fields["callable"] for r in rps]:
            pass
        I.to_u_none_guard = True
        st, res = E.attempt(lambda: E.call(CPS, jaxpr, [], [x], NativeFn("out_tree", lambda I_: ot)))
        E.require(f"C31.eval_jaxpr_time_travel.program_does_not_raise[{shape}]", st == "ok", raised=str(res))
        final, nxt = res
        unfl = lambda v: E.ctx.fn("tree_unflatten", U, U, U)(ot.t, I.to_u([UVal(v)]))

        def run(v, from_idx):
            """reference: evaluate equations from_idx.. on value v, record points being plain calls"""
            k = 0
            for i, ch in enumerate(shape):
                if ch == "p":
                    if i >= from_idx:
                        v = p(prims[k], UVal(v))
                    k += 1
                else:
                    if i >= from_idx:
                        v = app(rps[sum(1 for c in shape[:i] if c == "r")].fields["callable"].t, I.to_u((UVal(v),)))
            return v
        E.prove(f"C31.time_travel.final_retval_is_f_of_the_arguments[{shape}]", I.to_u(final) == unfl(run(x.t, 0)))
        first = shape.index("r")
        E.require(f"C31.time_travel.first_recorded_call_is_reported[{shape}]",
                  isinstance(nxt, tuple) and len(nxt) == 2 and is_obj(nxt[1], "FrameRecording"))
        tg, fr = nxt
        arg_at = run(x.t, 0) if False else None
        # value flowing into the first record point
        v_in = x.t
        k = 0
        for ch in shape[:first]:
            v_in = p(prims[k], UVal(v_in))
            k += 1
        E.prove(f"C31.time_travel.frame_has_the_call_s_tag_arguments_and_local_return_value[{shape}]", E.And(
            tg == "tag0", E.eq(fr.fields["f"], rps[0].fields["callable"]), E.eq(fr.fields["args"], (UVal(v_in),)),
            I.to_u(fr.fields["local_retval"]) == app(rps[0].fields["callable"].t, I.to_u((UVal(v_in),)))))
        # remix semantics: the stored continuation on NEW arguments = the rest of f with that call recomputed
        y = E.opaque("y", "array")
        E.assume(z3.Not(I.T.is_None(y.t)))
        st2, again = E.attempt(lambda: I.call(fr.fields["cont"], [y], {}))
        E.require(f"C31.time_travel.stored_continuation_runs[{shape}]", st2 == "ok", raised=str(again))
        E.prove(f"C31.time_travel.stored_continuation_is_the_rest_of_f_with_the_call_recomputed[{shape}]",
                I.to_u(again) == unfl(run(y.t, first)))
        # "one frame per recorded call": _record finds the NEXT frame by staging this continuation, so every later record point
        # must go through record_p again when the continuation runs - whether its arguments are traced or concrete
        del rebound[:]
        I.call(fr.fields["cont"], [y], {})
        later = rps[1:]
        E.prove(f"C31.time_travel.continuation_rebinds_every_later_record_point_in_order[{shape}]",
                len(rebound) == len(later) and all(a is b for a, b in zip(rebound, later)))
        E.refutable(f"time_travel.cps.program[{shape}]", I.to_u(final) == unfl(x.t))
    return t


for _s in ("r", "prp", "rr", "rp"):
    _cps_program(_s)


@task("time_travel.entry", props=["C31"], functions=[TT + ":TimeTravelCPSInterpreter.time_travel", TT + ":time_travel"])
def t_entry(E):
    """time_travel(f)(*args): the function is staged on the arguments and the CPS interpreter is run on EXACTLY the staged
    program - its jaxpr (every equation of it: a record point whose value is never used is still a recorded call), its
    literals, the flat arguments and the output tree.  Staging is external (A11)."""
    I = E.I
    lits_m, flat_m, tree_m = E.opaque("staged_literals"), E.opaque("flat_args"), E.opaque("out_tree")
    # the staged jaxpr: a record with the usual attributes (code that inspects or rewrites it can run), compared by identity
    jaxpr_m = Rec(constvars=[], invars=[E.opaque("v_in", "var")], eqns=[E.opaque("eqn0"), E.opaque("eqn1")],
                  outvars=[E.opaque("v_out", "var")], effects=E.opaque("effects"), debug_info=None)
    staged_on, runs = [], []

    def stage(I_, f):
        def staged(I2, *args):
            staged_on.append((f, list(args)))
            return (Rec(jaxpr=jaxpr_m, literals=lits_m), (flat_m, None, tree_m))
        return NativeFn("staged", staged)
    I.module_cache[(TT, "stage")] = NativeFn("stage", stage)
    res = E.ctx.fn("cps_interpreter_result", U, U, U, U, U)

    jx = E.opaque("the_staged_jaxpr_as_a_value")

    def eval_tt(I_, jaxpr, consts, flat_args, out_tree):
        runs.append((jaxpr, consts, flat_args, out_tree))
        ju = jx.t if jaxpr is jaxpr_m else I_.ctx.const("another_jaxpr", U)
        return UVal(res(ju, I_.to_u(consts), I_.to_u(flat_args), I_.to_u(out_tree)))
    I.overrides[TT + ":TimeTravelCPSInterpreter.eval_jaxpr_time_travel"] = eval_tt
    f = E.opaque("f", "Callable")
    x, y = E.opaque("x"), E.opaque("y")
    st, got = E.attempt(lambda: I.call(E.call(TT + ":time_travel", f), [x, y], {}))
    E.require("C31.time_travel.entry.does_not_raise", st == "ok", raised=str(got))
    E.require("C31.time_travel.entry.stages_once_and_interprets_once", len(staged_on) == 1 and len(runs) == 1)
    E.prove("C31.time_travel.entry.stages_the_function_on_the_arguments",
            z3.And(I.to_u(staged_on[0][0]) == f.t, I.to_u(staged_on[0][1]) == I.to_u([x, y])))
    E.require("C31.time_travel.entry.interprets_the_staged_jaxpr_itself_every_equation_of_it", runs[0][0] is jaxpr_m)
    E.prove("C31.time_travel.entry.interprets_exactly_the_staged_program", z3.And(
        I.to_u(runs[0][1]) == lits_m.t, I.to_u(runs[0][2]) == flat_m.t, I.to_u(runs[0][3]) == tree_m.t,
        I.to_u(got) == res(jx.t, lits_m.t, flat_m.t, tree_m.t)))
    E.refutable("time_travel.entry", x.t == y.t)
