"""Step obligations for the static language (static.py): the real `handle_trace` / `record` / key handling of every
handler, on an ARBITRARY handler state and an arbitrary trace site (addr, G, args).   C01-C08, C22, C38, C04.

Handler state: `traces` is a symbolic finite map, counters and accumulators are symbolic; ghost sums over `traces` follow
the insertion lemma of finite sums (A6)."""
from pyvc.task import task
from pyvc.values import Obj, SBool, SInt, SReal, SymMap, TupleT, UVal
from .common import *

S_ = STATIC + ":"
FUNCS = [S_ + "StaticHandler.record", S_ + "StaticHandler.__init__"] + \
        [S_ + h + "." + m for h in ("SimulateHandler", "GenerateHandler", "UpdateHandler", "StaticEditRequestHandler",
                                    "RegenerateRequestHandler") for m in ("__init__", "fresh_key_and_increment", "handle_trace")] + \
        [S_ + "AssessHandler.__init__", S_ + "AssessHandler.handle_trace", S_ + "AssessHandler.get_subsample",
         S_ + "GenerateHandler.get_subconstraint", S_ + "UpdateHandler.get_subconstraint", S_ + "UpdateHandler.get_inner_trace",
         S_ + "StaticEditRequestHandler.get_subrequest", S_ + "StaticEditRequestHandler.get_subtrace",
         S_ + "RegenerateRequestHandler.get_subselection", S_ + "RegenerateRequestHandler.get_subtrace",
         S_ + "StaticTrace.get_inner_trace"]


def site(E):
    return E.opaque("addr", "str"), G(E), E.opaque("site_args", "tuple")


def spy_site_key(E, h):
    """the keys the handler hands to the sites it visits, OBSERVED at the real fresh_key_and_increment (however the handler
    derives them: the step obligations do not mention the derivation scheme; that the keys of different sites are independent
    and derive from the caller's key is the subject of the static.keys.* tasks)"""
    fv = E.I.getattr(h, "fresh_key_and_increment").func
    seen = []

    def spy(I, self_):
        r = I.call_function(fv, [self_], {}, no_override=True)
        seen.append(r)
        return r
    E.I.overrides[f"{fv.module.name}:{fv.name}"] = spy
    return seen


def arbitrary_state(E, h, with_key=True):
    """overwrite the freshly initialised handler state by an arbitrary reachable one"""
    SL = E.I.SL
    init_ok = isinstance(h.fields["traces"], dict) and not h.fields["traces"]
    sites = SL.fresh_sites("traces")
    h.fields["traces"] = sites
    if with_key:
        c = E.int("key_counter", conc=True)
        E.assume(c.t >= 1)
        h.fields["key_counter"] = c
        return sites, c, init_ok
    return sites, None, init_ok


def record_clauses(E, pid, name, before, h, addr, tr_t, got):
    """C22: record raises AddressReuse iff addr already traced, else traces' = traces[addr := tr] and nothing else"""
    z3 = E.z3
    had = z3.Select(before.has, addr.t)
    if got[0] == "raise":
        E.prove(f"C22.{name}.handle_trace.raises_AddressReuse_only_on_reuse", E.And(got[1].kind == "AddressReuse", had))
        return False
    after = h.fields["traces"]
    E.prove(f"C22.{name}.handle_trace.no_silent_overwrite", z3.Not(had))
    E.prove(f"C22.{name}.handle_trace.records_exactly_this_site", E.And(
        after.has == z3.Store(before.has, addr.t, True), after.val == z3.Store(before.val, addr.t, tr_t)))
    return True


@task("static.step.simulate", props=["C01", "C02", "C04", "C22"], functions=FUNCS)
def t_sim(E):
    z3, T, SL = E.z3, E.I.T, E.I.SL
    k = key(E)
    h = E.I.call(E.cls(S_ + "SimulateHandler"), [k], {})
    sites, c, init_ok = arbitrary_state(E, h)
    E.prove("C04.SimulateHandler.init.no_sites", init_ok)
    before = sites.copy()
    addr, g, a = site(E)
    seen = spy_site_key(E, h)
    got = E.attempt(lambda: E.method(h, "handle_trace", addr, g, a))
    E.cover("static.step.simulate.reached")
    if got[0] != "raise":
        E.require("C04.SimulateHandler.handle_trace.hands_one_fresh_key_to_the_site", len(seen) == 1)
    tr = T.sim(g.t, E.I.to_u(seen[-1]), a.t) if seen else None       # the callee simulated with the key the site was handed
    if record_clauses(E, "C22", "SimulateHandler", before, h, addr, tr, got):
        E.prove("C01.SimulateHandler.handle_trace.returns_site_retval", E.eq(got[1], UVal(T.tr_retval(tr))))
        E.refutable("static.step.simulate", T.tr_score(tr) == 0)


def _two_sites(E, cls, fname, extra_args):
    """C04 for the static language: two consecutive trace sites visited from an ARBITRARY reachable handler state (any site
    counter, any handler key that descends from the caller's key).  Whatever derivation scheme the handler uses, the keys it
    hands to the two sites descend from the caller's key and neither is an ancestor-or-equal of the other; the state after
    the first site is again of the assumed form (so this covers every pair of consecutive sites of every program)."""
    from theory import keys as K
    z3, T, I = E.z3, E.I.T, E.I
    k = key(E)
    h = E.I.call(E.cls(S_ + cls), [k] + (extra_args(E) if callable(extra_args) else extra_args), {})
    sites, c, init_ok = arbitrary_state(E, h)
    hk = key(E, "handler_key_now")
    depth = K._fns(I)[0]
    E.assume(z3.And(depth(k.t) >= 0, depth(hk.t) >= 0, K._fns(I)[1](hk.t, depth(hk.t)) == hk.t, K.ancestor_or_equal(I, k.t, hk.t)))
    E.prove(f"C04.{cls}.init.handler_key_is_the_given_key", E.eq(h.fields["key"], k))
    h.fields["key"] = hk
    (ad1, g1, a1), (ad2, g2, a2) = site(E), site(E)
    E.assume(ad1.t != ad2.t)
    prev_sites = getattr(E, "_prev_sites", None)
    if prev_sites is not None:          # an edit handler: both sites have a previous sub-trace of their callee, arguments are argdiffs
        for ad_, g_, a_ in ((ad1, g1, a1), (ad2, g2, a2)):
            T.trace_facts(z3.Select(prev_sites.val, ad_.t), g=g_.t)
            E.assume(T.d_is_tree(a_.t))
    st1, _ = E.attempt(lambda: E.method(h, "handle_trace", ad1, g1, a1))
    if st1 != "ok":
        return
    hk1 = h.fields["key"]
    t1 = z3.simplify(z3.Select(h.fields["traces"].val, ad1.t))
    st2, _ = E.attempt(lambda: E.method(h, "handle_trace", ad2, g2, a2))
    if st2 != "ok":
        return
    E.cover(f"static.keys.{cls}.two_sites")
    t2 = z3.simplify(z3.Select(h.fields["traces"].val, ad2.t))
    k1, k2 = K.key_of(t1, fname), K.key_of(t2, fname)
    E.require(f"C04.{cls}.handle_trace.each_site_runs_the_callee_with_a_key", k1 is not None and k2 is not None)
    for nm, kk in (("first", k1), ("second", k2)):
        E.prove(f"C04.{cls}.handle_trace.{nm}_site_key_descends_from_the_given_key", E.Implies(
            z3.And(K.facts(I, [kk, k.t, hk.t], [depth(k.t)])), K.ancestor_or_equal(I, k.t, kk)))
    E.prove(f"C04.{cls}.handle_trace.consecutive_sites_draw_independently", K.independent(I, k1, k2))
    E.prove(f"C04.{cls}.handle_trace.handler_key_still_descends_from_the_given_key", E.Implies(
        z3.And(K.facts(I, [I.to_u(hk1), k.t, hk.t], [depth(k.t)])), K.ancestor_or_equal(I, k.t, I.to_u(hk1))))
    # a site key is never the handler's own key (from which later site keys are derived)
    E.prove(f"C04.{cls}.handle_trace.site_key_is_not_the_key_later_sites_derive_from", E.Implies(
        z3.And(K.facts(I, [k1, k2, I.to_u(h.fields["key"]), hk.t], [depth(k1), depth(k2)])),
        z3.And(z3.Not(K.ancestor_or_equal(I, k1, I.to_u(h.fields["key"]))), z3.Not(K.ancestor_or_equal(I, k2, I.to_u(h.fields["key"]))))))
    E.refutable(f"static.keys.{cls}", k1 == k2)


@task("static.keys.simulate", props=["C04"], functions=FUNCS)
def t_keys_sim(E):
    _two_sites(E, "SimulateHandler", "gf_simulate", [])


@task("static.keys.generate", props=["C04"], functions=FUNCS)
def t_keys_gen(E):
    _two_sites(E, "GenerateHandler", "gf_generate_tr", [chm(E, "constraint")])


@task("static.step.assess", props=["C01", "C02", "C22"], functions=FUNCS)
def t_assess(E):
    z3, T, SL = E.z3, E.I.T, E.I.SL
    sample = chm(E, "sample")
    h = E.I.call(E.cls(S_ + "AssessHandler"), [sample], {})
    E.prove("C02.AssessHandler.init.score_starts_at_0", E.eq(h.fields["score"], 0.0))
    s0 = E.real("score_so_far")
    h.fields["score"] = s0
    addr, g, a = site(E)
    sub = T.chm_inner(sample.t, addr.t)
    got = E.attempt(lambda: E.method(h, "handle_trace", addr, g, a))
    missing = T.chm_static_empty(sub)
    if got[0] == "raise":
        E.prove("C22.AssessHandler.handle_trace.raises_MissingAddress_only_when_no_value", E.And(got[1].kind == "MissingAddress", missing))
        return
    E.prove("C22.AssessHandler.handle_trace.missing_address_is_reported", z3.Not(missing))
    E.prove("C02.AssessHandler.handle_trace.adds_site_density",
            E.eq(h.fields["score"], SReal(s0.t + T.assess_score(g.t, sub, a.t))))
    E.prove("C02.AssessHandler.handle_trace.returns_site_retval", E.eq(got[1], UVal(T.assess_ret(g.t, sub, a.t))))
    # lockstep with the run that produced the sample: if the sample holds the choices of a well-formed site trace `tr` of G
    # at these arguments, assess returns tr's return value and adds tr's score  (=> same next site, by A11)
    tr = T.abstract_trace("site_trace", g=g.t)
    E.prove("C01.AssessHandler.handle_trace.lockstep", E.Implies(
        z3.And(T.tr_args(tr.t) == a.t, sub == T.tr_choices(tr.t)),
        E.And(E.eq(got[1], E.method(tr, "get_retval")), E.eq(h.fields["score"], SReal(s0.t + T.tr_score(tr.t))))))
    E.refutable("static.step.assess", E.eq(h.fields["score"], s0))


@task("static.step.generate", props=["C01", "C03", "C04", "C22"], functions=FUNCS)
def t_generate(E):
    z3, T, SL = E.z3, E.I.T, E.I.SL
    k, cn = key(E), chm(E, "constraint")
    h = E.I.call(E.cls(S_ + "GenerateHandler"), [k, cn], {})
    sites, c, init_ok = arbitrary_state(E, h)
    E.prove("C03.GenerateHandler.init.weight_starts_at_0", E.And(init_ok, E.eq(h.fields["weight"], 0.0)))
    w0 = E.real("weight_so_far")
    h.fields["weight"] = w0
    before = sites.copy()
    addr, g, a = site(E)
    sub_c = T.chm_inner(cn.t, addr.t)
    seen = spy_site_key(E, h)
    got = E.attempt(lambda: E.method(h, "handle_trace", addr, g, a))
    if got[0] != "raise":
        E.require("C04.GenerateHandler.handle_trace.hands_one_fresh_key_to_the_site", len(seen) == 1)
    tr = T.gen_tr(g.t, E.I.to_u(seen[-1]), sub_c, a.t) if seen else None
    if record_clauses(E, "C22", "GenerateHandler", before, h, addr, tr, got):
        E.prove("C03.GenerateHandler.handle_trace.site_gets_its_subconstraint_and_weight_accumulates",
                E.eq(h.fields["weight"], SReal(w0.t + T.cdens(tr, sub_c))))
        E.prove("C03.GenerateHandler.handle_trace.returns_site_retval", E.eq(got[1], UVal(T.tr_retval(tr))))
        E.prove("C03.GenerateHandler.handle_trace.site_agrees_with_subconstraint", T.agrees(T.tr_choices(tr), sub_c))
        E.refutable("static.step.generate", E.eq(h.fields["weight"], w0))


def previous_trace(E):
    """an arbitrary StaticTrace: gen_fn/args/retval opaque, sub-traces an arbitrary finite map of well-formed traces"""
    SL = E.I.SL
    prev_sites = SL.fresh_sites("prev_sites")
    prev = E.new(S_ + "StaticTrace", gen_fn=E.opaque("static_gf", "GenerativeFunction"), args=E.opaque("prev_args", "tuple"),
                 retval=E.opaque("prev_retval"), subtraces=prev_sites)
    return prev, prev_sites


class _U:
    """a value together with its injection into U (so that `a.t` reads the same for opaque and structured site arguments)"""

    def __init__(self, t):
        self.t = t


def _edit_step(kind, structured=False):
    cls = {"update": "UpdateHandler", "static_request": "StaticEditRequestHandler", "regenerate": "RegenerateRequestHandler"}[kind]

    @task(f"static.step.{kind}" + ("[structured argdiffs]" if structured else ""),
          props=["C01", "C05", "C06", "C07", "C08", "C22", "C38", "C04"], functions=FUNCS)
    def t(E):
        z3, T, SL = E.z3, E.I.T, E.I.SL
        k = key(E)
        prev, prev_sites = previous_trace(E)
        addr, g, a = site(E)
        if structured:
            # the callee's arguments as a concrete tuple of argdiffs: a plain leaf tagged NoChange and a STRUCTURED argument
            # (a tuple) one of whose leaves changed - a handler that inspects only the top level of the tuple sees no change
            a_val = (diff(E, E.opaque("arg0"), NoChange(E)),
                     (diff(E, E.opaque("arg1a"), UnknownChange(E)), diff(E, E.opaque("arg1b"), NoChange(E))))
            a_call, a = a_val, _U(E.I.to_u(a_val))
        else:
            a_call = a
            E.assume(T.d_is_tree(a.t))            # at an edit, the site arguments are argdiffs
        if kind == "update":
            what = chm(E, "constraint")
            h = E.I.call(E.cls(S_ + cls), [k, prev, what], {})
        elif kind == "static_request":
            what = SymMap(E.ctx.const("addressed_dom", z3.ArraySort(U, z3.BoolSort())),
                          E.ctx.const("addressed_val", z3.ArraySort(U, U)), "EditRequest", "addressed")
            h = E.I.call(E.cls(S_ + cls), [k, prev, what], {})
        else:
            what = E.opaque("selection", "Selection")
            h = E.I.call(E.cls(S_ + cls), [k, prev, what, E.new(REQ + ":Regenerate", selection=what)], {})
        sites, c, init_ok = arbitrary_state(E, h)
        E.prove(f"C05.{cls}.init.weight_0_no_sites", E.And(init_ok, E.eq(h.fields["weight"], 0.0)))
        w0 = E.real("weight_so_far")
        h.fields["weight"] = w0
        bkey = "bwd_constraints" if kind == "update" else "bwd_requests"
        b0 = [E.opaque("earlier_bwd")]
        h.fields[bkey] = list(b0)
        before = sites.copy()
        has_prev = z3.Select(prev_sites.has, addr.t)
        sub_old = UVal(z3.Select(prev_sites.val, addr.t), "Trace")
        T.trace_facts(sub_old.t, g=g.t)                      # the previous site trace is a well-formed trace of G
        seen = spy_site_key(E, h)
        got = E.attempt(lambda: E.method(h, "handle_trace", addr, g, a_call))
        if got[0] == "raise" and got[1].kind == "KeyError":
            E.prove(f"C05.{cls}.handle_trace.KeyError_only_when_site_is_new", z3.Not(has_prev))
            return
        E.require(f"C04.{cls}.handle_trace.hands_one_fresh_key_to_the_site", len(seen) == 1)
        sub_key = E.I.to_u(seen[-1])          # the key the site was handed, however the handler derives it (static.keys.*)
        # which request reaches the site
        if kind == "update":
            req = update(E, UVal(T.chm_inner(what.t, addr.t), "ChoiceMap"))
        elif kind == "regenerate":
            req = E.new(REQ + ":Regenerate", selection=UVal(T.sel_sub(what.t, addr.t), "Selection"))
        else:
            req = None
        if req is not None:
            rq = E.I.to_u(req)
            tr = T.edit_tr(g.t, sub_key, sub_old.t, rq, a.t)
            w = T.edit_w(g.t, sub_key, sub_old.t, rq, a.t)
            rd = T.edit_rd(g.t, sub_key, sub_old.t, rq, a.t)
            if record_clauses(E, "C22", cls, before, h, addr, tr, got):
                pid = "C05" if kind == "update" else "C07"
                E.prove(f"{pid}.{cls}.handle_trace.site_request_key_and_weight", E.And(
                    E.eq(h.fields["weight"], SReal(w0.t + w)), E.eq(got[1], UVal(rd, "retdiff"))))
                bw = T.edit_bwd(g.t, sub_key, sub_old.t, rq, a.t)
                new_b = h.fields[bkey]
                want_b = UVal(E.ctx.fn("update_bwd_constraint", U, U)(bw), "ChoiceMap") if kind == "update" else UVal(bw, "EditRequest")
                E.prove(f"C06.{cls}.handle_trace.backward_request_appended_in_visit_order",
                        E.And(len(new_b) == 2, E.eq(new_b[0], b0[0]), E.I.to_u(new_b[-1]) == E.I.to_u(want_b) if kind != "update" else E.eq(new_b[-1], want_b)))
                E.refutable(f"static.step.{kind}", E.eq(h.fields["weight"], w0))
        else:
            # StaticRequest: addressed sites get their sub-request, every other site EmptyRequest()
            addressed = z3.Select(what.has, addr.t)
            if got[0] == "raise":
                E.prove(f"C22.{cls}.handle_trace.raises_AddressReuse_only_on_reuse",
                        E.And(got[1].kind == "AddressReuse", z3.Select(before.has, addr.t)))
                return
            er = E.new(REQ + ":EmptyRequest")
            sub_req = UVal(z3.Select(what.val, addr.t), "EditRequest")
            after = h.fields["traces"]
            E.prove("C38.StaticEditRequestHandler.handle_trace.records_exactly_this_site",
                    after.has == z3.Store(before.has, addr.t, True))
            empty_res = E.method(er, "edit", UVal(sub_key, "key"), sub_old, a_call)
            new_b = h.fields[bkey]
            E.prove("C38.StaticEditRequestHandler.handle_trace.unaddressed_site_is_EmptyRequest_edit", E.Implies(
                z3.Not(addressed), E.And(
                    z3.Select(after.val, addr.t) == E.I.to_u(empty_res[0]),
                    E.eq(h.fields["weight"], E.I.binop("Add", w0, empty_res[1])),
                    E.I.to_u(got[1]) == E.I.to_u(empty_res[2]),
                    E.And(E.eq(new_b[0], b0[0]), E.I.to_u(new_b[-1]) == E.I.to_u(empty_res[3])) if len(new_b) == 2 else False)))
            # an addressed site is edited by ITS sub-request (applied through the site's generative function), with the site's
            # key, previous sub-trace and argdiffs; weight, retdiff and backward request are that edit's
            a1 = (g.t, sub_key, sub_old.t, sub_req.t, a.t)
            E.prove("C38.StaticEditRequestHandler.handle_trace.addressed_site_is_edited_by_its_own_subrequest", E.Implies(
                addressed, E.And(
                    z3.Select(after.val, addr.t) == T.edit_tr(*a1),
                    E.eq(h.fields["weight"], SReal(w0.t + T.edit_w(*a1))),
                    E.I.to_u(got[1]) == T.edit_rd(*a1),
                    E.And(E.eq(new_b[0], b0[0]), E.I.to_u(new_b[-1]) == T.edit_bwd(*a1)) if len(new_b) == 2 else False)),
                also=["C06", "C08"])
            E.refutable(f"static.step.{kind}", E.eq(h.fields["weight"], w0))
    return t


for _k in ("update", "static_request", "regenerate"):
    _edit_step(_k)
    _edit_step(_k, structured=True)


def _edit_keys(kind, props):
    """C04 for the edit handlers (a regenerated or newly visited site draws randomness too): two consecutive sites get keys
    that derive from the caller's key and are independent of each other"""
    cls = {"update": "UpdateHandler", "static_request": "StaticEditRequestHandler", "regenerate": "RegenerateRequestHandler"}[kind]

    def extra(E):
        z3 = E.z3
        prev, prev_sites = previous_trace(E)
        E._prev_sites = prev_sites
        if kind == "update":
            return [prev, chm(E, "constraint")]
        if kind == "regenerate":
            what = E.opaque("selection", "Selection")
            return [prev, what, E.new(REQ + ":Regenerate", selection=what)]
        return [prev, SymMap(E.ctx.const("addressed_dom", z3.ArraySort(U, z3.BoolSort())),
                             E.ctx.const("addressed_val", z3.ArraySort(U, U)), "EditRequest", "addressed")]

    @task(f"static.keys.{kind}", props=props, functions=FUNCS)
    def t(E):
        _two_sites(E, cls, "gf_edit_tr", extra)
    return t


_edit_keys("update", ["C04", "C05"])
_edit_keys("regenerate", ["C04", "C07"])


def _addr_tasks():
    """sequences of two trace sites with STRUCTURED (tuple) addresses that share components - the opaque address of the step
    obligations cannot tell ("a","b") from ("a","c") or ("x",) from "x" """
    @task("static.seq.assess_missing_sibling", props=["C22"], functions=FUNCS)
    def t_assess(E):
        z3, T = E.z3, E.I.T
        sample = chm(E, "sample")
        for first, second in ((("a", "b"), ("a", "c")), ("a", ("a", "c")), (("n", "p"), ("n", "q", "r"))):
            h = E.I.call(E.cls(S_ + "AssessHandler"), [sample], {})
            g1, g2 = G(E, "G1"), G(E, "G2")
            a1, a2 = E.opaque("args1", "tuple"), E.opaque("args2", "tuple")
            sub = lambda ad: T.chm_static_empty(E.I.to_u(E.method(sample, "get_submap", *(ad if isinstance(ad, tuple) else (ad,)))))
            st1, _ = E.attempt(lambda: E.method(h, "handle_trace", first, g1, a1))
            if st1 != "ok":
                continue
            st2, r2 = E.attempt(lambda: E.method(h, "handle_trace", second, g2, a2))
            tag = f"[{first}->{second}]"
            if st2 == "raise":
                E.prove("C22.AssessHandler.handle_trace.second_site.raises_MissingAddress_of_that_address_only_when_it_has_no_value" + tag,
                        E.And(r2.kind == "MissingAddress", sub(second), len(r2.eargs) == 1 and r2.eargs[0] == second))
            else:
                E.prove("C22.AssessHandler.handle_trace.second_site.a_missing_sibling_address_is_reported" + tag, z3.Not(sub(second)))
        E.refutable("static.seq.assess_missing_sibling", T.chm_static_empty(sample.t))

    @task("static.seq.record_same_address_twice", props=["C22"], functions=FUNCS)
    def t_record(E):
        for cls, extra in (("SimulateHandler", []), ("GenerateHandler", [chm(E, "constraint")])):
            for addr in ("x", ("x",), ("a", "x")):
                h = E.I.call(E.cls(S_ + cls), [key(E)] + extra, {})
                g1, g2 = G(E, "G1"), G(E, "G2")
                st1, _ = E.attempt(lambda: E.method(h, "handle_trace", addr, g1, E.opaque("args1", "tuple")))
                E.require(f"C22.{cls}.handle_trace.first_visit_of_an_address_is_accepted[{addr!r}]", st1 == "ok")
                st2, r2 = E.attempt(lambda: E.method(h, "handle_trace", addr, g2, E.opaque("args2", "tuple")))
                E.prove(f"C22.{cls}.handle_trace.second_visit_of_the_same_address_raises_AddressReuse[{addr!r}]",
                        st2 == "raise" and r2.kind == "AddressReuse")
        E.refutable("static.seq.record_same_address_twice", E.eq(E.real("p"), E.real("q")))

    @task("static.seq.generate_with_a_static_constraint", props=["C03", "C22"], functions=FUNCS)
    def t_generate_static(E):
        """GenerateHandler on a REAL Static constraint (built by the real ChoiceMap.d) with string and tuple addresses: the
        callee at a site gets exactly the constraint's sub-map at the site's address (the sub-map as the choice-map classes
        compute it: C17), for addresses that are constrained, partly constrained below, and unconstrained"""
        z3, T = E.z3, E.I.T
        v1, v2, v3 = E.real("v1"), E.real("v2"), E.real("v3")
        m = E.call(CM + ":ChoiceMap.d", {("a", "b"): v1, "y": v2, ("a", "c", "d"): v3})
        for addr in (("a", "b"), "y", ("a", "c"), ("a", "c", "d"), "z", ("a", "z")):
            k = key(E)
            h = E.I.call(E.cls(S_ + "GenerateHandler"), [k, m], {})
            g, a = G(E, "G1"), E.opaque("args1", "tuple")
            st, r = E.attempt(lambda: E.method(h, "handle_trace", addr, g, a))
            tag = f"[{addr!r}]"
            E.require("C03.GenerateHandler.handle_trace.static_constraint.does_not_raise" + tag, st == "ok")
            rec = h.fields["traces"].get(addr) if isinstance(h.fields["traces"], dict) else None
            E.require("C22.GenerateHandler.handle_trace.static_constraint.records_the_site_under_its_address" + tag, isinstance(rec, UVal))
            t = z3.simplify(rec.t)
            E.require("C03.GenerateHandler.handle_trace.static_constraint.runs_the_callee_generate" + tag,
                      z3.is_app(t) and t.decl().name() == "gf_generate_tr" and t.num_args() == 4)
            want = E.I.to_u(E.method(m, "get_submap", *(addr if isinstance(addr, tuple) else (addr,))))
            E.prove("C03.GenerateHandler.handle_trace.static_constraint.callee_gets_the_submap_at_the_site_address" + tag,
                    z3.And(t.arg(0) == g.t, t.arg(2) == want, t.arg(3) == a.t))
            E.prove("C03.GenerateHandler.handle_trace.static_constraint.weight_is_the_callee_weight" + tag,
                    E.eq(h.fields["weight"], SReal(T.cdens(t, t.arg(2)))))
        E.refutable("static.seq.generate_with_a_static_constraint", E.eq(v1, v2))
    return t_assess, t_record


_addr_tasks()
