"""Glue obligations for the static language: the REAL *_transform functions, StaticTrace and StaticGenerativeFunction
methods, with the program run replaced by the model of theory/static_lang.py  (C01-C03, C05-C08, C10, C32, C34, C38)."""
from pyvc.task import task
from pyvc.values import Obj, SBool, SInt, SReal, StarOpaque, SymMap, TupleT, UVal
from .common import *

S_ = STATIC + ":"
PYTREE = "genjax._src.core.pytree"
FUNCS = [S_ + "StaticGenerativeFunction." + m for m in ("simulate", "generate", "assess", "project", "edit_update",
                                                        "edit_static_edit_request", "edit_regenerate", "edit",
                                                        "handle_kwargs", "partial_apply")] + \
        [S_ + f for f in ("simulate_transform", "assess_transform", "generate_transform", "update_transform",
                          "static_edit_request_transform", "regenerate_transform", "gen")] + \
        [S_ + "StaticTrace." + m for m in ("get_args", "get_retval", "get_gen_fn", "get_score", "get_inner_trace")] + \
        [S_ + "SimulateHandler.yield_state", S_ + "AssessHandler.yield_state", S_ + "GenerateHandler.yield_state",
         S_ + "UpdateHandler.yield_state", PYTREE + ":Closure.__call__"]


def sgf(E):
    prog = E.opaque("program")
    src = E.new(PYTREE + ":Closure", dyn_args=(), fn=prog)
    return E.new(S_ + "StaticGenerativeFunction", source=src), src


def wf(E, gf, tr):
    score, ret = E.method(gf, "assess", E.method(tr, "get_choices"), E.method(tr, "get_args"))
    return E.And(E.eq(score, E.method(tr, "get_score")), E.eq(ret, E.method(tr, "get_retval")))


@task("static.gfi.simulate_assess", props=["C01", "C02", "C04", "C22"], functions=FUNCS)
def t_simulate(E):
    z3, T, SL = E.z3, E.I.T, E.I.SL
    gf, src = sgf(E)
    k, args = key(E), E.opaque("args", "tuple")
    tr = E.method(gf, "simulate", k, args)
    sites = tr.fields["subtraces"]
    E.cover("static.gfi.simulate.reached")
    E.prove("C01.StaticGenerativeFunction.simulate.view", E.And(
        E.eq(E.method(tr, "get_args"), args), E.eq(E.method(tr, "get_gen_fn"), gf), isinstance(sites, SymMap),
        E.eq(E.method(tr, "get_retval"), UVal(SL.prog_ret(E.I.to_u(src), args.t, sites.has, sites.val)))))
    E.prove("C02.StaticTrace.get_score.is_sum_of_site_scores",
            E.eq(E.method(tr, "get_score"), SReal(SL.mapsum(sites, "tr_score(x)"))))
    E.prove("C04.StaticGenerativeFunction.simulate.handler_gets_the_given_key",
            sites.has == SL.sim_sites_has(E.I.to_u(src), k.t, args.t))
    SL.lockstep_assess(sites, E.I.to_u(src), args.t)
    E.prove("C01.StaticGenerativeFunction.simulate.wf", wf(E, gf, tr))
    # assess on an arbitrary choice map: (score, retval) in this order, from the handler state
    c = chm(E, "sample")
    s, r = E.method(gf, "assess", c, args)
    E.prove("C02.StaticGenerativeFunction.assess.returns_score_then_retval", E.And(
        E.eq(s, SReal(E.ctx.fn("static_assess_score", U, U, U, z3.RealSort())(E.I.to_u(src), c.t, args.t))),
        E.eq(r, UVal(E.ctx.fn("static_assess_ret", U, U, U, U)(E.I.to_u(src), c.t, args.t)))))
    E.refutable("static.gfi.simulate_assess", E.eq(E.method(tr, "get_score"), 0.0))


@task("static.gfi.generate", props=["C01", "C03"], functions=FUNCS)
def t_generate(E):
    z3, T, SL = E.z3, E.I.T, E.I.SL
    gf, src = sgf(E)
    k, args, c = key(E), E.opaque("args", "tuple"), chm(E, "constraint")
    tr, w = E.method(gf, "generate", k, c, args)
    sites = tr.fields["subtraces"]
    st = E.I.to_u(src)
    E.prove("C03.StaticGenerativeFunction.generate.returns_handler_weight_and_sites", E.And(
        E.eq(w, SReal(E.ctx.fn("generate_sites_weight", U, U, U, U, z3.RealSort())(st, k.t, c.t, args.t))),
        sites.has == E.ctx.fn("generate_sites_dom", U, U, U, U, z3.ArraySort(U, z3.BoolSort()))(st, k.t, c.t, args.t),
        E.eq(E.method(tr, "get_args"), args), E.eq(E.method(tr, "get_gen_fn"), gf),
        E.eq(E.method(tr, "get_retval"), UVal(SL.prog_ret(st, args.t, sites.has, sites.val)))))
    SL.lockstep_assess(sites, st, args.t)
    E.prove("C01.StaticGenerativeFunction.generate.wf", wf(E, gf, tr))
    E.refutable("static.gfi.generate", E.eq(w, 0.0))


def an_old_trace(E, gf):
    SL = E.I.SL
    sites = SL.fresh_sites("old_sites")
    return E.new(S_ + "StaticTrace", gen_fn=gf, args=E.opaque("old_args", "tuple"), retval=E.opaque("old_retval"),
                 subtraces=sites)


def _edit(kind):
    @task(f"static.gfi.edit_{kind}", props=["C01", "C05", "C06", "C07", "C08", "C38"], functions=FUNCS)
    def t(E):
        z3, T, SL = E.z3, E.I.T, E.I.SL
        gf, src = sgf(E)
        k = key(E)
        old = an_old_trace(E, gf)
        ad = E.opaque("argdiffs", "tuple")
        E.assume(T.d_is_tree(ad.t))
        if kind == "update":
            what = chm(E, "constraint")
            req = update(E, what)
        elif kind == "static_request":
            what = SymMap(E.ctx.const("addressed_dom", z3.ArraySort(U, z3.BoolSort())),
                          E.ctx.const("addressed_val", z3.ArraySort(U, U)), "EditRequest", "addressed")
            req = E.new(S_ + "StaticRequest", addressed=what)
        else:
            what = E.opaque("selection", "Selection")
            req = E.new(REQ + ":Regenerate", selection=what)
        new, w, rd, bwd = E.method(gf, "edit", k, old, req, ad)
        st = E.I.to_u(src)
        pu, tu = T.d_primal(ad.t), T.d_tangent(ad.t)
        f6 = lambda nm, rs: E.ctx.fn(nm, U, U, U, U, U, U, rs)(st, k.t, E.I.to_u(old), E.I.to_u(what), pu, tu)
        AB, AU = z3.ArraySort(U, z3.BoolSort()), z3.ArraySort(U, U)
        sites = new.fields["subtraces"]
        pid = {"update": "C05", "static_request": "C38", "regenerate": "C07"}[kind]
        E.cover(f"static.gfi.edit_{kind}.reached")
        E.prove(f"{pid}.StaticGenerativeFunction.edit_{kind}.new_trace_from_handler_state", E.And(
            E.eq(E.method(new, "get_args"), UVal(pu, "tuple")), E.eq(E.method(new, "get_gen_fn"), gf),
            sites.has == f6("edit_sites_dom", AB), sites.val == f6("edit_sites", AU),
            E.eq(w, SReal(f6("edit_sites_weight", z3.RealSort())))))
        # the change tags the incremental run of the program computed are what is returned: a NoChange tag on the returned
        # retdiff must come from the program run (which is sound by C09), never from wholesale re-tagging
        prog_rd = SL.prog_retdiff(st, pu, tu, sites.has, sites.val)
        # every leaf of the returned retdiff carries a change tag (the GFI's Retdiff type; callers branch on the tags)
        E.prove(f"{pid}.StaticGenerativeFunction.edit_{kind}.retdiff_is_a_full_diff_tree", T.is_diff_tree(rd))
        E.prove(f"C08.StaticGenerativeFunction.edit_{kind}.returned_tags_are_the_program_run_tags",
                E.Implies(T.all_nochange(rd), T.d_nc_all(prog_rd)))
        E.prove(f"C08.StaticGenerativeFunction.edit_{kind}.retdiff_primal_is_new_retval",
                E.eq(E.call(INC + ":Diff.tree_primal", rd), E.method(new, "get_retval")))
        E.prove(f"C01.StaticGenerativeFunction.edit_{kind}.retval_is_program_retval_on_new_args",
                E.eq(E.method(new, "get_retval"), UVal(SL.prog_ret(st, pu, sites.has, sites.val))))
        SL.lockstep_assess(sites, st, pu)
        E.prove(f"C01.StaticGenerativeFunction.edit_{kind}.wf", wf(E, gf, new))
        bw = f6("edit_sites_bwd", U)
        vals = E.ctx.fn("per_site_values", U, AU)(bw)
        if kind == "update":
            E.prove("C06.StaticGenerativeFunction.edit_update.bwd_is_update_of_per_site_constraints", E.And(
                isinstance(bwd, Obj) and bwd.cls.name == "Update",
                E.eq(fld(E, bwd, "constraint"), UVal(SL.chm_of_chms(sites.has, vals), "ChoiceMap"))))
        else:
            E.prove(f"C06.StaticGenerativeFunction.edit_{kind}.bwd_is_static_request_of_per_site_requests", E.And(
                isinstance(bwd, Obj) and bwd.cls.name == "StaticRequest",
                isinstance(fld(E, bwd, "addressed"), SymMap) and E.And(
                    fld(E, bwd, "addressed").has == sites.has, fld(E, bwd, "addressed").val == vals)),
                # (C38: a StaticRequest's result - backward request included - is made of the per-site results, keyed by the
                # addresses of the sites that were visited)
                also=["C38"] if kind == "static_request" else ())
        E.refutable(f"static.gfi.edit_{kind}", E.eq(w, 0.0))
    return t


for _k in ("update", "static_request", "regenerate"):
    _edit(_k)


@task("static.gfi.project", props=["C10", "C34", "C25"], functions=FUNCS)
def t_project(E):
    """project sums the sub-projections: executed on a concrete two-site trace (the loop is over a Python dict)"""
    z3, T = E.z3, E.I.T
    gf, src = sgf(E)
    k = key(E)
    t1, t2 = T.abstract_trace("site1"), T.abstract_trace("site2")
    old = E.new(S_ + "StaticTrace", gen_fn=gf, args=E.opaque("old_args", "tuple"), retval=E.opaque("old_retval"),
                subtraces={"x": t1, ("y", "z"): t2})
    s = E.opaque("sel", "Selection")
    p = E.method(gf, "project", k, old, s)
    g1, g2 = T.tr_genfn(t1.t), T.tr_genfn(t2.t)
    sx = T.sel_sub(s.t, E.I.to_u("x"))
    syz = T.sel_sub(T.sel_sub(s.t, E.I.to_u("y")), E.I.to_u("z"))
    E.prove("C10.StaticGenerativeFunction.project.sums_subprojections_with_subselections",
            E.eq(p, SReal(T.proj(g1, t1.t, sx) + T.proj(g2, t2.t, syz))),
            # (C25: Marginal.random_weighted's weight is score - project(~selection) of the wrapped function's trace: a
            # selection that keeps part of a callee is weighed correctly only if project recurses with the sub-selection)
            also=["C25"])
    E.prove("C34.StaticTrace.get_inner_trace.returns_site_trace", E.And(
        E.eq(E.method(old, "get_subtrace", "x"), t1), E.eq(E.method(old, "get_subtrace", ("y", "z")), t2)))
    E.prove("C02.StaticTrace.get_score.two_sites", E.eq(E.method(old, "get_score"), SReal(T.tr_score(t1.t) + T.tr_score(t2.t))))
    E.refutable("static.gfi.project", E.eq(p, SReal(T.proj(g1, t1.t, sx))))


@task("static.gfi.kwargs_partial", props=["C32"], functions=FUNCS)
def t_kwargs(E):
    """handle_kwargs(): source'(args, kwargs) = source(*args, **kwargs);  partial_apply prepends stored arguments"""
    gf, src = sgf(E)
    kwf = E.method(gf, "handle_kwargs")
    a, b = E.real("a"), E.real("b")
    kw = {"scale": E.real("scale")}
    got = E.I.call(kwf.fields["source"], [(a, b), kw], {})
    want = E.I.call(src, [a, b], dict(kw))
    E.prove("C32.StaticGenerativeFunction.handle_kwargs.equivalent_to_keyword_call", E.eq(got, want))
    pa = E.method(gf, "partial_apply", a)
    E.prove("C32.StaticGenerativeFunction.partial_apply.prepends_stored_args",
            E.eq(E.I.call(pa.fields["source"], [b], {}), E.I.call(src, [a, b], {})))
    E.prove("C32.StaticGenerativeFunction.partial_args", E.eq(E.I.getattr(pa, "partial_args"), (a,)))
    # partially applied arguments AND keyword arguments together
    pkw = E.method(pa, "handle_kwargs")
    E.prove("C32.StaticGenerativeFunction.handle_kwargs.keeps_partially_applied_arguments",
            E.eq(E.I.call(pkw.fields["source"], [(b,), kw], {}), E.I.call(src, [a, b], dict(kw))))
    pa2 = E.method(pa, "partial_apply", b)
    E.prove("C32.StaticGenerativeFunction.partial_apply.composes",
            E.eq(E.I.call(pa2.fields["source"], [], {}), E.I.call(src, [a, b], {})))
