"""Contracts for adev/primitives.py and the loop-free parts of adev/core.py  (C29).

Continuations are abstract with the interpreter's call shapes (theory/adev.py: Kont); `jax.jvp` of an arithmetic closure is
evaluated with dual numbers (A7), so each estimator's output is compared with a polynomial closed form.  Unbiasedness of
the score-function estimators is the score-function identity over the proved form (assumed, A8/A10).
ADInterpreter.eval_jaxpr_adev (CPS over jaxprs) is under contract in contracts/adev_interp.py (schematic programs, cond included);
the wiring from Expectation / grad_estimate down to it is the task adev.wiring below."""
from pyvc.task import task
from pyvc.values import NativeFn, Obj, SBool, SInt, SReal, Stacked, TupleT, UVal
from theory.adev import Kont
from .common import *

A = "genjax._src.adev.core"
P = "genjax._src.adev.primitives"
R_ = None


def dual(E, p, t):
    return E.new(A + ":Dual", primal=p, tangent=t)


def parts(E, d):
    return d.fields["primal"], d.fields["tangent"]


def real_of(E, v):
    if isinstance(v, UVal):
        return SReal(E.ctx.fn("as_real", U, E.z3.RealSort())(v.t))
    return v


@task("adev.flip_enum", props=["C29"], functions=[P + ":FlipEnum.jvp_estimate"])
def t_flip_enum(E):
    z3 = E.z3
    K = Kont(E)
    k = key(E)
    p, dp = E.real("p"), E.real("dp")
    prim = E.new(P + ":FlipEnum")
    out = E.method(prim, "jvp_estimate", k, (dual(E, p, dp),), (K.kpure, K.kdual))
    T_, F_ = SBool(True, False), SBool(False, False)
    kT, kF = K.val(k.t, T_), K.val(k.t, F_)
    dkT, dkF = K.tan(k.t, T_, F_), K.tan(k.t, F_, F_)
    op, ot = parts(E, out)
    E.prove("C29.FlipEnum.primal_is_exact_expectation", E.eq(op, SReal(p.t * kT + (1 - p.t) * kF)))
    E.prove("C29.FlipEnum.tangent_is_exact_derivative_of_the_expectation",
            E.eq(ot, SReal(dp.t * kT + p.t * dkT - dp.t * kF + (1 - p.t) * dkF)))
    E.refutable("adev.flip_enum", E.eq(ot, SReal(p.t * dkT + (1 - p.t) * dkF)))


def _call_shape(cls, args_fn):
    @task(f"adev.call_shape.{cls}", props=["C29"], functions=[P + f":{cls}.jvp_estimate"])
    def t(E):
        K = Kont(E)
        k = key(E)
        prim = E.new(P + ":" + cls)
        got = E.attempt(lambda: E.method(prim, "jvp_estimate", k, args_fn(E), (K.kpure, K.kdual)))
        E.prove(f"C29.{cls}.jvp_estimate.calls_the_continuation_with_key_and_dual_tree", got[0] == "ok")
    return t


_call_shape("FlipMVD", lambda E: (dual(E, E.real("p"), E.real("dp")),))
_call_shape("FlipEnumParallel", lambda E: (dual(E, E.real("p"), E.real("dp")),))
_call_shape("CategoricalEnumParallel", lambda E: (dual(E, Stacked(3, lambda i: SReal(E.ctx.fn("probs", E.z3.IntSort(), E.z3.RealSort())(i))),
                                                       Stacked(3, lambda i: SReal(0.0))),))


@task("adev.reinforce", props=["C29"], functions=[P + ":REINFORCE.jvp_estimate", P + ":REINFORCE.sample", P + ":reinforce"])
def t_reinforce(E):
    z3 = E.z3
    K = Kont(E)
    k = key(E)
    samp_f = E.ctx.fn("sampler", U, U, U)
    sampler = NativeFn("sample_function", lambda I, key_, *a: UVal(samp_f(I.to_u(key_), I.to_u(tuple(a))), "array"))
    logpdf = E.opaque("differentiable_logpdf")
    prim = E.call(P + ":reinforce", sampler, logpdf)
    a, da = E.real("theta"), E.real("dtheta")
    out = E.method(prim, "jvp_estimate", k, (dual(E, a, da),), (K.kpure, K.kdual))
    from theory import keys as KY
    op, ot = parts(E, out)
    # the continuation's key and the sampling key are read off the result (whichever halves of whichever split they are)
    op_t = z3.simplify(op.t)
    E.require("C29.REINFORCE.jvp_estimate.returns_the_continuation_s_value_at_a_drawn_sample",
              z3.is_app(op_t) and op_t.decl().name() == "kont_value" and z3.is_app(z3.simplify(op_t.arg(1)))
              and z3.simplify(op_t.arg(1)).decl().name() == "sampler")
    k0, k1 = op_t.arg(0), z3.simplify(op_t.arg(1)).arg(0)
    E.prove("C29.REINFORCE.jvp_estimate.continuation_key_is_independent_of_the_sampling_key", z3.And(
        KY.independent(E.I, k0, k1), KY.derived_from(E.I, k0, k.t), KY.derived_from(E.I, k1, k.t)))
    v = UVal(samp_f(k1, E.I.to_u((a,))), "array")
    zl = UVal(E.ctx.fn("zeros_like", U, U)(v.t), "array")
    kv, dkv = K.val(k0, v), K.tan(k0, v, zl)
    dlogp = E.ctx.fn("jvp_tangent", U, U, U, z3.RealSort())(logpdf.t, E.I.to_u((v, a)), E.I.to_u((zl, da)))
    E.prove("C29.REINFORCE.primal_is_the_program_value_at_the_sample", E.eq(op, SReal(kv)))
    E.prove("C29.REINFORCE.tangent_has_score_function_form", E.eq(ot, SReal(dkv + kv * dlogp)))
    E.prove("C29.REINFORCE.sample_uses_a_split_key", E.eq(E.method(prim, "sample", UVal(k1, "key"), a), v))
    E.refutable("adev.reinforce", E.eq(ot, SReal(dkv)))


@task("adev.reparam_tailcall", props=["C29", "C04"], functions=[P + ":NormalREPARAM.before_tail_call", A + ":TailCallADEVPrimitive.jvp_estimate",
                                                          P + ":Uniform.before_tail_call"])
def t_reparam(E):
    z3 = E.z3
    K = Kont(E)
    k = key(E)
    mu, dmu, sg, dsg = E.real("mu"), E.real("dmu"), E.real("sigma"), E.real("dsigma")
    prim = E.new(P + ":NormalREPARAM")
    d = E.method(prim, "before_tail_call", k, (dual(E, mu, dmu), dual(E, sg, dsg)))
    bp, bt = parts(E, d)
    # eps is whatever the standard-normal draw with the split key returns: primal - mu = sigma * eps
    eps = E.real("eps_witness")
    E.prove("C29.NormalREPARAM.pathwise_form", E.Implies(
        E.eq(bp, SReal(mu.t + sg.t * eps.t)), E.Or(E.eq(bt, SReal(dmu.t + dsg.t * eps.t)), sg.t == 0)))
    out = E.method(prim, "jvp_estimate", k, (dual(E, mu, dmu), dual(E, sg, dsg)), (K.kpure, K.kdual))
    # the result is the continuation applied to (some key, the dual produced by before_tail_call under some key) ...
    from theory import keys as KY
    op_t = z3.simplify(out.fields["primal"].t)
    E.require("C29.TailCallADEVPrimitive.jvp_estimate.tail_calls_the_dual_continuation",
              z3.is_app(op_t) and op_t.decl().name() == "kont_value")
    kk, v = op_t.arg(0), op_t.arg(1)
    used = KY.keys_in(v, k.t)
    E.require("C29.TailCallADEVPrimitive.jvp_estimate.the_reparameterised_value_is_drawn_with_one_key", len(used) == 1)
    # ... where before_tail_call itself splits the key it is given: re-run it on the parent of the sampling key
    parent = KY.node(used[0])[0] if KY.node(used[0]) is not None else used[0]
    d2 = E.method(prim, "before_tail_call", UVal(parent, "key"), (dual(E, mu, dmu), dual(E, sg, dsg)))
    E.prove("C29.TailCallADEVPrimitive.jvp_estimate.continues_with_the_reparameterised_dual", E.And(
        E.eq(out.fields["primal"], SReal(K.val(kk, d2.fields["primal"]))),
        E.eq(out.fields["tangent"], SReal(K.tan(kk, d2.fields["primal"], d2.fields["tangent"])))))
    # ... and the key handed to the rest of the program is independent of the key the noise was drawn with (two consecutive
    # reparameterised sites must not share their noise), both derived from the caller's key
    pair_key_discipline(E, k, [kk, used[0]], "TailCallADEVPrimitive.jvp_estimate")
    E.prove("C29.TailCallADEVPrimitive.jvp_estimate.continuation_key_is_independent_of_the_sampling_key",
            KY.independent(E.I, kk, used[0]))
    u = E.method(E.new(P + ":Uniform"), "before_tail_call", k, ())
    E.prove("C29.Uniform.no_parameter_dependence", E.eq(real_of(E, u.fields["tangent"]), 0.0))
    E.refutable("adev.reparam_tailcall", E.eq(mu, sg))        # (a canary no code under check can make true)


@task("adev.mv_normal_reparam", props=["C29"], functions=[P + ":MvNormalREPARAM.before_tail_call"])
def t_mvn_reparam(E):
    """pathwise derivative of mu + chol(cov) @ eps: jax.jvp must be applied at the primals WITH the tangents of the dual tree
    (zero tangent for the noise)"""
    z3 = E.z3
    k = key(E)
    seen = {}

    def fake_jvp(I, f, primals, tangents):
        seen["primals"], seen["tangents"] = list(I.iterate(primals)), list(I.iterate(tangents))
        return (E.opaque("jvp_primal_out", "array"), E.opaque("jvp_tangent_out", "array"))
    E.I.ext["jax.jvp"] = fake_jvp
    mu, dmu = E.opaque("mu", "array"), E.opaque("dmu", "array")
    cov, dcov = E.opaque("cov", "array"), E.opaque("dcov", "array")
    E.I.abstract_methods[("array", "__len__")] = lambda I, s: SInt(E.ctx.fn("len_of", U, z3.IntSort())(s.t), True)
    prim = E.new(P + ":MvNormalREPARAM")
    st, d = E.attempt(lambda: E.method(prim, "before_tail_call", k, (dual(E, mu, dmu), dual(E, cov, dcov))))
    E.require("C29.MvNormalREPARAM.before_tail_call.differentiates_through_jax_jvp", st == "ok" and "tangents" in seen)
    ps, ts = seen["primals"], seen["tangents"]
    E.require("C29.MvNormalREPARAM.before_tail_call.jvp_over_noise_mean_and_covariance", len(ps) == 3 and len(ts) == 3)
    E.prove("C29.MvNormalREPARAM.before_tail_call.primals_are_the_parameter_primals", E.And(E.eq(ps[1], mu), E.eq(ps[2], cov)))
    E.prove("C29.MvNormalREPARAM.before_tail_call.tangents_are_the_parameter_tangents", E.And(E.eq(ts[1], dmu), E.eq(ts[2], dcov)))
    E.refutable("adev.mv_normal_reparam", E.eq(ps[1], cov))


def _jvp_wiring(name, cls, n_params, noise_position):
    """reparameterised primitives that differentiate a closure with jax.jvp: the closure must be differentiated AT the parameter
    primals WITH the parameter tangents of the dual tree (in the same order), and the result is the (primal, tangent) pair
    jax.jvp returns.  jax.jvp itself is external (A7)."""
    @task(f"adev.{name}", props=["C29", "C30"], functions=[P + f":{cls}.before_tail_call"])
    def t(E):
        z3 = E.z3
        k = key(E)
        seen = {}
        po, to = E.opaque("jvp_primal_out", "array"), E.opaque("jvp_tangent_out", "array")

        def fake_jvp(I, f, primals, tangents):
            seen["f"], seen["primals"], seen["tangents"] = f, list(I.iterate(primals)), list(I.iterate(tangents))
            return (po, to)
        E.I.ext["jax.jvp"] = fake_jvp
        draws = []

        class StdNormal:          # tfd.Normal(loc, scale): only .sample is needed; records what was asked for
            def __init__(self, loc, scale):
                self.loc, self.scale = loc, scale

            def pyvc_getattr(self, I, name):
                if name != "sample":
                    raise KeyError(name)

                def sample(I_, sample_shape=(), seed=None):
                    draws.append(dict(loc=self.loc, scale=self.scale, shape=sample_shape, seed=seed))
                    return UVal(E.ctx.fn("normal_draw", U, U, U)(I_.to_u(seed), I_.to_u(sample_shape)), "array")
                return NativeFn("Normal.sample", sample)
        for path in ("distributions.Normal", "tensorflow_probability.substrates.jax.distributions.Normal"):
            E.I.ext[path] = lambda I, loc=0.0, scale=1.0: StdNormal(loc, scale)
        ps_in = [E.opaque(f"param{j}", "array") for j in range(n_params)]
        ts_in = [E.opaque(f"dparam{j}", "array") for j in range(n_params)]
        prim = E.new(P + ":" + cls)
        st, d = E.attempt(lambda: E.method(prim, "before_tail_call", k, tuple(dual(E, p_, t_) for p_, t_ in zip(ps_in, ts_in))))
        E.require(f"C29.{cls}.before_tail_call.differentiates_through_jax_jvp", st == "ok" and "tangents" in seen, raised=str(d))
        ps, ts = seen["primals"], seen["tangents"]
        E.require(f"C29.{cls}.before_tail_call.jvp_over_the_parameters", len(ps) == n_params and len(ts) == n_params)
        E.prove(f"C29.{cls}.before_tail_call.primals_are_the_parameter_primals", E.And(*[E.eq(a, b) for a, b in zip(ps, ps_in)]))
        E.prove(f"C29.{cls}.before_tail_call.tangents_are_the_parameter_tangents", E.And(*[E.eq(a, b) for a, b in zip(ts, ts_in)]))
        E.prove(f"C29.{cls}.before_tail_call.returns_the_dual_jax_jvp_computed", E.And(
            is_obj(d, "Dual"), E.eq(d.fields["primal"], po), E.eq(d.fields["tangent"], to)))
        if noise_position == "standard_normal_per_component":
            # the reparameterisation noise: ONE standard-normal draw PER COMPONENT of the location (independent components),
            # with a key derived from the given key
            from theory import keys as KY
            E.require(f"C29.{cls}.before_tail_call.draws_its_noise_once_from_a_standard_normal", len(draws) == 1
                      and draws[0]["loc"] == 0.0 and draws[0]["scale"] == 1.0)
            E.prove(f"C29.{cls}.before_tail_call.noise_has_one_independent_component_per_component_of_the_location", z3.And(
                E.I.to_u(draws[0]["shape"]) == E.I.to_u(E.I.getattr(ps_in[0], "shape")),
                KY.derived_from(E.I, E.I.to_u(draws[0]["seed"]), k.t)), also=["C30"])
        E.refutable(f"adev.{name}", E.eq(ps[0], ts_in[0]))
    return t


_jvp_wiring("mv_normal_diag_reparam", "MvNormalDiagREPARAM", 2, "standard_normal_per_component")
_jvp_wiring("beta_implicit", "BetaIMPLICIT", 2, None)


@task("adev.baseline_addcost", props=["C29"], functions=[P + ":Baseline.jvp_estimate", P + ":AddCost.jvp_estimate", P + ":baseline"])
def t_baseline(E):
    z3 = E.z3
    K = Kont(E)
    k = key(E)
    samp_f = E.ctx.fn("sampler", U, U, U)
    sampler = NativeFn("sample_function", lambda I, key_, *a: UVal(samp_f(I.to_u(key_), I.to_u(tuple(a))), "array"))
    logpdf = E.opaque("differentiable_logpdf")
    inner = E.call(P + ":reinforce", sampler, logpdf)
    bl = E.call(P + ":baseline", inner)
    b, db, a, da = E.real("b"), E.real("db"), E.real("theta"), E.real("dtheta")
    out = E.method(bl, "jvp_estimate", k, (dual(E, b, db), dual(E, a, da)), (K.kpure, K.kdual))
    op, ot = parts(E, out)
    # the continuation's key and the sampling key are read off the result (as in adev.reinforce)
    op_t = z3.simplify(op.t)
    E.require("C29.Baseline.jvp_estimate.returns_the_continuation_s_value_at_a_drawn_sample",
              z3.is_app(op_t) and op_t.decl().name() == "kont_value" and z3.is_app(z3.simplify(op_t.arg(1)))
              and z3.simplify(op_t.arg(1)).decl().name() == "sampler")
    k0, k1 = op_t.arg(0), z3.simplify(op_t.arg(1)).arg(0)
    v = UVal(samp_f(k1, E.I.to_u((a,))), "array")
    zl = UVal(E.ctx.fn("zeros_like", U, U)(v.t), "array")
    kv, dkv = K.val(k0, v), K.tan(k0, v, zl)
    dlogp = E.ctx.fn("jvp_tangent", U, U, U, z3.RealSort())(logpdf.t, E.I.to_u((v, a)), E.I.to_u((zl, da)))
    E.prove("C29.Baseline.primal_unchanged_by_the_baseline", E.eq(op, SReal(kv)))
    E.prove("C29.Baseline.tangent_is_score_function_estimator_with_baseline",
            E.eq(ot, SReal(dkv + (kv - b.t) * dlogp)))
    w, dw = E.real("w"), E.real("dw")
    ac = E.method(E.new(P + ":AddCost"), "jvp_estimate", k, (dual(E, w, dw),), (K.kpure, K.kdual))
    none = None
    E.prove("C29.AddCost.adds_the_cost_and_its_tangent", E.And(
        E.eq(ac.fields["primal"], SReal(w.t + K.val(k.t, none))), E.eq(ac.fields["tangent"], SReal(dw.t + K.tan(k.t, none, none)))))
    E.refutable("adev.baseline_addcost", E.eq(ot, SReal(dkv + kv * dlogp)))


@task("adev.expectation", props=["C29"], functions=[A + ":Expectation.estimate", A + ":Expectation.jvp_estimate", A + ":expectation",
                                                    A + ":Dual.dual_tree", A + ":Dual.tree_primal", A + ":Dual.tree_tangent",
                                                    A + ":Dual.tree_pure"])
def t_expectation(E):
    """Expectation.estimate(key, args) is the primal of the forward-mode estimate at (args, zero tangents)"""
    z3 = E.z3
    k = key(E)
    jv = E.ctx.fn("ADEVProgram.jvp_estimate", U, U, U, U, U)
    E.I.abstract_methods[("ADEVProgram", "jvp_estimate")] = lambda I, s, key_, dual_tree, kont: \
        dual(E, UVal(E.ctx.fn("prog_primal", U, U, U)(s.t, I.to_u(dual_tree))), UVal(E.ctx.fn("prog_tangent", U, U, U)(s.t, I.to_u(dual_tree))))
    prog = E.opaque("prog", "ADEVProgram")
    ex = E.new(A + ":Expectation", prog=prog)
    x, y = E.real("x"), E.real("y")
    args = (x, y)
    got = E.method(ex, "estimate", k, args)
    want_tree = E.call(A + ":Dual.dual_tree", args, (0.0, 0.0))
    want = UVal(E.ctx.fn("prog_primal", U, U, U)(prog.t, E.I.to_u(want_tree)))
    E.prove("C29.Expectation.estimate.evaluates_the_program_at_the_given_arguments", E.eq(got, want))
    # Dual helpers
    d = E.call(A + ":Dual.dual_tree", args, (E.real("dx"), E.real("dy")))
    E.prove("C29.Dual.roundtrip", E.And(E.eq(E.call(A + ":Dual.tree_primal", d), args),
                                        E.eq(E.call(A + ":Dual.tree_tangent", d)[0], d[0].fields["tangent"])))
    pure = E.call(A + ":Dual.tree_pure", (x, d[1]))
    E.prove("C29.Dual.tree_pure.zero_tangent_for_plain_leaves", E.And(
        E.eq(pure[0].fields["primal"], x), E.eq(pure[0].fields["tangent"], 0.0), E.eq(pure[1], d[1])))


@task("adev.wiring", props=["C29"], functions=[A + ":Expectation.jvp_estimate", A + ":ADEVProgram.jvp_estimate", A + ":invoke_closed_over_jvp",
                                               A + ":ADInterpreter.forward_mode", A + ":Dual.tree_unzip", A + ":Dual.dual_tree"])
def t_wiring(E):
    """the wiring between the user-facing entry points and the interpreter: Expectation.jvp_estimate -> ADEVProgram.jvp_estimate ->
    ADInterpreter.forward_mode(source, kont)(key, dual_tree) -> eval_jaxpr_adev(key, jaxpr, consts, dual leaves) -> kont; and the
    custom-JVP rule behind grad_estimate (invoke_closed_over_jvp): key, arguments, tangents and continuation reach the
    interpreter unchanged, its dual result comes back unchanged.  Staging a Python callable is external (A11)."""
    z3, I = E.z3, E.I
    k = key(E)
    # (1) ADEVProgram.jvp_estimate and Expectation.jvp_estimate, the interpreter entry abstract
    fm_calls = []
    run = E.ctx.fn("forward_mode_result", U, U, U, U, U)         # (source, kont, key, dual tree)

    def forward_mode(I_, f, kont=None):
        def inner(I2, key_, dual_tree):
            fm_calls.append((f, kont, key_, dual_tree))
            return UVal(run(I2.to_u(f), I2.to_u(kont), I2.to_u(key_), I2.to_u(dual_tree)))
        return NativeFn("forward_mode(f, kont)", inner)
    I.overrides[A + ":ADInterpreter.forward_mode"] = forward_mode
    src = E.opaque("source", "Callable")
    prog = E.new(A + ":ADEVProgram", source=src)
    x, dx = E.real("x"), E.real("dx")
    dtree = (dual(E, x, dx),)
    kont = E.opaque("kont", "Callable")
    got = E.method(prog, "jvp_estimate", k, dtree, kont)
    E.require("C29.ADEVProgram.jvp_estimate.runs_the_interpreter_once", len(fm_calls) == 1)
    f0, k0, key0, tree0 = fm_calls[0]
    E.prove("C29.ADEVProgram.jvp_estimate.interprets_its_own_source_with_the_given_key_arguments_and_continuation", E.And(
        I.to_u(f0) == src.t, I.to_u(k0) == kont.t, E.eq(key0, k), E.eq(tree0, dtree),
        E.eq(got, UVal(run(src.t, kont.t, k.t, I.to_u(dtree))))))
    del fm_calls[:]
    ex = E.new(A + ":Expectation", prog=prog)
    got2 = E.method(ex, "jvp_estimate", k, dtree)
    E.require("C29.Expectation.jvp_estimate.runs_the_interpreter_once", len(fm_calls) == 1)
    f1, k1, key1, tree1 = fm_calls[0]
    probe = E.opaque("some_dual_result")
    E.prove("C29.Expectation.jvp_estimate.passes_key_and_arguments_on_and_continues_with_the_identity", E.And(
        I.to_u(f1) == src.t, E.eq(key1, k), E.eq(tree1, dtree), E.eq(I.call(k1, [probe], {}), probe),
        E.eq(got2, UVal(run(src.t, I.to_u(k1), k.t, I.to_u(dtree))))))
    # (2) the custom-JVP rule behind grad_estimate: (value, tangent) of the estimate at dual_tree(primals, tangents)
    jv_calls = []

    def jvp_estimate(I_, s, key_, dual_tree):
        jv_calls.append((s, key_, dual_tree))
        return dual(E, UVal(E.ctx.fn("est_primal", U, U, U)(I_.to_u(key_), I_.to_u(dual_tree)), "array"),
                    UVal(E.ctx.fn("est_tangent", U, U, U)(I_.to_u(key_), I_.to_u(dual_tree)), "array"))
    I.abstract_methods[("Expectation", "jvp_estimate")] = jvp_estimate
    inst = E.opaque("instance", "Expectation")
    y, dy = E.real("y"), E.real("dy")
    v, t = E.call(A + ":invoke_closed_over_jvp", (inst, k, (x, y)), (None, None, (dx, dy)))
    E.require("C29.invoke_closed_over_jvp.estimates_once", len(jv_calls) == 1)
    want_tree = E.call(A + ":Dual.dual_tree", (x, y), (dx, dy))
    E.prove("C29.invoke_closed_over_jvp.is_value_and_tangent_of_jvp_estimate_at_the_primals_and_tangents", E.And(
        E.eq(jv_calls[0][1], k), E.eq(jv_calls[0][2], want_tree),
        I.to_u(v) == E.ctx.fn("est_primal", U, U, U)(k.t, I.to_u(want_tree)),
        I.to_u(t) == E.ctx.fn("est_tangent", U, U, U)(k.t, I.to_u(want_tree))))
    # (3) forward_mode itself (the real one), staging and the jaxpr interpreter abstract
    del I.overrides[A + ":ADInterpreter.forward_mode"]
    ev_calls = []

    def eval_jaxpr_adev(I_, key_, jaxpr, consts, flat_duals):
        ev_calls.append((key_, jaxpr, consts, list(I_.iterate(flat_duals))))
        return dual(E, UVal(E.ctx.fn("ev_primal", U, U, U)(I_.to_u(key_), I_.to_u(list(I_.iterate(flat_duals)))), "array"),
                    UVal(E.ctx.fn("ev_tangent", U, U, U)(I_.to_u(key_), I_.to_u(list(I_.iterate(flat_duals)))), "array"))
    I.overrides[A + ":ADInterpreter.eval_jaxpr_adev"] = eval_jaxpr_adev
    jaxpr_marker, lits = E.opaque("the_jaxpr"), E.opaque("the_literals")
    staged_on = []

    def stage(I_, f):
        def staged(I2, *primals):
            staged_on.append((f, list(primals)))
            closed = Rec_(jaxpr=jaxpr_marker, literals=lits)
            return (closed, (None, None, NativeFn("out_tree", lambda I3: ("OUT1",))))
        return NativeFn("staged", staged)
    I.module_cache[(A, "stage")] = NativeFn("stage", stage)
    I.ext["jax.tree_util.tree_unflatten"] = lambda I_, tree, leaves: (
        list(I_.iterate(leaves))[0] if tree == ("OUT1",) else
        UVal(E.ctx.fn("tree_unflatten", U, U, U)(I_.to_u(tree), I_.to_u(list(I_.iterate(leaves))))))
    konts = []

    def kont_fn(I_, v_):
        konts.append(v_)
        return UVal(E.ctx.fn("kont_result", U, U)(I_.to_u(v_)))
    fm = E.call(A + ":ADInterpreter.forward_mode", src, NativeFn("kont", kont_fn))
    res = I.call(fm, [k, dtree], {})
    E.require("C29.forward_mode.stages_interprets_and_continues_once", len(staged_on) == 1 and len(ev_calls) == 1 and len(konts) == 1)
    E.prove("C29.forward_mode.stages_the_function_on_the_primals", E.And(I.to_u(staged_on[0][0]) == src.t, E.eq(staged_on[0][1], [x])))
    E.prove("C29.forward_mode.interprets_the_staged_jaxpr_with_the_given_key_on_the_dual_arguments", E.And(
        E.eq(ev_calls[0][0], k), I.to_u(ev_calls[0][1]) == jaxpr_marker.t, I.to_u(ev_calls[0][2]) == lits.t,
        E.And(E.eq(ev_calls[0][3][0].fields["primal"], x), E.eq(ev_calls[0][3][0].fields["tangent"], dx)) if len(ev_calls[0][3]) == 1 else False))
    out = konts[0]
    E.prove("C29.forward_mode.continues_with_the_interpreter_dual_result_and_returns_what_the_continuation_returns", E.And(
        is_obj(out, "Dual"),
        I.to_u(out.fields["primal"]) == E.ctx.fn("ev_primal", U, U, U)(k.t, I.to_u(ev_calls[0][3])),
        I.to_u(out.fields["tangent"]) == E.ctx.fn("ev_tangent", U, U, U)(k.t, I.to_u(ev_calls[0][3])),
        I.to_u(res) == E.ctx.fn("kont_result", U, U)(I.to_u(out))))
    E.refutable("adev.wiring", E.eq(x, dx))


class Rec_:
    """a plain record (closed jaxpr) for the engine"""
    def __init__(self, **kw):
        self.__dict__.update(kw)

    def pyvc_getattr(self, I, name):
        return self.__dict__[name]
