"""Contracts for inference/requests/rejuvenate.py (C27) and inference/sp.py Marginal / Target (C25)."""
from pyvc.task import task
from pyvc.values import Obj, SBool, SReal, StarOpaque, TupleT, UVal
from .common import *
from .smc import _find_apps

RJ ="genjax._src.inference.requests.rejuvenate"
SP = "genjax._src.inference.sp"


@task("rejuvenate.edit", props=["C27", "C04"], functions=[RJ + ":Rejuvenate.edit", GF + ":GenerativeFunction.propose"])
def t_rejuvenate(E):
    _rejuvenate(E, False)


@task("rejuvenate.edit[structured argdiffs]", props=["C27"], functions=[RJ + ":Rejuvenate.edit", GF + ":GenerativeFunction.propose"])
def t_rejuvenate_structured(E):
    """the same with the argdiffs as a concrete tuple: a plain leaf tagged NoChange and a CONTAINER argument (a tuple) one of
    whose leaves changed - the model's update must receive exactly these argdiffs"""
    _rejuvenate(E, True)


def _rejuvenate(E, structured):
    """weight == log p(x') - log p(x) + log q(x | argmap(x')) - log q(x' | argmap(x)); keys split"""
    z3, T = E.z3, E.I.T
    model, q = G(E, "model"), G(E, "proposal")
    argmap = E.opaque("argument_mapping")
    rj = E.new(RJ + ":Rejuvenate", proposal=q, argument_mapping=argmap)
    k = key(E)
    tr = T.abstract_trace("tr", g=model.t)
    if structured:
        ad_call = (diff(E, E.opaque("arg0"), NoChange(E)),
                   (diff(E, E.opaque("arg1a"), UnknownChange(E)), diff(E, E.opaque("arg1b"), NoChange(E))))
        ad = UVal(E.I.to_u(ad_call), "tuple")
        # ... and the old trace's arguments as a concrete tuple of the same shape (code that pairs argdiffs with old arguments)
        old_args = (E.opaque("old0"), (E.opaque("old1a"), E.opaque("old1b")))
        E.assume(T.tr_args(tr.t) == E.I.to_u(old_args))
        am = E.I.abstract_methods
        plain_get_args = am[("Trace", "get_args")]
        am[("Trace", "get_args")] = lambda I, s: old_args if s.t.eq(tr.t) else plain_get_args(I, s)
    else:
        ad = ad_call = E.opaque("argdiffs", "tuple")
        E.assume(T.d_is_tree(ad.t))
    new, w, rd, bwd = E.method(rj, "edit", k, tr, ad_call)
    from theory import keys as KY
    # the keys are read off the result: the model's edit and the proposal's simulate, whatever halves of whatever split they are
    nt = z3.simplify(E.I.to_u(new))
    k0 = KY.key_of(nt, "gf_edit_tr")
    E.require("C27.Rejuvenate.new_trace_is_an_edit_of_the_model_trace", k0 is not None)
    E.prove("C27.Rejuvenate.the_edit_is_the_model_s", nt.arg(0) == model.t)
    found, seen = [], set()

    def walk(e):
        if e.get_id() in seen:
            return
        seen.add(e.get_id())
        if z3.is_app(e) and e.decl().name() == "gf_simulate" and e.num_args() == 3 and e.arg(0).eq(q.t):
            found.append(e)
            return
        for ch in e.children():
            walk(ch)
    walk(nt.arg(3))
    E.require("C27.Rejuvenate.the_edit_request_is_built_from_one_run_of_the_proposal", len(found) == 1)
    k1 = found[0].arg(1)
    ap = lambda c: E.I.call(argmap, [c], {})
    x = E.method(tr, "get_choices")
    fwd_args = ap(x)
    prop_tr = UVal(T.sim(q.t, k1, E.I.to_u(fwd_args)), "Trace")
    x_new_part = E.method(prop_tr, "get_choices")
    req = update(E, x_new_part)
    m_new = UVal(T.edit_tr(model.t, k0, tr.t, E.I.to_u(req), ad.t), "Trace")
    E.cover("rejuvenate.reached")
    E.prove("C27.Rejuvenate.new_trace_is_model_updated_with_proposed_choices", E.eq(new, m_new))
    E.prove("C04.Rejuvenate.proposal_and_model_update_draw_with_independent_keys_derived_from_the_given_key", z3.And(
        KY.independent(E.I, k0, k1), KY.derived_from(E.I, k0, k.t), KY.derived_from(E.I, k1, k.t)), also=["C27"])
    # discarded (old) values of the proposed addresses
    discard = UVal(E.ctx.fn("update_bwd_constraint", U, U)(T.edit_bwd(model.t, k0, tr.t, E.I.to_u(req), ad.t)), "ChoiceMap")
    x_new = E.method(m_new, "get_choices")
    bwd_args_spec = ap(x_new)                        # the property: arguments computed from the NEW trace
    fwd_score = E.method(prop_tr, "get_score")
    bwd_score_spec = SReal(T.assess_score(q.t, discard.t, E.I.to_u(bwd_args_spec)))
    model_w = SReal(T.edit_w(model.t, k0, tr.t, E.I.to_u(req), ad.t))
    want = E.I.binop("Sub", E.I.binop("Add", model_w, bwd_score_spec), fwd_score)
    E.prove("C27.Rejuvenate.weight_is_mh_log_ratio", E.eq(w, want))
    E.prove("C27.Rejuvenate.fwd_proposal_density_at_args_from_old_choices",
            E.eq(fwd_score, SReal(T.assess_score(q.t, T.tr_choices(prop_tr.t), E.I.to_u(fwd_args)))))
    E.prove("C27.Rejuvenate.bwd_request_is_rejuvenate", isinstance(bwd, Obj) and bwd.cls.name == "Rejuvenate")
    E.refutable("rejuvenate.edit", E.eq(w, model_w))


@task("marginal.random_weighted", props=["C25", "C04"],
      functions=[SP + ":Marginal.random_weighted", SP + ":Marginal.estimate_logpdf", SP + ":Target.importance",
                 SP + ":Target.filter_to_unconstrained"])
def t_marginal(E):
    """no algorithm: returned choices = choices.filter(S); w = density of the SELECTED choices = project(trace, S)"""
    z3, T = E.z3, E.I.T
    g = G(E)
    sel = E.opaque("sel", "Selection")
    k = key(E)
    args = E.opaque("args", "tuple")
    mg = E.new(SP + ":Marginal", gen_fn=g, selection=sel, algorithm=None)
    w, latent = E.method(mg, "random_weighted", k, StarOpaque(args))
    from theory import keys as KY
    # the simulation key is read off the returned choices (whichever derived key the code uses)
    sims = _find_apps(z3.simplify(E.I.to_u(latent)), "gf_simulate")
    E.require("C25.Marginal.random_weighted.returned_choices_come_from_one_simulation_of_the_function", len(sims) == 1)
    sub1 = sims[0].arg(1)
    E.prove("C04.Marginal.random_weighted.simulates_with_a_key_derived_from_the_given_key", KY.derived_from(E.I, sub1, k.t), also=["C25"])
    tr = UVal(T.sim(g.t, sub1, args.t), "Trace")
    T.proj_facts(tr.t, sel.t)
    E.prove("C25.Marginal.random_weighted.returns_selected_choices",
            E.eq(latent, UVal(T.chm_filter_sel(T.tr_choices(tr.t), sel.t), "ChoiceMap")))
    E.prove("C25.Marginal.random_weighted.weight_is_density_of_selected_choices",
            E.eq(w, SReal(T.proj(g.t, tr.t, sel.t))))
    E.prove("C25.Marginal.random_weighted.everything_selected_gives_score",
            E.Implies(sel.t == T.SEL_ALL, E.eq(w, E.method(tr, "get_score"))))
    # estimate_logpdf of the same sample (no algorithm) is the importance weight of the sample as a constraint
    v = chm(E, "v")
    lw = E.method(mg, "estimate_logpdf", k, v, StarOpaque(args))
    E.prove("C25.Marginal.estimate_logpdf.is_importance_weight", E.eq(lw, SReal(T.gen_w(g.t, k.t, v.t, args.t))))
    E.refutable("marginal.random_weighted", E.eq(w, E.method(tr, "get_score")))


@task("marginal.with_algorithm", props=["C25"], functions=[SP + ":Marginal.random_weighted", SP + ":Marginal.estimate_logpdf"])
def t_marginal_alg(E):
    z3, T = E.z3, E.I.T
    g = G(E)
    sel = E.opaque("sel", "Selection")
    k = key(E)
    args = E.opaque("args", "tuple")
    alg = E.opaque("alg", "Algorithm")
    mg = E.new(SP + ":Marginal", gen_fn=g, selection=sel, algorithm=alg)
    Z, latent = E.method(mg, "random_weighted", k, StarOpaque(args))
    from theory import keys as KY
    sims = _find_apps(z3.simplify(E.I.to_u(latent)), "gf_simulate")
    zt = z3.simplify(E.I.to_u(Z))
    E.require("C25.Marginal.random_weighted.one_simulation_then_one_call_of_the_algorithm", len(sims) == 1 and z3.is_app(zt)
              and zt.decl().name() == "Algorithm.estimate_reciprocal_normalizing_constant" and zt.num_args() == 5)
    k_sim, k2 = sims[0].arg(1), zt.arg(1)
    E.prove("C25.Marginal.random_weighted.simulation_and_algorithm_use_independent_keys_derived_from_the_given_key", z3.And(
        KY.independent(E.I, k_sim, k2), KY.derived_from(E.I, k_sim, k.t), KY.derived_from(E.I, k2, k.t)))
    tr = UVal(T.sim(g.t, k_sim, args.t), "Trace")
    ch = T.tr_choices(tr.t)
    lat = UVal(T.chm_filter_sel(ch, sel.t), "ChoiceMap")
    other = UVal(T.chm_filter_sel(ch, T.sel_not(sel.t)), "ChoiceMap")
    target = E.new(SP + ":Target", p=g, args=args, constraint=lat)
    fn = E.ctx.fn("Algorithm.estimate_reciprocal_normalizing_constant", U, U, U, U, U, U)
    # w handed to the algorithm: density of the unselected ("other") choices under the internal proposal
    want = fn(alg.t, k2, E.I.to_u(target), other.t, E.I.to_u(SReal(T.proj(g.t, tr.t, T.sel_not(sel.t)))))
    E.prove("C25.Marginal.random_weighted.algorithm_gets_target_other_choices_and_their_proposal_density",
            E.I.to_u(Z) == want)
    E.prove("C25.Marginal.random_weighted.algorithm_returns_selected_choices", E.eq(latent, lat))
