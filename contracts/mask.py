"""Contracts for genjax._src.generative_functions.combinators.mask (MaskTrace, MaskCombinator).

Inner generative function G abstract (theory/gfi.py).  Flags are symbolic Booleans with a symbolic concreteness tag, so
every obligation is proved both for Python-bool flags and for traced/array flags (C23)."""
from pyvc.task import task
from pyvc.values import Obj, SBool, SReal, TupleT, UVal
from .common import *

M = COMB + ".mask"
FUNCS = [M + ":MaskTrace.build", M + ":MaskCombinator.simulate", M + ":MaskCombinator.generate",
         M + ":MaskCombinator.edit", M + ":MaskCombinator.assess", FT + ":Mask.build", FT + ":Mask.__init__",
         STAGING + ":FlagOp.and_", STAGING + ":FlagOp.not_"]


def combinator(E):
    g = G(E)
    return E.new(M + ":MaskCombinator", gen_fn=g), g


def wf_clause(E, mc, tr):
    """C01: assess(trace.get_choices(), trace.get_args()) == (trace.get_score(), trace.get_retval())  [real assess]"""
    score, ret = E.method(mc, "assess", E.method(tr, "get_choices"), E.method(tr, "get_args"))
    return E.And(E.eq(score, E.method(tr, "get_score")), E.eq(ret, E.method(tr, "get_retval")))


def check_view(E, tr, mc, inner, check, args):
    """whole-view postcondition of MaskTrace.build (representation invariant)"""
    T = E.I.T
    return E.And(
        E.eq(E.method(tr, "get_args"), args),
        E.eq(E.method(tr, "get_gen_fn"), mc),
        E.eq(E.method(tr, "get_score"), SReal(E.z3.If(check.t, T.tr_score(inner.t), 0))),
        E.eq(E.method(tr, "get_choices"), UVal(E.z3.If(check.t, T.tr_choices(inner.t), T.EMPTY), "ChoiceMap")),
        E.eq(E.method(tr, "get_retval").fields["flag"], check),
        E.Implies(check, E.eq(E.method(tr, "get_retval").fields["value"], E.method(inner, "get_retval"))),
    )


@task("mask.simulate", props=["C01", "C02", "C04", "C14", "C23"], functions=FUNCS)
def t_simulate(E):
    mc, g = combinator(E)
    check = E.flag("check")
    args = E.tuple_with_tail([check], "inner_args")
    k = key(E)
    tr = E.method(mc, "simulate", k, args)
    T = E.I.T
    inner = UVal(T.sim(g.t, k.t, args.tail), "Trace")     # what G.simulate(key, inner_args) returns
    E.cover("mask.simulate.reached")
    E.prove("C01.MaskCombinator.simulate.wf", wf_clause(E, mc, tr))
    E.prove("C01.MaskCombinator.simulate.view", check_view(E, tr, mc, inner, check, args))
    E.prove("C04.MaskCombinator.simulate.key_source", E.eq(tr.fields["inner"], inner))
    # C14: true flag transparent, false flag inert
    E.prove("C14.MaskCombinator.simulate.true_transparent", E.Implies(check, E.And(
        E.eq(E.method(tr, "get_score"), E.method(inner, "get_score")),
        E.eq(E.method(tr, "get_choices"), E.method(inner, "get_choices")),
        E.eq(E.method(tr, "get_retval").fields["value"], E.method(inner, "get_retval")),
        E.eq(E.method(tr, "get_retval").fields["flag"], True))))
    E.prove("C14.MaskCombinator.simulate.false_inert", E.Implies(E.Not(check), E.And(
        E.eq(E.method(tr, "get_score"), 0.0),
        E.eq(E.method(tr, "get_choices"), UVal(T.EMPTY, "ChoiceMap")),
        E.eq(E.method(tr, "get_retval").fields["flag"], False))))
    E.prove("C02.MaskCombinator.simulate.score_is_masked_density",
            E.eq(E.method(tr, "get_score"),
                 SReal(E.z3.If(check.t, T.assess_score(g.t, T.tr_choices(inner.t), args.tail), 0))))
    E.refutable("mask.simulate", E.eq(E.method(tr, "get_score"), E.method(inner, "get_score")))


@task("mask.assess", props=["C02", "C14", "C23"], functions=FUNCS)
def t_assess(E):
    mc, g = combinator(E)
    check = E.flag("check")
    args = E.tuple_with_tail([check], "inner_args")
    sample = chm(E, "sample")
    score, ret = E.method(mc, "assess", sample, args)
    T = E.I.T
    E.prove("C02.MaskCombinator.assess.eq_dens",
            E.eq(score, SReal(E.z3.If(check.t, T.assess_score(g.t, sample.t, args.tail), 0))))
    E.prove("C02.MaskCombinator.assess.retval", E.And(
        E.eq(ret.fields["flag"], check),
        E.eq(ret.fields["value"], UVal(T.assess_ret(g.t, sample.t, args.tail)))))
    E.refutable("mask.assess", E.eq(score, SReal(T.assess_score(g.t, sample.t, args.tail))))


@task("mask.generate", props=["C01", "C03", "C14", "C35", "C23"], functions=FUNCS)
def t_generate(E):
    mc, g = combinator(E)
    check = E.flag("check")
    args = E.tuple_with_tail([check], "inner_args")
    k, c = key(E), chm(E, "constraint")
    tr, w = E.method(mc, "generate", k, c, args)
    T = E.I.T
    inner = UVal(T.gen_tr(g.t, k.t, c.t, args.tail), "Trace")
    inner_w = SReal(T.gen_w(g.t, k.t, c.t, args.tail))
    E.prove("C01.MaskCombinator.generate.wf", wf_clause(E, mc, tr))
    E.prove("C01.MaskCombinator.generate.view", check_view(E, tr, mc, inner, check, args))
    # C03: weight = log-density of the constrained choices of THIS trace: flag ? cdens(inner, c) : 0 ; agreement
    E.prove("C03.MaskCombinator.generate.weight", E.eq(w, SReal(E.z3.If(check.t, T.cdens(inner.t, c.t), 0))))
    E.prove("C03.MaskCombinator.generate.agree",
            E.Implies(check, T.agrees(E.I.to_u(E.method(tr, "get_choices")), c.t)))
    E.prove("C03.MaskCombinator.generate.empty_constraint_zero", E.Implies(c.t == T.EMPTY, E.eq(w, 0.0)))
    E.prove("C14.MaskCombinator.generate.true_transparent", E.Implies(check, E.And(
        E.eq(w, inner_w), E.eq(E.method(tr, "get_score"), E.method(inner, "get_score")))))
    E.prove("C14.MaskCombinator.generate.false_inert", E.Implies(E.Not(check), E.And(
        E.eq(w, 0.0), E.eq(E.method(tr, "get_score"), 0.0),
        E.eq(E.method(tr, "get_choices"), UVal(T.EMPTY, "ChoiceMap")))))
    E.refutable("mask.generate", E.eq(w, inner_w))


def an_old_trace(E, mc, g):
    """an arbitrary MaskTrace as produced by the real MaskTrace.build from an arbitrary well-formed inner trace"""
    T = E.I.T
    inner = T.abstract_trace("old_inner", g=g.t)
    pre = E.flag("pre_check")
    old = E.call(M + ":MaskTrace.build", mc, inner, pre)
    return old, inner, pre


@task("mask.edit", props=["C01", "C05", "C06", "C08", "C14", "C16", "C23"], functions=FUNCS)
def t_edit(E):
    mc, g = combinator(E)
    T = E.I.T
    old, old_inner, pre = an_old_trace(E, mc, g)
    post = E.flag("post_check")
    tangent = sym_tangent(E, "check_nochange")
    check_diff = diff(E, post, tangent)
    # honest tagging: a NoChange tangent means the value did not change
    if tangent.cls.name == "_NoChange":
        E.assume(E.eq(post, pre))
    argdiffs = E.tuple_with_tail([check_diff], "inner_argdiffs")
    E.assume(T.d_is_tree(argdiffs.tail))
    k, c = key(E), chm(E, "constraint")
    req = update(E, c)
    new, w, rd, bwd = E.method(mc, "edit", k, old, req, argdiffs)
    sub = update(E, c)
    ik, itr, irq, iad = k.t, old_inner.t, E.I.to_u(sub), argdiffs.tail
    new_inner = UVal(T.edit_tr(g.t, ik, itr, irq, iad), "Trace")
    E.cover("mask.edit.reached")
    E.prove("C01.MaskCombinator.edit.wf", wf_clause(E, mc, new))
    E.prove("C01.MaskCombinator.edit.view",
            check_view(E, new, mc, new_inner, post, TupleT((post,), T.d_primal(argdiffs.tail))))
    E.prove("C05.MaskCombinator.edit.args",
            E.eq(E.method(new, "get_args"), E.call(INC + ":Diff.tree_primal", argdiffs)))
    fresh = T.fresh(g.t, itr, irq, iad)
    E.prove("C05.MaskCombinator.edit.weight_is_score_change", E.Implies(
        E.Or(E.Not(fresh), E.Not(E.And(pre, post))),
        E.eq(w, E.I.binop("Sub", E.method(new, "get_score"), E.method(old, "get_score")))))
    E.prove("C14.MaskCombinator.edit.flip_weight", E.Implies(
        E.Not(E.eq(pre, post)),
        E.eq(w, E.I.binop("Sub", E.method(new, "get_score"), E.method(old, "get_score")))),
        also=["C16"])           # (C16: a step switched off by an update contributes nothing - the weight is the score change)
    E.prove("C14.MaskCombinator.edit.false_stays_false_is_inert", E.Implies(
        E.And(E.Not(pre), E.Not(post)), E.And(E.eq(w, 0.0), E.eq(E.method(new, "get_score"), 0.0))))
    E.prove("C14.MaskCombinator.edit.true_true_is_inner_weight", E.Implies(
        E.And(pre, post), E.eq(w, SReal(T.edit_w(g.t, ik, itr, irq, iad)))))
    # C08, second clause: the task runs once with the flag tagged NoChange (honestly: post == pre) and once tagged
    # UnknownChange; weight and new trace are proved equal to expressions that do not mention the tag
    z3 = E.z3
    dscore = E.I.binop("Sub", E.method(new, "get_score"), E.method(old, "get_score"))
    spec_w = z3.If(z3.And(pre.t, post.t), T.edit_w(g.t, ik, itr, irq, iad),
                   z3.If(z3.And(z3.Not(pre.t), z3.Not(post.t)), z3.RealVal(0), dscore.t))
    E.prove("C08.MaskCombinator.edit.weight_does_not_depend_on_the_tag_of_an_unchanged_flag", E.eq(w, SReal(spec_w)))
    E.prove("C08.MaskCombinator.edit.new_trace_does_not_depend_on_the_tag_of_an_unchanged_flag",
            check_view(E, new, mc, new_inner, post, TupleT((post,), T.d_primal(argdiffs.tail))))
    # C23: flags are symbolic in value AND in concreteness (Python bool = eager call, traced = under jit); the same tag-free
    # specification of the whole new trace (arguments, inner trace edited with the request at the new inner arguments, score,
    # choices, return value) and of the weight is proved on every concrete-flag arm and on the traced arm
    E.prove("C23.MaskCombinator.edit.concrete_and_traced_flags_give_the_same_trace_and_weight", E.And(
        check_view(E, new, mc, new_inner, post, TupleT((post,), T.d_primal(argdiffs.tail))),
        E.eq(new.fields["inner"], new_inner) if isinstance(new, Obj) and "inner" in new.fields else False,
        E.eq(w, SReal(spec_w))))
    # C08: retdiff primal is the new return value - i.e. a Mask carrying the NEW flag (C14: valid iff the flag is True now;
    # C16: masked_iterate_final's update decides "advance or keep the value" from exactly this mask)
    E.prove("C08.MaskCombinator.edit.retdiff_primal",
            E.eq(E.call(INC + ":Diff.tree_primal", rd), E.method(new, "get_retval")), also=["C14", "C16"])
    E.prove("C08.MaskCombinator.edit.nochange_sound", E.Implies(
        E.I.T.all_nochange(rd), E.eq(E.method(new, "get_retval"), E.method(old, "get_retval"))))
    E.prove("C05.MaskCombinator.edit.bwd_is_update", isinstance(bwd, Obj) and bwd.cls.name == "Update")
    # C06: the real edit executed a second time, on its own output, with its own backward request and argdiffs that lead back
    # to the original flag and inner arguments (C06 for the inner function is assumed through theory/gfi.py c06_for_callee)
    back_tail = E.opaque("back_inner_argdiffs", "tuple")
    E.assume(E.And(T.d_is_tree(back_tail.t), T.d_primal(back_tail.t) == T.tr_args(old_inner.t)))
    back_ad = TupleT((diff(E, pre, UnknownChange(E)),), back_tail.t)
    st, val = E.attempt(lambda: E.method(mc, "edit", key(E, "key2"), new, bwd, back_ad))
    E.require("C06.MaskCombinator.edit.backward_request_can_be_applied", st == "ok")
    new2, w2, _, _ = val
    restored = E.And(E.eq(E.method(new2, "get_score"), E.method(old, "get_score")),
                     E.eq(E.method(new2, "get_choices"), E.method(old, "get_choices")),
                     E.eq(E.method(new2, "get_args"), E.method(old, "get_args")),
                     E.eq(E.method(new2, "get_retval").fields["flag"], pre),
                     E.Implies(pre, E.eq(E.method(new2, "get_retval").fields["value"], E.method(old_inner, "get_retval"))),
                     E.eq(w2, E.I.unaryop("USub", w)))
    E.prove("C06.MaskCombinator.edit.bwd_restores_when_the_flag_is_unchanged", E.Implies(E.eq(pre, post), restored))
    E.prove("C06.MaskCombinator.edit.bwd_restores_across_a_flag_flip", E.Implies(E.Not(E.eq(pre, post)), restored))
    E.refutable("mask.edit", E.eq(w, SReal(T.edit_w(g.t, ik, itr, irq, iad))))


@task("mask.nested", props=["C14", "C23"], functions=FUNCS)
def t_nested(E):
    """a masked call whose callee itself returns a mask (mask of mask): the outer flag still decides - the returned mask is
    valid iff BOTH flags are true, its value is the innermost return value, score and choices are masked by both.
    (The abstract callee G never returns a Mask - theory/gfi.py - so the case is stated on the real MaskTrace of a real
    MaskCombinator over G as the inner trace.)"""
    T = E.I.T
    mc_in, g = combinator(E)
    mc_out = E.new(M + ":MaskCombinator", gen_fn=mc_in)
    f_in, f_out = E.flag("inner_check"), E.flag("outer_check")
    base = T.abstract_trace("innermost", g=g.t)
    mid = E.call(M + ":MaskTrace.build", mc_in, base, f_in)
    out = E.call(M + ":MaskTrace.build", mc_out, mid, f_out)
    ret = E.method(out, "get_retval")
    E.cover("mask.nested.reached")
    E.require("C14.MaskTrace.build.of_a_masked_callee.returns_a_mask", isinstance(ret, Obj) and ret.cls.name == "Mask")
    both = E.And(f_in, f_out)
    E.prove("C14.MaskTrace.build.of_a_masked_callee.valid_iff_both_flags_are_true", E.z(E.I.mask_flag(ret)) == E.z(both))
    E.prove("C14.MaskTrace.build.of_a_masked_callee.false_outer_flag_gives_an_invalid_mask",
            E.Implies(E.Not(f_out), E.Not(E.z(E.I.mask_flag(ret)))))
    val = ret.fields["value"]
    E.prove("C14.MaskTrace.build.of_a_masked_callee.value_is_the_innermost_return_value",
            E.Implies(both, E.And(not (isinstance(val, Obj) and val.cls.name == "Mask"), E.eq(val, E.method(base, "get_retval")))))
    E.prove("C14.MaskTrace.build.of_a_masked_callee.score_and_choices_masked_by_both_flags", E.And(
        E.eq(E.method(out, "get_score"), SReal(E.z3.If(E.z(both), T.tr_score(base.t), 0))),
        E.eq(E.method(out, "get_choices"), UVal(E.z3.If(E.z(both), T.tr_choices(base.t), T.EMPTY), "ChoiceMap"))))
    E.refutable("mask.nested", E.eq(E.method(base, "get_score"), 0.0))     # (a canary no code under check can make true)
