"""Contracts for the distribution wrappers  (C24): tfp_distribution (sampler / logpdf), exact_density (kwargle, the dynamic
ExactDensity subclass), implicit_logit_warning, canonicalize_distribution_name, and the module-level bindings.

The TFP constructor is an arbitrary pure function returning an opaque distribution object (so: for every wrapper).
That tfd.X(...).log_prob is the density of tfd.X(...).sample, its support and dtype are assumption A10."""
import ast

from pyvc.task import task
from pyvc.values import NativeFn, Obj, SBool, SInt, SReal, StarOpaque, TupleT, UVal, ExtRef
from .common import *

TFP = "genjax._src.generative_functions.distributions.tensorflow_probability"
FUNCS = [TFP + ":tfp_distribution", DIST + ":exact_density", DIST + ":implicit_logit_warning",
         DIST + ":canonicalize_distribution_name", DIST + ":ExactDensity.random_weighted",
         DIST + ":ExactDensity.estimate_logpdf", DIST + ":ExactDensity.assess"]


def a_constructor(E):
    ctor = E.ctx.fn("tfd_constructor", U, U, U)      # (positional args tuple, keyword dict) -> distribution object

    def dist(I, *args, **kwargs):
        return UVal(ctor(I.to_u(tuple(args)), I.to_u(dict(kwargs))), "extobj")
    f = NativeFn("dist", dist)
    return f, ctor


@task("tfp.wrapper", props=["C24", "C02"], functions=FUNCS)
def t_wrapper(E):
    z3 = E.z3
    dist, ctor = a_constructor(E)
    # the real exact_density of the real module is used; the abstract-density theory must not shadow it here
    E.I.overrides.pop(DIST + ":ExactDensity.sample", None)
    E.I.overrides.pop(DIST + ":ExactDensity.logpdf", None)
    d = E.call(TFP + ":tfp_distribution", dist, name="mydist")
    loc, scale = E.real("loc"), E.real("scale")
    k = key(E)
    v = E.opaque("v", "array")
    obj_pos = ctor(E.I.to_u((loc, scale)), E.I.to_u({}))
    lp = E.ctx.fn("ext.log_prob", U, U, U)
    smp = E.ctx.fn("ext.sample", U, U, U, U)
    # positional invocation
    got_lp = E.method(d, "logpdf", v, loc, scale)
    E.prove("C24.tfp_distribution.logpdf_is_log_prob_of_the_constructed_distribution", E.I.to_u(got_lp) == lp(obj_pos, v.t))
    got_s = E.method(d, "sample", k, loc, scale)
    E.prove("C24.tfp_distribution.sample_uses_the_given_key_and_default_sample_shape",
            E.I.to_u(got_s) == smp(obj_pos, E.I.to_u(()), k.t))      # (object, sample_shape=, seed=)
    # keyword invocation as packaged by GenerativeFunctionClosure: args = (positional tuple, kwargs dict)
    kw = {"scale": scale}
    obj_kw = ctor(E.I.to_u((loc,)), E.I.to_u(kw))
    got_lp_kw = E.method(d, "logpdf", v, (loc,), dict(kw))
    E.prove("C24.exact_density.kwargle.packaged_kwargs_equal_keyword_call", E.I.to_u(got_lp_kw) == lp(obj_kw, v.t))
    got_s_kw = E.method(d, "sample", k, (loc,), dict(kw, sample_shape=(3,)))
    E.prove("C24.tfp_distribution.sample_shape_is_popped_and_forwarded",
            E.I.to_u(got_s_kw) == smp(obj_kw, E.I.to_u((3,)), k.t))
    got_lp_ss = E.method(d, "logpdf", v, (loc,), dict(kw, sample_shape=(3,)))
    E.prove("C24.tfp_distribution.logpdf_ignores_sample_shape", E.I.to_u(got_lp_ss) == lp(obj_kw, v.t))
    E.prove("C24.exact_density.handle_kwargs_is_identity", E.eq(E.method(d, "handle_kwargs"), d))
    E.refutable("tfp.wrapper", E.I.to_u(got_lp_kw) == lp(obj_pos, v.t))


@task("tfp.implicit_logit", props=["C24"], functions=FUNCS)
def t_implicit_logit(E):
    dist, ctor = a_constructor(E)
    # implicit_logit_warning reads dist.__name__ only inside the text of a deprecation warning (not evaluated)
    I = E.I
    wrapper = I.call(I.qual(DIST + ":implicit_logit_warning"), [dist], {})
    x = E.real("x")
    E.prove("C24.implicit_logit_warning.bare_argument_is_logits",
            E.I.to_u(I.call(wrapper, [x], {})) == ctor(E.I.to_u(()), E.I.to_u({"logits": x})))
    E.prove("C24.implicit_logit_warning.logits_keyword_passes_through",
            E.I.to_u(I.call(wrapper, [], {"logits": x})) == ctor(E.I.to_u(()), E.I.to_u({"logits": x})))
    E.prove("C24.implicit_logit_warning.probs_keyword_passes_through",
            E.I.to_u(I.call(wrapper, [], {"probs": x})) == ctor(E.I.to_u(()), E.I.to_u({"probs": x})))
    E.prove("C24.canonicalize_distribution_name", E.call(DIST + ":canonicalize_distribution_name", "MultivariateNormalDiag")
            == "genjax.multivariate_normal_diag")


def UVal_with_name(E, dist):
    return dist


def _bindings():
    """mechanical enumeration of the module-level wrapper bindings from the AST of the real module"""
    from pyvc.loader import Repo
    repo = Repo()
    m = repo.get_module(TFP)
    out = []
    for st in m.tree.body:
        tgt, val = None, None
        if isinstance(st, ast.Assign) and len(st.targets) == 1 and isinstance(st.targets[0], ast.Name):
            tgt, val = st.targets[0].id, st.value
        elif isinstance(st, ast.AnnAssign) and isinstance(st.target, ast.Name) and st.value is not None:
            tgt, val = st.target.id, st.value
        if tgt and isinstance(val, ast.Call) and ast.unparse(val.func) == "tfp_distribution":
            out.append((tgt, val))
    return out


@task("tfp.bindings", props=["C24"], functions=[TFP + ":tfp_distribution"])
def t_bindings(E):
    """every exported distribution is tfp_distribution(<a tfd constructor>) (possibly through implicit_logit_warning or an
    explicit lambda); flip passes probs= with dtype bool"""
    binds = _bindings()
    E.prove("C24.bindings.enumerated", len(binds) >= 40)
    for name, call in binds:
        arg = call.args[0] if call.args else None
        src = ast.unparse(arg) if arg is not None else ""
        ok = src.startswith("tfd.") or src.startswith("implicit_logit_warning(tfd.") or isinstance(arg, ast.Lambda)
        if name == "flip":
            ok = ok and "tfd.Bernoulli(probs=p" in src and "dtype=jnp.bool_" in src
        if isinstance(arg, ast.Lambda) and name != "flip":
            ok = ok and "tfd." in src
        E.prove(f"C24.bindings.{name}.wraps_a_tfd_constructor", bool(ok), source=src[:80])
