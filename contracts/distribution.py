"""Contracts for genjax._src.generative_functions.distributions.distribution: Distribution / ExactDensity /
DistributionTrace, for an ARBITRARY exact density (sample / logpdf uninterpreted, theory/dist.py)."""
from pyvc.task import task
from pyvc.values import Obj, SBool, SReal, TupleT, UVal
from theory import dist as TD
from .common import *

D = DIST + ":"
FUNCS = [D + "Distribution." + m for m in ("simulate", "generate_choice_map", "generate", "edit_empty",
                                           "edit_update_with_constraint", "project", "edit_regenerate", "edit_update", "edit")] + \
        [D + "ExactDensity." + m for m in ("random_weighted", "estimate_logpdf", "assess")] + \
        [D + "DistributionTrace.get_choices", CM + ":Choice.build", CM + ":Choice.get_value", CM + ":Choice.filter",
         CM + ":ChoiceMap.choice", CM + ":ChoiceMap.mask"]


def the_dist(E):
    return E.new(D + "ExactDensity")


def args_(E, name="args"):
    return E.opaque(name, "tuple")


def wf(E, d, tr):
    score, ret = E.method(d, "assess", E.method(tr, "get_choices"), E.method(tr, "get_args"))
    return E.And(E.eq(score, E.method(tr, "get_score")), E.eq(ret, E.method(tr, "get_retval")))


def lp(E, d, v, args):
    return SReal(TD.density(E.I, d, v, args))


def old_trace(E, d, name="old"):
    """an arbitrary well-formed DistributionTrace of d (representation invariant: score = density of value at args)"""
    T = E.I.T
    a, v = args_(E, name + "_args"), E.opaque(name + "_value", "value")
    E.assume(E.Not(T.is_Mask(v.t)))
    E.assume(E.Not(T.is_None(v.t)))
    E.assume(T.d_primal(v.t) == v.t)
    E.assume(T.d_primal(a.t) == a.t)
    T.not_zero_length(v.t)
    tr = E.new(D + "DistributionTrace", gen_fn=d, args=a, value=v, score=lp(E, d, v, a))
    return tr, a, v


@task("dist.simulate", props=["C01", "C02", "C04", "C24"], functions=FUNCS)
def t_simulate(E):
    d, k, a = the_dist(E), key(E), args_(E)
    tr = E.method(d, "simulate", k, a)
    v = UVal(E.I.dist_sample(E.I.to_u(d), k.t, a.t), "value")
    E.cover("dist.simulate.reached")
    E.prove("C01.Distribution.simulate.wf", wf(E, d, tr))
    E.prove("C01.Distribution.simulate.view", E.And(E.eq(E.method(tr, "get_args"), a), E.eq(E.method(tr, "get_gen_fn"), d)))
    E.prove("C04.Distribution.simulate.value_drawn_with_the_given_key", E.eq(E.method(tr, "get_retval"), v))
    E.prove("C02.Distribution.simulate.score_is_summed_logpdf", E.eq(E.method(tr, "get_score"), lp(E, d, v, a)))
    E.prove("C24.ExactDensity.simulate.score_is_log_prob_of_sample", E.eq(E.method(tr, "get_score"), lp(E, d, v, a)))
    E.refutable("dist.simulate", E.eq(E.method(tr, "get_score"), 0.0))


@task("dist.assess", props=["C02", "C24"], functions=FUNCS)
def t_assess(E):
    d, a = the_dist(E), args_(E)
    v = E.opaque("v", "value")
    E.assume(E.Not(E.I.T.is_Mask(v.t)))
    c = E.call(CM + ":ChoiceMap.choice", v)
    score, ret = E.method(d, "assess", c, a)
    E.prove("C02.ExactDensity.assess.eq_dens", E.eq(score, lp(E, d, v, a)))
    E.prove("C02.ExactDensity.assess.retval_is_value", E.eq(ret, v))
    w = E.method(d, "estimate_logpdf", key(E), v, StarOpaque(a))
    E.prove("C02.ExactDensity.estimate_logpdf.sums_leaves", E.eq(w, lp(E, d, v, a)))
    E.refutable("dist.assess", E.eq(score, 0.0))


@task("dist.generate", props=["C01", "C02", "C03", "C35", "C24", "C23"], functions=FUNCS)
def t_generate(E):
    z3 = E.z3
    T = E.I.T
    d, k, a = the_dist(E), key(E), args_(E)
    c = chm(E, "constraint")
    tr, w = E.method(d, "generate", k, c, a)
    sampled = UVal(E.I.dist_sample(E.I.to_u(d), k.t, a.t), "value")
    cv = T.chm_value(c.t)
    # observational reading of the constraint's value: absent | Mask(value, flag) | plain value
    view = E.ctx.views.get(cv.get_id())
    if view is not None:              # Mask arm
        present, val = view.fields["flag"].t, view.fields["value"]
        arm = "mask"
    else:
        isnone = T.is_None(cv)
        present, val = z3.Not(isnone), UVal(cv, "value")
        arm = "plain"
    E.cover(f"dist.generate.{arm}")
    # (C02: the recorded score is the log-density of the value the trace holds, constrained, masked-off or sampled)
    E.prove("C01.Distribution.generate.wf", wf(E, d, tr), also=["C02"])
    E.prove("C03.Distribution.generate.agree", E.Implies(present, E.eq(E.method(tr, "get_retval"), val)))
    E.prove("C03.Distribution.generate.unconstrained_is_simulate_with_same_key",
            E.Implies(z3.Not(present), E.And(E.eq(E.method(tr, "get_retval"), sampled), E.eq(w, 0.0))))
    E.prove("C03.Distribution.generate.weight_is_density_of_constrained_value",
            E.Implies(present, E.And(E.eq(w, lp(E, d, val, a)), E.eq(w, E.method(tr, "get_score")))))
    E.prove("C35.Distribution.generate.mask_true_equals_unmasked_and_false_equals_unconstrained", E.And(
        E.eq(E.method(tr, "get_retval"), UVal(z3.If(present, E.I.to_u(val), sampled.t), "value")),
        E.eq(w, SReal(z3.If(present, TD.density(E.I, d, val, a), 0)))))
    # (C35: with a False flag the site is unconstrained - the recorded score is that of the simulated value, as in simulate)
    E.prove("C24.ExactDensity.generate.score_is_log_prob_of_value",
            E.eq(E.method(tr, "get_score"), lp(E, d, E.method(tr, "get_retval"), a)), also=["C35"])
    E.refutable("dist.generate", E.eq(w, E.method(tr, "get_score")))


def _argdiffs(E, old_args):
    """opaque argdiffs tuple; honest tagging: all-NoChange implies the primals are the old arguments"""
    T = E.I.T
    ad = E.opaque("argdiffs", "tuple")
    E.assume(T.d_is_tree(ad.t))
    E.assume(E.Implies(T.d_nc_all(ad.t), T.d_primal(ad.t) == old_args.t))
    return ad


@task("dist.update", props=["C01", "C02", "C05", "C06", "C08", "C24", "C35", "C23"], functions=FUNCS)
def t_update(E):
    z3 = E.z3
    T = E.I.T
    d, k = the_dist(E), key(E)
    old, a0, v0 = old_trace(E, d)
    ad = _argdiffs(E, a0)
    c = chm(E, "constraint")
    new, w, rd, bwd = E.method(d, "edit", k, old, update(E, c), ad)
    a1 = UVal(T.d_primal(ad.t), "tuple")
    cv = T.chm_value(c.t)
    view = E.ctx.views.get(cv.get_id())
    if view is not None:
        present, val = view.fields["flag"].t, view.fields["value"]
    else:
        present, val = z3.Not(T.is_None(cv)), UVal(cv, "value")
    newval = UVal(z3.If(present, E.I.to_u(val), v0.t), "value")
    E.cover("dist.update.reached")
    E.prove("C01.Distribution.edit_update.wf", wf(E, d, new), also=["C02"])
    E.prove("C05.Distribution.edit_update.args", E.eq(E.method(new, "get_args"), a1))
    # (C35: `present` is the mask flag when the constraint value is a Mask: flag True == the unmasked constraint, flag False ==
    # no constraint at all - new value, score, weight and backward constraint are all functions of `present` only)
    E.prove("C05.Distribution.edit_update.choices", E.eq(E.method(new, "get_retval"), newval), also=["C35"])
    E.prove("C05.Distribution.edit_update.weight_is_score_change",
            E.eq(w, E.I.binop("Sub", E.method(new, "get_score"), E.method(old, "get_score"))), also=["C24"])
    E.prove("C05.Distribution.edit_update.new_score", E.eq(E.method(new, "get_score"), lp(E, d, newval, a1)), also=["C24", "C35"])
    # backward constraint: previous value exactly where overwritten
    bc = fld(E, bwd, "constraint")
    bv = E.method(bc, "get_value")
    b_present, b_val = _obs_value(E, bv)
    E.prove("C05.Distribution.edit_update.bwd_holds_previous_value_iff_overwritten",
            E.And(b_present == present, E.Implies(present, E.eq(b_val, v0))), also=["C35"])
    E.prove("C35.Distribution.edit_update.weight_is_density_ratio_of_the_value_selected_by_the_flag",
            E.eq(w, SReal(TD.density(E.I, d, newval, a1) - TD.density(E.I, d, v0, a0))))
    # C08
    E.prove("C08.Distribution.edit_update.retdiff_primal_is_new_retval",
            E.eq(E.call(INC + ":Diff.tree_primal", rd), E.method(new, "get_retval")))
    E.prove("C08.Distribution.edit_update.nochange_sound",
            nochange_sound(E, rd, E.method(new, "get_retval"), E.method(old, "get_retval")))
    # C06: applying the backward request with the original arguments restores the original view, weight -w
    back_ad = E.call(INC + ":Diff.unknown_change", a0)
    new2, w2, _, _ = E.method(d, "edit", key(E, "key2"), new, bwd, back_ad)
    E.prove("C06.Distribution.edit_update.bwd_restores", E.And(
        E.eq(E.method(new2, "get_retval"), v0), E.eq(E.method(new2, "get_args"), a0),
        E.eq(E.method(new2, "get_score"), E.method(old, "get_score")),
        E.eq(w2, E.I.unaryop("USub", w))))
    E.refutable("dist.update", E.eq(w, 0.0))


def _obs_value(E, v):
    """(present?, value) of a get_value() result: None | Mask | plain"""
    z3 = E.z3
    if v is None:
        return z3.BoolVal(False), None
    if isinstance(v, Obj) and v.cls.name == "Mask":
        f = E.I.mask_flag(v)
        return E.z(f), v.fields["value"]
    return z3.BoolVal(True), v


@task("dist.regenerate", props=["C01", "C06", "C07", "C08"], functions=FUNCS)
def t_regenerate(E):
    z3 = E.z3
    T = E.I.T
    d, k = the_dist(E), key(E)
    old, a0, v0 = old_trace(E, d)
    ad = _argdiffs(E, a0)
    s = E.opaque("sel", "Selection")
    req = E.new(REQ + ":Regenerate", selection=s)
    new, w, rd, bwd = E.method(d, "edit", k, old, req, ad)
    a1 = UVal(T.d_primal(ad.t), "tuple")
    selected = T.sel_check(s.t)
    fresh = UVal(E.I.dist_sample(E.I.to_u(d), k.t, a1.t), "value")
    E.cover("dist.regenerate.reached")
    E.prove("C01.Distribution.edit_regenerate.wf", wf(E, d, new))
    E.prove("C07.Distribution.edit_regenerate.selected_is_redrawn_at_current_args_with_given_key",
            E.Implies(selected, E.eq(E.method(new, "get_retval"), fresh)))
    E.prove("C07.Distribution.edit_regenerate.unselected_unchanged",
            E.Implies(z3.Not(selected), E.eq(E.method(new, "get_retval"), v0)))
    E.prove("C07.Distribution.edit_regenerate.weight_is_score_change",
            E.eq(w, E.I.binop("Sub", E.method(new, "get_score"), E.method(old, "get_score"))))
    E.prove("C07.Distribution.edit_regenerate.args", E.eq(E.method(new, "get_args"), a1))
    E.prove("C07.Distribution.edit_regenerate.empty_selection_unchanged_args_is_identity",
            E.Implies(z3.And(z3.Not(selected), T.d_nc_all(ad.t)), E.And(E.eq(new, old), E.eq(w, 0.0))))
    bv = E.method(fld(E, bwd, "constraint"), "get_value")
    b_present, b_val = _obs_value(E, bv)
    E.prove("C06.Distribution.edit_regenerate.bwd_holds_old_value_iff_redrawn",
            E.And(b_present == selected, E.Implies(selected, E.eq(b_val, v0))))
    E.prove("C08.Distribution.edit_regenerate.retdiff_primal_is_new_retval",
            E.eq(E.call(INC + ":Diff.tree_primal", rd), E.method(new, "get_retval")))
    E.prove("C08.Distribution.edit_regenerate.nochange_sound",
            nochange_sound(E, rd, E.method(new, "get_retval"), v0))
    back_ad = E.call(INC + ":Diff.unknown_change", a0)
    new2, w2, _, _ = E.method(d, "edit", key(E, "key2"), new, bwd, back_ad)
    E.prove("C06.Distribution.edit_regenerate.bwd_restores", E.And(
        E.eq(E.method(new2, "get_retval"), v0), E.eq(E.method(new2, "get_args"), a0),
        E.eq(E.method(new2, "get_score"), E.method(old, "get_score")), E.eq(w2, E.I.unaryop("USub", w))))
    E.refutable("dist.regenerate", E.eq(E.method(new, "get_retval"), v0))


@task("dist.tag_independence", props=["C08"], functions=FUNCS)
def t_tag_independence(E):
    """unchanged arguments tagged NoChange vs UnknownChange: same new trace, weight and backward request"""
    T = E.I.T
    d, k = the_dist(E), key(E)
    old, a0, v0 = old_trace(E, d)
    s = E.opaque("sel", "Selection")
    req = E.new(REQ + ":Regenerate", selection=s)
    nc = E.call(INC + ":Diff.no_change", a0)
    uc = E.call(INC + ":Diff.unknown_change", a0)
    r1 = E.method(d, "edit", k, old, req, nc)
    r2 = E.method(d, "edit", k, old, req, uc)
    E.prove("C08.Distribution.edit_regenerate.tag_independent", E.And(
        E.eq(E.method(r1[0], "get_retval"), E.method(r2[0], "get_retval")),
        E.eq(E.method(r1[0], "get_score"), E.method(r2[0], "get_score")),
        E.eq(E.method(r1[0], "get_args"), E.method(r2[0], "get_args")),
        E.eq(r1[1], r2[1]), E.eq(r1[3], r2[3])))
    c = chm(E, "constraint")
    u1 = E.method(d, "edit", k, old, update(E, c), nc)
    u2 = E.method(d, "edit", k, old, update(E, c), uc)
    E.prove("C08.Distribution.edit_update.tag_independent", E.And(
        E.eq(E.method(u1[0], "get_retval"), E.method(u2[0], "get_retval")),
        E.eq(E.method(u1[0], "get_score"), E.method(u2[0], "get_score")),
        E.eq(u1[1], u2[1]), E.eq(u1[3], u2[3])))


@task("dist.project", props=["C10"], functions=FUNCS)
def t_project(E):
    z3 = E.z3
    T = E.I.T
    d, k = the_dist(E), key(E)
    old, a0, v0 = old_trace(E, d)
    s = E.opaque("sel", "Selection")
    p = E.method(d, "project", k, old, s)
    score = E.method(old, "get_score")
    E.prove("C10.Distribution.project.selected_score_or_zero", E.eq(p, SReal(z3.If(T.sel_check(s.t), score.t, 0))))
    ns = E.method(s, "__invert__")
    pn = E.method(d, "project", k, old, ns)
    E.prove("C10.Distribution.project.complement_splits_score", E.eq(E.I.binop("Add", p, pn), score))
    E.prove("C10.Distribution.project.all_is_score", E.eq(E.method(d, "project", k, old, E.call(CM + ":Selection.all")), score))
    E.prove("C10.Distribution.project.none_is_zero", E.eq(E.method(d, "project", k, old, E.call(CM + ":Selection.none")), 0.0))
    E.refutable("dist.project", E.eq(p, score))


from pyvc.values import StarOpaque  # noqa: E402
