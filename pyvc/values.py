"""Value domain of the symbolic executor.  Structure lives at interpreter level, leaves are z3 terms."""
from __future__ import annotations

import z3

U = z3.DeclareSort("U")


class Unsupported(Exception):
    """construct outside the supported subset -> obligation is UNDECIDED (never proved, never a violation)"""


class Infeasible(Exception):
    """current path condition is unsatisfiable"""


class PyRaise(Exception):
    """a Python exception raised by the code under execution"""

    def __init__(self, kind: str, args=(), obj=None, where=""):
        super().__init__(f"{kind}{args!r} at {where}")
        self.kind, self.eargs, self.obj, self.where = kind, args, obj, where


def _b(x):
    return z3.BoolVal(x) if isinstance(x, bool) else x


class SBool:
    """a flag: truth value `t`; `conc` says whether it is a concrete Python bool (else a traced/array bool)"""

    __slots__ = ("t", "conc")

    def __init__(self, t, conc=True):
        self.t, self.conc = _b(t), _b(conc)

    def __repr__(self):
        return f"SBool({self.t}, conc={self.conc})"


class SInt:
    __slots__ = ("t", "conc")

    def __init__(self, t, conc=False):
        self.t = z3.IntVal(t) if isinstance(t, int) else t
        self.conc = _b(conc)

    def __repr__(self):
        return f"SInt({self.t}, conc={self.conc})"


class SReal:
    """a float array of shape () unless `vec` (then: a float array of unknown non-scalar shape, used only
    through jnp.sum)"""

    __slots__ = ("t", "vec")

    def __init__(self, t, vec=False):
        if isinstance(t, (int, float)):
            t = z3.RealVal(t)
        self.t, self.vec = t, vec

    def __repr__(self):
        return f"SReal({self.t})"


class UVal:
    """opaque value of sort U; `cls` optionally names the abstract repository class it is an instance of"""

    __slots__ = ("t", "cls")

    def __init__(self, t, cls=None):
        self.t, self.cls = t, cls

    def __repr__(self):
        return f"UVal({self.t}:{self.cls})"


class Obj:
    """instance of a repository class built by the code under execution"""

    _n = 0

    def __init__(self, cls, fields=None):
        self.cls, self.fields = cls, dict(fields or {})
        Obj._n += 1
        self.oid = Obj._n

    def __repr__(self):
        return f"<{self.cls.name} {self.fields}>"


class TupleT:
    """tuple with explicit head and an opaque tail (a U term denoting a tuple)"""

    __slots__ = ("head", "tail")

    def __init__(self, head, tail):
        self.head, self.tail = tuple(head), tail

    def __repr__(self):
        return f"TupleT({self.head}, *{self.tail})"


class FuncVal:
    def __init__(self, node, env, module, name, owner=None, defaults=None, kwdefaults=None):
        self.node, self.env, self.module, self.name, self.owner = node, env, module, name, owner
        self.defaults, self.kwdefaults = defaults, kwdefaults
        self.attrs = {}

    def __repr__(self):
        return f"<fn {self.module.name if self.module else '?'}:{self.name}>"


class BoundMethod:
    def __init__(self, self_, func):
        self.self_, self.func = self_, func

    def __repr__(self):
        return f"<bound {self.func!r} of {type(self.self_).__name__}>"


class ClassRef:
    def __init__(self, ci):
        self.ci = ci

    def __repr__(self):
        return f"<classref {self.ci.name}>"

    def __eq__(self, o):
        return isinstance(o, ClassRef) and o.ci == self.ci

    def __hash__(self):
        return hash(self.ci)


class ModuleRef:
    def __init__(self, name):
        self.name = name

    def __repr__(self):
        return f"<modref {self.name}>"


class ExtRef:
    """reference to an external (non-repository) module, class or function, by dotted path"""

    def __init__(self, path):
        self.path = path

    def __repr__(self):
        return f"<ext {self.path}>"

    def __eq__(self, o):
        return isinstance(o, ExtRef) and o.path == self.path

    def __hash__(self):
        return hash(self.path)


class Builtin:
    def __init__(self, name, fn=None):
        self.name, self.fn = name, fn

    def __repr__(self):
        return f"<builtin {self.name}>"

    def __eq__(self, o):
        return isinstance(o, Builtin) and o.name == self.name

    def __hash__(self):
        return hash(self.name)


class NativeFn:
    """a Python callable provided by the theory layer: fn(interp, *args, **kwargs)"""

    def __init__(self, name, fn):
        self.name, self.fn = name, fn

    def __repr__(self):
        return f"<native {self.name}>"


SCOPES = []     # stack of active assumption scopes (Interp.forall_paths); cached evaluations made inside a scope carry
                # assumptions that are discarded with it, so they are only reusable while that scope is active


def scope_valid(stamp):
    return len(stamp) <= len(SCOPES) and tuple(SCOPES[: len(stamp)]) == stamp


class Stacked:
    """leading-axis stack of `n` values: element(i) for a z3 Int term i  (result of vmap / scan outputs)"""

    def __init__(self, n, fn, tag=""):
        self.n, self.fn, self.tag = n, fn, tag
        self._cache = {}

    def at(self, i):
        if isinstance(i, int):
            i = z3.IntVal(i)
        k = i.get_id()
        hit = self._cache.get(k)
        if hit is not None and scope_valid(hit[2]) and hit[0].eq(i):
            return hit[1]
        v = self.fn(i)
        self._cache[k] = (i, v, tuple(SCOPES))     # keeps the index term alive (ids are not reused) + scope of validity
        return v

    def __repr__(self):
        return f"Stacked(n={self.n},{self.tag})"


class SumT:
    """sum over i in [0,n) of body(i), kept symbolic; see Interp.sum_eq"""

    def __init__(self, n, fn):
        self.n, self.fn = n, fn


class StarOpaque:
    """*args of an opaque tuple at a call site"""

    def __init__(self, v):
        self.v = v


class SuperRef:
    def __init__(self, owner, self_):
        self.owner, self.self_ = owner, self_


class SymMap:
    """symbolic finite map (Python dict with symbolic keys): `has` : Array(U, Bool), `val` : Array(U, U);
    `elem` tells how to wrap a stored U term back into a value (e.g. an abstract Trace)"""

    def __init__(self, has, val, elem_cls=None, tag=""):
        self.has, self.val, self.elem_cls, self.tag = has, val, elem_cls, tag

    def copy(self):
        return SymMap(self.has, self.val, self.elem_cls, self.tag)

    def __repr__(self):
        return f"SymMap({self.tag})"
