"""./check <Cxx> [--tier quick|thorough] [--replay <json>]   — see DESIGN.md §2.6 / §8

exit 0  every obligation of the property proved (known findings printed as KNOWN-FINDING), bounded stand-ins passed
exit 1  >=1 obligation refuted that known_findings.json does not list      -> VIOLATION property=<id> replay=<path>
exit 2  undecided (unknown / unsupported construct), nothing refuted
exit 3  checker broken (crash, zero obligations, canary proved, contract names a function that no longer exists)
"""
from __future__ import annotations

import argparse
import glob
import hashlib
import importlib
import json
import multiprocessing as mp
import os
import subprocess
import sys
import time

ROOT = os.path.dirname(os.path.dirname(os.path.abspath(__file__)))
sys.path.insert(0, ROOT)

from pyvc.loader import Repo            # noqa: E402
from pyvc.task import TASKS, run_task   # noqa: E402

VENV_PY = "/venv/bin/python"


def load_contracts():
    for f in sorted(glob.glob(os.path.join(ROOT, "contracts", "*.py"))):
        m = os.path.basename(f)[:-3]
        if m in ("__init__", "common"):
            continue
        importlib.import_module("contracts." + m)


def _run_one(args):
    name, timeout_ms, seed = args
    from theory.gfi import Theory
    load_contracts()
    td = TASKS[name]
    repo = Repo()
    missing = []
    funcs = []
    for q in td.functions:
        try:
            m, ci, fn = repo.resolve_qual(q)
            node = fn if fn is not None else ci.node
            d = repo.func_source_sha(m, node)
            d["qualname"] = q
            funcs.append(d)
        except KeyError:
            missing.append(q)
    if td.kind == "bounded":
        return {"name": name, "kind": "bounded", "missing": missing, "funcs": funcs, "bounded": td.fn(None)}
    r = run_task(td, repo, Theory, timeout_ms=timeout_ms, seed=seed)
    from theory import externals, gfi
    return {
        "name": name, "kind": "proof", "missing": missing, "funcs": funcs, "paths": r.paths, "infeasible": r.infeasible,
        "secs": r.secs, "crash": r.crash, "undecided": r.undecided, "covers": r.covers, "notes": sorted(r.notes),
        "obligations": [dict(o.to_json(), smt2=o.smt2 if o.status != "proved" else None) for o in r.obligations],
        "axioms": list(externals.AXIOMS), "assumed": list(gfi.ASSUMED), "files": dict(repo.files_read),
    }


class KnownMap:
    """known findings; an entry's `obligation` is an exact obligation name or a prefix ending in '*'"""

    def __init__(self, entries):
        self.entries = entries

    def find(self, name):
        for f in self.entries:
            o = f["obligation"]
            if o == name or (o.endswith("*") and name.startswith(o[:-1])):
                return f
        return None

    def __contains__(self, name):
        return self.find(name) is not None

    def __getitem__(self, name):
        return self.find(name)

    def __iter__(self):
        return iter([])


def aggregate(results, prop):
    """obligation name -> {status, instances, backends, secs, sample}"""
    agg = {}
    for r in results:
        if r["kind"] != "proof":
            continue
        for o in r["obligations"]:
            n = o["name"]
            if n.startswith("canary:"):
                continue
            if not (n.startswith(prop + ".")):
                continue
            a = agg.setdefault(n, {"status": "proved", "instances": 0, "backends": set(), "secs": 0.0, "bad": None,
                                   "task": r["name"]})
            a["instances"] += 1
            a["backends"].add(o["backend"])
            a["secs"] += o["solver_s"]
            if o["status"] == "refuted":
                if a["status"] != "refuted":
                    a["status"], a["bad"] = "refuted", o
            elif o["status"] != "proved" and a["status"] == "proved":
                a["status"], a["bad"] = "undecided", o
    return agg


def main(argv=None):
    ap = argparse.ArgumentParser()
    ap.add_argument("prop")
    ap.add_argument("--tier", default=os.environ.get("VERIF_TIER", "quick"))
    ap.add_argument("--replay")
    ap.add_argument("--jobs", type=int, default=int(os.environ.get("VERIF_JOBS", "16")))
    a = ap.parse_args(argv)
    prop, tier = a.prop, a.tier
    seed = int(os.environ.get("VERIF_SEED", "0") or 0)
    os.chdir(ROOT)
    if a.replay:
        return do_replay(a.replay)
    t0 = time.time()
    load_contracts()
    names = [n for n, td in TASKS.items() if prop in td.props]
    evid_path = os.path.join(os.environ.get("VERIF_EVIDENCE_DIR") or os.path.join(ROOT, "evidence"), f"{prop}.json")
    os.makedirs(os.path.dirname(evid_path), exist_ok=True)
    if not names:
        print(f"CHECKER-BROKEN: no task serves {prop}")
        return 3
    timeout_ms = 10000 if tier == "quick" else 60000
    if tier == "thorough":
        os.environ["VERIF_CROSS"] = "1"      # every proved VC is re-solved by cvc5 and z3 4.8 (pyvc/ctx.py)
    jobs = [(n, timeout_ms, seed) for n in names]
    with mp.Pool(min(a.jobs, len(jobs))) as pool:
        results = pool.map(_run_one, jobs, chunksize=1)
    broken, undecided = [], []
    for r in results:
        if r["missing"]:
            broken.append(f"{r['name']}: function(s) under contract not found: {r['missing']}")
        if r["kind"] == "proof":
            if r["crash"]:
                broken.append(f"{r['name']}: engine crash\n{r['crash']}")
            for u in r["undecided"]:
                undecided.append(f"{r['name']}: {u[0]}")
            cans = [o for o in r["obligations"] if o["name"].startswith("canary:")]
            if cans and not any(o["status"] == "refuted" for o in cans):
                broken.append(f"{r['name']}: canary not refuted (contradictory assumptions or unsound engine)")
            for k, v in r["covers"].items():
                if not v:
                    broken.append(f"{r['name']}: cover {k} unreachable (vacuous precondition)")
            for o in r["obligations"]:
                if o["status"] == "disagreement":
                    broken.append(f"{r['name']}: {o['name']}: {o.get('reason')}")
    agg = aggregate(results, prop)
    known = json.load(open(os.path.join(ROOT, "known_findings.json"))) if os.path.exists(
        os.path.join(ROOT, "known_findings.json")) else {"findings": []}
    known_names = KnownMap([f for f in known["findings"] if f.get("status") == "known" and f["property"] == prop])
    expected = {}
    ec = os.path.join(ROOT, "contracts", "EXPECTED_COUNTS.json")
    if os.path.exists(ec):
        expected = json.load(open(ec))
    n_ob = len(agg)
    if n_ob == 0:
        broken.append("zero obligations generated")
    if expected.get(prop, 0) > n_ob:
        broken.append(f"only {n_ob} obligations generated, expected >= {expected[prop]}")
    violations, known_hit, und_obs = [], [], []
    for n, v in sorted(agg.items()):
        if v["status"] == "refuted":
            if n in known_names:
                known_hit.append(n)
            else:
                violations.append(n)
        elif v["status"] == "undecided":
            und_obs.append(n)
    # known findings that no longer reproduce are reported (not an error: they may have been fixed)
    stale = [f["obligation"] for f in known_names.entries
             if not f["obligation"].startswith(prop + ".bounded.") and not any(known_names.find(n) is f for n in known_hit)]
    # bounded stand-ins
    bounded = []
    for r in results:
        if r["kind"] == "bounded":
            b = r["bounded"]
            b["task"] = r["name"]
            bounded.append(b)
            for v in b.get("violations", []):
                nm = f"{prop}.bounded.{r['name']}.{v['id']}"
                if nm in known_names:
                    known_hit.append(nm)
                    known_names[nm]["_what"] = v.get("what", "")
                else:
                    violations.append(nm)
                    agg[nm] = {"status": "refuted", "instances": 1, "backends": {"bounded:" + VENV_PY}, "secs": 0.0,
                               "bad": {"name": nm, "model": v, "info": {"bounded": True}, "native": v}, "task": r["name"]}
            if b.get("error"):
                broken.append(f"{r['name']}: bounded stand-in failed to run: {b['error'][-800:]}")
    axioms = None
    if tier == "thorough" and os.environ.get("VERIF_NO_SELFTEST") != "1":
        # axiom conformance: the trusted facts about JAX / TFP are executed against the real libraries (tested, never proved)
        try:
            p = subprocess.run([VENV_PY, os.path.join(ROOT, "replay", "axioms.py")], capture_output=True, text=True, timeout=1800,
                               cwd="/var/tmp", env=dict(os.environ, PYTHONPATH=os.path.join(os.environ.get("VERIF_REPO", "/repo"), "src")))
            axioms = json.loads(p.stdout.strip().splitlines()[-1])
            for f in axioms.get("failed", []):
                broken.append(f"axiom conformance: {f['axiom']} does not hold for the installed libraries: {f}")
        except Exception as e:  # noqa
            broken.append(f"axiom conformance could not run: {e}")
    batteries = None
    if tier == "thorough" and not violations and not broken and os.environ.get("VERIF_NO_SELFTEST") != "1":
        # differential cross-check: the native batteries that replay this property's obligations state the property on the REAL
        # code; on a tree where every obligation is proved they must be silent.  A noisy battery means a contract that is too
        # weak (or a wrong battery): checker broken, reported with the battery's finding
        try:
            import tempfile
            with tempfile.NamedTemporaryFile("w", suffix=".json", delete=False, dir=os.environ.get("TMPDIR", "/var/tmp")) as f:
                json.dump(sorted(agg), f)
            p = subprocess.run([VENV_PY, os.path.join(ROOT, "replay", "native.py"), "--selftest", f.name], capture_output=True, text=True,
                               timeout=3000, cwd="/var/tmp", env=dict(os.environ, PYTHONPATH=os.path.join(os.environ.get("VERIF_REPO", "/repo"), "src")))
            os.unlink(f.name)
            batteries = json.loads([l for l in p.stdout.splitlines() if l.startswith("{")][-1])
            for fam, what in batteries.get("noisy", {}).items():
                broken.append(f"native battery {fam} fails on this tree although every obligation of {prop} is proved: {what[:2]}")
        except Exception as e:  # noqa
            batteries = {"error": str(e)}
    selftest = []
    if tier == "thorough" and not violations and not broken and os.environ.get("VERIF_NO_SELFTEST") != "1":
        selftest = seed_selftest(prop)
        for s in selftest:
            if s["outcome"] == "missed":
                broken.append(f"selftest: seeded change {s['seed']} is no longer detected by ./check {prop} (exit {s['exit']})")
    out_lines = []
    rc = 0
    seen_entries = []
    for n in known_hit:
        f = known_names[n]
        if any(f is g for g in seen_entries):
            continue
        seen_entries.append(f)
        hits = [m for m in known_hit if known_names[m] is f]
        out_lines.append(f"KNOWN-FINDING: property={prop} {f['obligation']} ({len(hits)} obligation(s)): {f.get('what', '')}")
    for n in violations:
        path, reproduced = write_replay(prop, n, agg[n])
        tail = "" if reproduced else " no-failing-input-found"
        out_lines.append(f"VIOLATION property={prop} replay={path}{tail}")
        rc = 1
    if rc == 0 and broken:
        rc = 3
    if rc == 0 and (und_obs or undecided):
        rc = 2
    for b in broken:
        out_lines.append("CHECKER-BROKEN: " + b.splitlines()[0])
    for u in sorted(set(undecided))[:10]:
        out_lines.append("UNDECIDED: " + u)
    for n in und_obs[:10]:
        out_lines.append("UNDECIDED-OBLIGATION: " + n)
    for n in stale:
        out_lines.append(f"NOTE: known finding {n} no longer reproduces")
    wall = time.time() - t0
    write_evidence(evid_path, prop, tier, seed, results, agg, known_hit, violations, und_obs, undecided, broken, bounded, wall,
                   selftest, axioms, batteries)
    n_proved = sum(1 for v in agg.values() if v["status"] == "proved")
    print(f"{prop}: {n_proved}/{len(agg)} obligations proved, {len(known_hit)} known findings, {len(violations)} violations, "
          f"{len(und_obs) + len(set(undecided))} undecided, {len(bounded)} bounded stand-ins, {wall:.1f}s, exit {rc}")
    for l in out_lines:
        print(l)
    if broken:
        for b in broken:
            print(b, file=sys.stderr)
    return rc


def seed_selftest(prop):
    """thorough tier: every kept seeded change of this property (seeded/<prop>-*/patch.diff, written by independent
    sub-agents, each passing the existing test-suite) is applied to a scratch copy of the tree under check; the quick
    check of the property must report a violation there.  A seeded change that is no longer caught means the contracts
    lost detection power: checker broken (exit 3).  A patch that does not apply to the current tree is skipped."""
    import shutil
    import tempfile
    out = []
    repo = os.environ.get("VERIF_REPO", "/repo")
    for d in sorted(glob.glob(os.path.join(ROOT, "seeded", prop + "-*"))):
        patch = os.path.join(d, "patch.diff")
        if not os.path.exists(patch):
            continue
        scratch = tempfile.mkdtemp(prefix="verif_seed_", dir=os.environ.get("TMPDIR", "/var/tmp"))
        try:
            shutil.copytree(os.path.join(repo, "src"), os.path.join(scratch, "src"))
            p = subprocess.run(["patch", "-p1", "-s", "-i", patch], cwd=scratch, capture_output=True, text=True)
            if p.returncode != 0:
                out.append({"seed": os.path.basename(d), "outcome": "patch does not apply to this tree", "exit": None})
                continue
            env = dict(os.environ, VERIF_REPO=scratch, VERIF_EVIDENCE_DIR=os.path.join(scratch, "evidence"),
                       VERIF_REPLAY_DIR=os.path.join(scratch, "replays"), VERIF_NO_SELFTEST="1", VERIF_TIER="quick")
            env.pop("VERIF_CROSS", None)
            q = subprocess.run([sys.executable, "-m", "pyvc.check", prop, "--tier", "quick"], cwd=ROOT, env=env,
                               capture_output=True, text=True)
            vio = [l for l in q.stdout.splitlines() if l.startswith("VIOLATION")]
            out.append({"seed": os.path.basename(d), "outcome": "detected" if (q.returncode == 1 and vio) else "missed",
                        "exit": q.returncode, "violation_lines": len(vio),
                        "first": (vio[0].split("replay=")[-1].split("/")[-1] if vio else q.stdout[-300:])})
        finally:
            shutil.rmtree(scratch, ignore_errors=True)
    return out


def write_replay(prop, name, v):
    d = os.path.join(os.environ.get("VERIF_REPLAY_DIR") or os.path.join(ROOT, "replays"), prop)
    os.makedirs(d, exist_ok=True)
    safe = name.replace("/", "_").replace(":", "_")
    path = os.path.join(d, safe + ".json")
    bad = v["bad"] or {}
    rec = {"property": prop, "obligation": name, "task": v["task"], "verdict": "refuted",
           "model": bad.get("model"), "path_decisions": bad.get("path"), "info": bad.get("info"),
           "solver_output_smt2": (bad.get("smt2") or "")[:200000], "native_replay": None}
    reproduced = False
    if bad.get("native"):
        rec["native_replay"] = bad["native"]
        reproduced = True
    else:
        json.dump(rec, open(path, "w"), indent=1, default=str)       # the native replay reads the obligation from the file
        cands = [os.path.join(ROOT, "replay", safe + ".py"), os.path.join(ROOT, "replay", "native.py")]
        for s in cands:
            if os.path.exists(s):
                try:
                    p = subprocess.run([VENV_PY, s, path], capture_output=True, text=True, timeout=900, cwd="/var/tmp",
                                       env=dict(os.environ, PYTHONPATH=os.path.join(os.environ.get("VERIF_REPO", "/repo"), "src")))
                    rec["native_replay"] = {"script": os.path.relpath(s, ROOT), "exit": p.returncode,
                                            "stdout": p.stdout[-4000:], "stderr": p.stderr[-2000:]}
                    reproduced = p.returncode == 1
                except Exception as e:  # noqa
                    rec["native_replay"] = {"script": s, "error": str(e)}
                break
    rec["reproduced_on_real_code"] = reproduced
    json.dump(rec, open(path, "w"), indent=1, default=str)
    return os.path.relpath(path, ROOT), reproduced


def do_replay(path):
    rec = json.load(open(path))
    print(json.dumps({k: rec[k] for k in ("property", "obligation", "model", "native_replay", "reproduced_on_real_code")},
                     indent=1, default=str))
    return 1 if rec.get("reproduced_on_real_code") else 0


def write_evidence(path, prop, tier, seed, results, agg, known_hit, violations, und_obs, undecided, broken, bounded, wall,
                   selftest=(), axioms=None, batteries=None):
    cross = {}
    for r in results:
        if r["kind"] != "proof":
            continue
        for o in r["obligations"]:
            for nm, ans in ((o.get("info") or {}).get("cross") or {}).items():
                cross.setdefault(nm, {}).setdefault(ans, 0)
                cross[nm][ans] += 1
    obligations = []
    for n, v in sorted(agg.items()):
        obligations.append({"name": n, "status": v["status"], "path_instances": v["instances"],
                            "backend": sorted(v["backends"]), "solver_s": round(v["secs"], 4), "task": v["task"]})
    n_proved = sum(1 for o in obligations if o["status"] == "proved")
    funcs, axioms, assumed, notes, files = {}, set(), set(), set(), {}
    canaries = []
    for r in results:
        for f in r["funcs"]:
            funcs[f["qualname"]] = f
        if r["kind"] == "proof":
            axioms.update(r["axioms"])
            assumed.update(r["assumed"])
            notes.update(r["notes"])
            files.update(r["files"])
            cans = [o for o in r["obligations"] if o["name"].startswith("canary:")]
            if cans:
                canaries.append({"task": r["name"], "refuted_instances": sum(1 for o in cans if o["status"] == "refuted"),
                                 "instances": len(cans)})
    samples = []
    for r in results:
        if r["kind"] != "proof":
            continue
        for o in r["obligations"]:
            if o["name"].startswith(prop + ".") and len(samples) < 4:
                samples.append({"obligation": o["name"], "status": o["status"], "backend": o["backend"],
                                "path_decisions": o.get("path"), "task": r["name"]})
    only_bounded = not obligations or all(o["task"].startswith("bounded") for o in obligations)
    level = "proof" if (obligations and n_proved + len(known_hit) == len(obligations) and not only_bounded) else \
        ("exploration" if bounded and not obligations else "proof")
    try:        # a property whose core is decided by a bounded stand-in is reported at the level MANIFEST.json claims for it
        mnotes = json.load(open(os.path.join(ROOT, "tools", "manifest_notes.json")))
        level = mnotes.get(prop, {}).get("category") or level
    except Exception:
        pass
    b_evals = sum(b.get("evaluations", 0) for b in bounded)
    cov = {
        # obligations the check must discharge on this tree; obligations inside a listed known finding are reported
        # separately (known_finding_obligations) and are NOT counted as discharged
        "obligations": len(obligations) - len([n for n in known_hit if n in agg and not n.startswith(prop + ".bounded.")]),
        "discharged": n_proved,
        "known_finding_obligations": sorted(known_hit),
        "checker_cmd": f"./check {prop} --tier {tier}",
        # (explicit preconditions a contract places on a CALLEE - marked `ASSUMED of ...` in the task - are assumptions left
        # unchecked, not just notes)
        "trusted_base": sorted(axioms) + sorted(assumed) + sorted(n for n in notes if n.startswith("ASSUMED of ")) + [
            "A1: floats are mathematical reals", "A2: traced value = concrete value apart from Python-level concreteness tests",
            "A3: external calls are pure functions of their arguments", "A9: checkify off, beartype checks not modelled",
            "A12: the pyvc engine (AST symbolic executor) and the SMT solvers"],
        "obligation_list": obligations,
        "functions_under_contract": sorted(funcs.values(), key=lambda f: f["qualname"]),
        "source_files_sha256": files,
        "canaries": canaries,
        "known_findings_hit": known_hit,
        "violations": violations,
        "undecided": und_obs + sorted(set(undecided)),
        "checker_broken": [b.splitlines()[0] for b in broken],
        "bounded_standins": bounded,
        "cross_solver_answers": cross,           # thorough tier: answers of cvc5 / z3 4.8 on the VCs z3 5.1 proved
        "seeded_change_selftest": list(selftest),   # thorough tier: kept seeded changes re-run on a scratch copy
        "axiom_conformance": axioms,                # thorough tier: trusted JAX/TFP facts executed against the libraries
        "native_batteries_on_this_tree": batteries,  # thorough tier: the property's replay batteries must be silent here
        "samples": samples or [b.get("samples", [None])[0] for b in bounded][:3],
        "evaluations": max(1, sum(o["path_instances"] for o in obligations) + b_evals),
        "distinct_nontrivial": max(2, len(obligations) + sum(b.get("distinct_nontrivial", 0) for b in bounded)),
        "rule": "one evaluation = one (obligation, execution path) VC discharged by SMT, plus each bounded stand-in case run on the "
                "real code; distinct = distinct named obligations + distinct bounded cases",
        "paths_explored": sum(r.get("paths", 0) for r in results if r["kind"] == "proof"),
        "uninterpreted_externals": sorted(n for n in notes if n.startswith("uninterpreted")),
        "other_notes": sorted(n for n in notes if not n.startswith("uninterpreted")),
        "dropped_by_extraction": ["type annotations / beartype checks", "docstrings", "f-string contents",
                                  "warnings.warn", "Mask shape validation (_validate_init/_validate_mask_shapes)"],
    }
    ev = {"property_id": prop, "tier": tier, "seed": seed, "level": level, "coverage": cov,
          "assumptions": cov["trusted_base"], "wall_s": round(wall, 2), "violations": len(violations)}
    json.dump(ev, open(path, "w"), indent=1, default=str)


if __name__ == "__main__":
    sys.exit(main())
