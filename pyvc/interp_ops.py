"""Symbolic executor, part 2: operators, truthiness, equality, injection into the opaque sort U."""
from __future__ import annotations

import z3

from .values import (Builtin, BoundMethod, ClassRef, ExtRef, FuncVal, ModuleRef, NativeFn, Obj, PyRaise, SBool,
                     SInt, SReal, Stacked, SymMap, TupleT, U, UVal, Unsupported)

NUM = (bool, int, float, SBool, SInt, SReal)


class JDual:
    """dual number primal + eps * tangent"""

    def __init__(self, p, t):
        self.p, self.t = p, t


def is_num(v):
    return isinstance(v, NUM)


def zbool(v):
    if isinstance(v, bool):
        return z3.BoolVal(v)
    if isinstance(v, SBool):
        return v.t
    if isinstance(v, SInt):
        return v.t != 0
    if isinstance(v, int):
        return z3.BoolVal(v != 0)
    raise Unsupported(f"zbool of {v!r}")


def zint(v):
    if isinstance(v, bool):
        return z3.IntVal(int(v))
    if isinstance(v, int):
        return z3.IntVal(v)
    if isinstance(v, SInt):
        return v.t
    if isinstance(v, SBool):
        return z3.If(v.t, z3.IntVal(1), z3.IntVal(0))
    raise Unsupported(f"zint of {v!r}")


def zreal(v):
    if isinstance(v, bool):
        return z3.RealVal(int(v))
    if isinstance(v, (int, float)):
        return z3.RealVal(v)
    if isinstance(v, SReal):
        return v.t
    if isinstance(v, SInt):
        return z3.ToReal(v.t)
    if isinstance(v, SBool):
        return z3.If(v.t, z3.RealVal(1), z3.RealVal(0))
    raise Unsupported(f"zreal of {v!r}")


def conc_of(v):
    if isinstance(v, (bool, int, float)):
        return z3.BoolVal(True)
    if isinstance(v, (SBool, SInt)):
        return v.conc
    return z3.BoolVal(False)


def is_real_like(v):
    return isinstance(v, (float, SReal))


class OpsMixin:
    BUILTINS = {"len", "isinstance", "tuple", "list", "dict", "set", "zip", "enumerate", "range", "reversed", "all",
                "any", "map", "filter", "type", "getattr", "hasattr", "bool", "int", "float", "str", "super", "sum",
                "min", "max", "callable", "sorted", "id", "print", "object", "slice", "iter", "next", "abs", "repr",
                "issubclass", "frozenset", "NotImplemented", "Ellipsis", "staticmethod", "property", "classmethod",
                "setattr", "vars", "hash", "round", "format",
                "Exception", "ValueError", "TypeError", "NotImplementedError", "KeyError", "IndexError",
                "AssertionError", "RuntimeError", "AttributeError", "DeprecationWarning", "StopIteration"}

    # ------------------------------------------------------------------ truthiness
    def truth(self, v, tag=""):
        if isinstance(v, bool):
            return v
        if v is None:
            return False
        if isinstance(v, SBool):
            if z3.is_false(z3.simplify(v.conc)):
                raise PyRaise("TracerBoolConversionError", (), where=tag)
            if not z3.is_true(z3.simplify(v.conc)):
                if not self.ctx.branch(v.conc, tag + ":concrete?"):
                    raise PyRaise("TracerBoolConversionError", (), where=tag)
            return self.ctx.branch(v.t, tag)
        if isinstance(v, SInt):
            if not self.ctx.branch(v.conc, tag + ":concrete?"):
                raise PyRaise("TracerBoolConversionError", (), where=tag)
            return self.ctx.branch(v.t != 0, tag)
        if isinstance(v, (int, float)):
            return v != 0
        if isinstance(v, (str, tuple, list, dict, set, frozenset, range)):
            return len(v) > 0
        if isinstance(v, TupleT):
            if v.head:
                return True
            return self.ctx.branch(self.ulen(v.tail) > 0, tag)
        if isinstance(v, Stacked):
            n = v.n
            return (n > 0) if isinstance(n, int) else self.ctx.branch(n > 0, tag)
        if isinstance(v, Obj):
            b = self.find_method(v.cls, "__bool__")
            if b is not None:
                return self.truth(self.call_function(b, [v], {}))
            ln = self.find_method(v.cls, "__len__")
            if ln is not None:
                return self.truth(self.compare("Gt", self.call_function(ln, [v], {}), 0))
            return True
        if isinstance(v, (FuncVal, BoundMethod, ClassRef, ExtRef, Builtin, ModuleRef, NativeFn)):
            return True
        if isinstance(v, UVal):
            if v.cls and v.cls[:1].isupper() and not self.has_method(v, "__bool__") and not self.has_method(v, "__len__"):
                return True         # an instance of a (Pytree) class without __bool__/__len__ is truthy
            f = self.ctx.fn("truthy", U, z3.BoolSort())
            return self.ctx.branch(f(v.t), tag + ":truthy")
        if isinstance(v, SReal):
            raise PyRaise("TracerBoolConversionError", (), where=tag)
        if hasattr(v, "pyvc_getattr"):
            return True             # a contract-side record object (plain Python object without __bool__/__len__)
        raise Unsupported(f"truth of {type(v).__name__}")

    # ------------------------------------------------------------------ arithmetic
    def binop(self, op, a, b, inplace=False):
        # user-defined operators on repository objects
        dunder = {"BitOr": "__or__", "BitAnd": "__and__", "BitXor": "__xor__", "Add": "__add__", "MatMult": "__matmul__",
                  "Sub": "__sub__", "Mult": "__mul__"}.get(op)
        if dunder and isinstance(a, (Obj, UVal)) and not (isinstance(a, UVal) and a.cls in (None, "leaf", "array", "key", "value")):
            return self.call_method(a, dunder, [b], {})
        if dunder and isinstance(b, (Obj,)) and not is_num(a):
            r = "__r" + dunder[2:]
            if self.has_method(b, r):
                return self.call_method(b, r, [a], {})
        if op == "Add":
            if isinstance(a, tuple) and isinstance(b, tuple):
                return a + b
            if isinstance(a, list) and isinstance(b, list):
                return a + b
            if isinstance(a, str) and isinstance(b, str):
                return a + b
            if isinstance(a, tuple) and isinstance(b, TupleT):
                return TupleT(a + b.head, b.tail)
            if isinstance(a, tuple) and isinstance(b, UVal):
                return TupleT(a, b.t) if a else b
            if isinstance(a, (TupleT, UVal)) and isinstance(b, (tuple, TupleT, UVal)) and not is_num(b) and \
                    (isinstance(a, TupleT) or a.cls == "tuple" or isinstance(b, (tuple, TupleT)) or b.cls == "tuple"):
                f = self.ctx.fn("tuple_concat", U, U, U)
                return UVal(f(self.to_u(a), self.to_u(b)), "tuple")
        if op == "Mult":
            # sequence repetition with a concrete count
            for s_, n_ in ((a, b), (b, a)):
                if isinstance(s_, (list, tuple)) and isinstance(n_, int) and not isinstance(n_, bool):
                    return s_ * n_
        if op == "BitOr" and _typeish(a) and _typeish(b):
            # typing union  X | Y  -> tuple of alternatives (usable by isinstance)
            ta = a if isinstance(a, tuple) else (a,)
            tb = b if isinstance(b, tuple) else (b,)
            return ta + tb
        if op == "BitOr" and isinstance(a, dict) and isinstance(b, dict):
            return {**a, **b}
        if op == "BitOr" and isinstance(a, (set, frozenset)) and isinstance(b, (set, frozenset)):
            return a | b
        if op == "Mod" and isinstance(a, str):
            return "<fmt>"
        if isinstance(a, JDual) or isinstance(b, JDual):
            return self.dual_binop(op, a, b)
        if is_num(a) and is_num(b):
            return self.num_binop(op, a, b)
        if isinstance(a, Stacked) or isinstance(b, Stacked):
            n = a.n if isinstance(a, Stacked) else b.n
            return Stacked(n, lambda i: self.binop(op, a.at(i) if isinstance(a, Stacked) else a,
                                                    b.at(i) if isinstance(b, Stacked) else b), tag=op)
        if isinstance(a, UVal) or isinstance(b, UVal):
            f = self.ctx.fn("u_" + op, U, U, U)
            return UVal(f(self.to_u(a), self.to_u(b)))
        raise Unsupported(f"binop {op} on {type(a).__name__}, {type(b).__name__}")

    def dual_binop(self, op, a, b):
        """forward-mode dual numbers (used by the model of jax.jvp on arithmetic lambdas; assumption A7)"""
        def coerce(x):       # an opaque array entering real arithmetic is read as a real number
            return SReal(self.ctx.fn("as_real", U, z3.RealSort())(x.t)) if isinstance(x, UVal) else x
        a, b = coerce(a), coerce(b)
        pa, ta = (a.p, a.t) if isinstance(a, JDual) else (a, 0.0)
        pb, tb = (b.p, b.t) if isinstance(b, JDual) else (b, 0.0)
        if not (is_num(pa) and is_num(pb)):
            raise Unsupported("dual arithmetic on non-reals")
        B = self.num_binop
        if op == "Add":
            return JDual(B("Add", pa, pb), B("Add", ta, tb))
        if op == "Sub":
            return JDual(B("Sub", pa, pb), B("Sub", ta, tb))
        if op == "Mult":
            return JDual(B("Mult", pa, pb), B("Add", B("Mult", ta, pb), B("Mult", pa, tb)))
        if op == "Div" and not isinstance(b, JDual):
            return JDual(B("Div", pa, pb), B("Div", ta, pb))
        raise Unsupported(f"dual arithmetic {op}")

    def num_binop(self, op, a, b):
        conc = z3.And(conc_of(a), conc_of(b))
        if op in ("BitAnd", "BitOr", "BitXor"):
            if isinstance(a, (bool, SBool)) and isinstance(b, (bool, SBool)):
                if isinstance(a, bool) and isinstance(b, bool):
                    return {"BitAnd": a & b, "BitOr": a | b, "BitXor": a ^ b}[op]
                ta, tb = zbool(a), zbool(b)
                t = {"BitAnd": z3.And, "BitOr": z3.Or, "BitXor": z3.Xor}[op](ta, tb)
                return SBool(t, conc)
            raise Unsupported(f"bitwise op on non-bool {a!r} {b!r}")
        if all(isinstance(x, (bool, int, float)) for x in (a, b)):
            import operator
            return {"Add": operator.add, "Sub": operator.sub, "Mult": operator.mul, "Div": operator.truediv,
                    "Mod": operator.mod, "FloorDiv": operator.floordiv, "Pow": operator.pow}[op](a, b)
        real = is_real_like(a) or is_real_like(b) or op == "Div"
        if real:
            if op == "Mult":
                # keep products with flags linear
                if isinstance(a, (bool, SBool)):
                    return SReal(z3.If(zbool(a), zreal(b), z3.RealVal(0)))
                if isinstance(b, (bool, SBool)):
                    return SReal(z3.If(zbool(b), zreal(a), z3.RealVal(0)))
            x, y = zreal(a), zreal(b)
            if op == "Add":
                return SReal(x + y)
            if op == "Sub":
                return SReal(x - y)
            if op == "Mult":
                return SReal(x * y)
            if op == "Div":
                return SReal(x / y)
            if op == "Pow":
                if isinstance(b, int) and b >= 0:
                    r = z3.RealVal(1)
                    for _ in range(b):
                        r = r * x
                    return SReal(r)
            raise Unsupported(f"real op {op}")
        x, y = zint(a), zint(b)
        if op == "Add":
            return SInt(x + y, conc)
        if op == "Sub":
            return SInt(x - y, conc)
        if op == "Mult":
            if isinstance(a, (bool, SBool)):
                return SInt(z3.If(zbool(a), y, z3.IntVal(0)), conc)
            if isinstance(b, (bool, SBool)):
                return SInt(z3.If(zbool(b), x, z3.IntVal(0)), conc)
            return SInt(x * y, conc)
        if op == "Mod":
            return SInt(x % y, conc)       # z3 mod with positive divisor == Python/NumPy floor mod
        if op == "FloorDiv":
            return SInt(x / y, conc)
        raise Unsupported(f"int op {op}")

    def unaryop(self, op, a):
        if op == "Not":
            t = self.truth(a, tag="not")
            return not t
        if op == "USub":
            if isinstance(a, (int, float)) and not isinstance(a, bool):
                return -a
            if isinstance(a, (SInt, bool, SBool)):
                return SInt(-zint(a), conc_of(a))
            if isinstance(a, SReal):
                return SReal(-a.t)
            if isinstance(a, Stacked):
                return Stacked(a.n, lambda i: self.unaryop(op, a.at(i)))
            if isinstance(a, UVal):
                return UVal(self.ctx.fn("u_neg", U, U)(a.t))
        if op == "Invert":
            if isinstance(a, (Obj, UVal)):
                return self.call_method(a, "__invert__", [], {})
            if isinstance(a, bool):
                return ~a                       # Python: ~True == -2, ~False == -1
            if isinstance(a, SBool):
                if self.ctx.branch(a.conc, "~:python-bool?"):
                    return SInt(z3.If(a.t, z3.IntVal(-2), z3.IntVal(-1)), True)
                return SBool(z3.Not(a.t), False)       # logical not on a boolean array
            if isinstance(a, int):
                return ~a
            if isinstance(a, SInt):
                return SInt(-1 - a.t, a.conc)
        if op == "UAdd":
            return a
        raise Unsupported(f"unary {op} on {a!r}")

    # ------------------------------------------------------------------ comparison / equality
    def compare(self, op, a, b):
        if op == "Is":
            return self.is_(a, b)
        if op == "IsNot":
            r = self.is_(a, b)
            return (not r) if isinstance(r, bool) else SBool(z3.Not(r.t), True)
        if op in ("Eq", "NotEq") and (isinstance(a, Stacked) or isinstance(b, Stacked)) and \
                all(isinstance(x, Stacked) or is_num(x) for x in (a, b)):
            # array == scalar / array == array: elementwise (an array of flags)
            n = a.n if isinstance(a, Stacked) else b.n
            return Stacked(n, lambda i: self.compare(op, a.at(i) if isinstance(a, Stacked) else a,
                                                     b.at(i) if isinstance(b, Stacked) else b), tag="eq")
        if op == "Eq":
            return self.py_eq(a, b)
        if op == "NotEq":
            r = self.py_eq(a, b)
            return (not r) if isinstance(r, bool) else SBool(z3.Not(r.t), r.conc)
        if op in ("In", "NotIn"):
            r = self.contains(b, a)
            if op == "NotIn":
                r = (not r) if isinstance(r, bool) else SBool(z3.Not(r.t), r.conc)
            return r
        if is_num(a) and is_num(b):
            if all(isinstance(x, (bool, int, float)) for x in (a, b)):
                import operator
                return {"Lt": operator.lt, "LtE": operator.le, "Gt": operator.gt, "GtE": operator.ge}[op](a, b)
            if is_real_like(a) or is_real_like(b):
                x, y = zreal(a), zreal(b)
            else:
                x, y = zint(a), zint(b)
            t = {"Lt": x < y, "LtE": x <= y, "Gt": x > y, "GtE": x >= y}[op]
            return SBool(t, z3.And(conc_of(a), conc_of(b)))
        if isinstance(a, Stacked) or isinstance(b, Stacked):
            n = a.n if isinstance(a, Stacked) else b.n
            return Stacked(n, lambda i: self.compare(op, a.at(i) if isinstance(a, Stacked) else a,
                                                      b.at(i) if isinstance(b, Stacked) else b))
        raise Unsupported(f"compare {op} on {a!r}, {b!r}")

    def is_(self, a, b):
        if b is None or a is None:
            if a is None and b is None:
                return True
            x = a if b is None else b
            if isinstance(x, UVal):
                if x.cls in ("maybe", None):
                    f = self.ctx.fn("is_None", U, z3.BoolSort())
                    return SBool(f(x.t), True)
                return False
            return False
        if isinstance(b, bool) or isinstance(a, bool):
            x, c = (a, b) if isinstance(b, bool) else (b, a)
            if isinstance(x, bool):
                return x is c
            if isinstance(x, SBool):
                return SBool(z3.And(x.conc, x.t if c else z3.Not(x.t)), True)
            return False
        if isinstance(a, Obj) and isinstance(b, Obj):
            return a is b
        if a is Ellipsis or b is Ellipsis:
            x = b if a is Ellipsis else a
            if isinstance(x, UVal) and x.cls is None:
                return SBool(x.t == self.to_u(Ellipsis), True)
            return a is b
        if isinstance(a, (ClassRef, ExtRef, Builtin)) or isinstance(b, (ClassRef, ExtRef, Builtin)):
            return a == b
        if isinstance(a, UVal) and isinstance(b, UVal):
            return SBool(a.t == b.t, True)
        return a is b

    def py_eq(self, a, b):
        """Python `==` (dataclass structural equality for repository dataclasses)"""
        r = self.veq(a, b, obs=False)
        if isinstance(r, bool):
            return r
        r = z3.simplify(r)
        if z3.is_true(r):
            return True
        if z3.is_false(r):
            return False
        conc = True
        if (isinstance(a, (SBool, SInt, SReal)) and not z3.is_true(z3.simplify(conc_of(a)))) or \
           (isinstance(b, (SBool, SInt, SReal)) and not z3.is_true(z3.simplify(conc_of(b)))):
            conc = z3.And(conc_of(a), conc_of(b))
        return SBool(r, conc)

    def veq(self, a, b, obs=True):
        """z3 Bool (or Python bool) saying a == b.  obs=True: observational equality used by specs
        (Masks are compared by flag and, when valid, value; Diff-free); obs=False: Python ==."""
        if a is b and not isinstance(a, (SReal,)):
            return True
        if is_num(a) and is_num(b):
            if isinstance(a, (bool, SBool)) and isinstance(b, (bool, SBool)):
                if isinstance(a, bool) and isinstance(b, bool):
                    return a == b
                return zbool(a) == zbool(b)
            if all(isinstance(x, (bool, int, float)) for x in (a, b)):
                return a == b
            if is_real_like(a) or is_real_like(b):
                return zreal(a) == zreal(b)
            return zint(a) == zint(b)
        if isinstance(a, str) or isinstance(b, str) or a is None or b is None or a is Ellipsis or b is Ellipsis:
            if isinstance(a, UVal) or isinstance(b, UVal):
                return self.to_u(a) == self.to_u(b)
            return type(a) == type(b) and a == b
        if isinstance(a, slice) and isinstance(b, slice):
            return a == b
        if isinstance(a, (tuple, list)) and isinstance(b, (tuple, list)):
            if type(a) != type(b) and not obs:
                return False
            if len(a) != len(b):
                return False
            return self._and([self.veq(x, y, obs) for x, y in zip(a, b)])
        if isinstance(a, (TupleT, tuple)) and isinstance(b, (TupleT, tuple)):
            ha = a.head if isinstance(a, TupleT) else a
            hb = b.head if isinstance(b, TupleT) else b
            k = min(len(ha), len(hb))
            parts = [self.veq(x, y, obs) for x, y in zip(ha[:k], hb[:k])]
            ra = self._rest(a, k)
            rb = self._rest(b, k)
            parts.append(self.to_u(ra) == self.to_u(rb))
            return self._and(parts)
        if isinstance(a, dict) and isinstance(b, dict):
            if set(a.keys()) != set(b.keys()):
                return False
            return self._and([self.veq(a[k], b[k], obs) for k in a])
        if isinstance(a, SymMap) and isinstance(b, SymMap):
            # extensional equality of finite maps: same domain, same values on the domain
            k = self.ctx.const("kmap", U)
            return z3.And(a.has == b.has, z3.ForAll([k], z3.Implies(z3.Select(a.has, k), z3.Select(a.val, k) == z3.Select(b.val, k)))) \
                if not (a.val.eq(b.val)) else (a.has == b.has)
        if isinstance(a, Obj) and isinstance(b, Obj):
            if a.cls != b.cls:
                return False
            if a.cls.name == "Mask" and obs and all(isinstance(self.mask_flag(m), (bool, int, SBool, SInt, UVal)) for m in (a, b)):
                fa, fb = self.mask_flag(a), self.mask_flag(b)
                fe = self.veq(fa, fb, obs)
                ve = self.veq(a.fields["value"], b.fields["value"], obs)
                return self._and([fe, self._implies(zbool_any(self, fa), ve)])
            keys = set(a.fields) | set(b.fields)
            if not a.cls.is_dataclass and not obs:
                return a is b
            return self._and([self.veq(a.fields.get(k), b.fields.get(k), obs) for k in sorted(keys)])
        if isinstance(a, Stacked) and isinstance(b, Stacked):
            i = self.ctx.const("ieq", z3.IntSort())
            e = self.veq(a.at(i), b.at(i), obs)
            na, nb = (z3.IntVal(x) if isinstance(x, int) else x for x in (a.n, b.n))
            if isinstance(e, bool):
                return self._and([na == nb, e])
            # pointwise equality for a fresh index is what callers want to PROVE; as a hypothesis it is weak
            return self._and([na == nb, z3.Implies(z3.And(i >= 0, i < na), e)])
        if isinstance(a, (FuncVal, BoundMethod, ClassRef, ExtRef, Builtin, NativeFn, ModuleRef)) and \
           isinstance(b, (FuncVal, BoundMethod, ClassRef, ExtRef, Builtin, NativeFn, ModuleRef)):
            if isinstance(a, FuncVal) and isinstance(b, FuncVal):
                if a.node is not b.node:
                    return False
                return self.to_u(a) == self.to_u(b)
            if isinstance(a, BoundMethod) and isinstance(b, BoundMethod):
                if a.func.node is not b.func.node:
                    return False
                return self.veq(a.self_, b.self_, obs)
            return a == b
        if isinstance(a, (set, frozenset)) and isinstance(b, (set, frozenset)):
            return a == b
        try:
            return self.to_u(a) == self.to_u(b)
        except Unsupported:
            raise
        except Exception as e:
            raise Unsupported(f"veq {type(a).__name__} vs {type(b).__name__}: {e}")

    def _rest(self, t, k):
        if isinstance(t, tuple):
            return t[k:]
        if k == len(t.head):
            return UVal(t.tail, "tuple")
        return TupleT(t.head[k:], t.tail)

    def _and(self, parts):
        ps = []
        for p in parts:
            if isinstance(p, bool):
                if not p:
                    return False
            else:
                ps.append(p)
        if not ps:
            return True
        return z3.And(*ps) if len(ps) > 1 else ps[0]

    def _implies(self, a, b):
        if isinstance(b, bool):
            if b:
                return True
            return z3.Not(a) if not isinstance(a, bool) else (not a)
        if isinstance(a, bool):
            return b if a else True
        return z3.Implies(a, b)

    def mask_flag(self, m):
        f = m.fields["flag"]
        if isinstance(f, Obj) and f.cls.name == "Diff":
            f = f.fields["primal"]
        return f

    # ------------------------------------------------------------------ injection into U
    def to_u(self, v):
        c = self.ctx
        if isinstance(v, UVal):
            if v.t is None:
                raise Unsupported("recursive module binding used")
            return v.t
        if isinstance(v, bool):
            return c.fn("inj_bool", z3.BoolSort(), U)(z3.BoolVal(v))
        if isinstance(v, SBool):
            return c.fn("inj_bool", z3.BoolSort(), U)(v.t)
        if isinstance(v, int):
            return c.fn("inj_int", z3.IntSort(), U)(z3.IntVal(v))
        if isinstance(v, SInt):
            return c.fn("inj_int", z3.IntSort(), U)(v.t)
        if isinstance(v, (float, SReal)):
            return c.fn("inj_real", z3.RealSort(), U)(zreal(v))
        if v is None:
            return z3.Const("u_None", U)
        if v is Ellipsis:
            return z3.Const("u_Ellipsis", U)
        if isinstance(v, str):
            return self.str_const(v)
        if isinstance(v, (tuple, list)):
            t = z3.Const("u_nil", U)
            cons = c.fn("u_cons", U, U, U)
            for x in reversed(v):
                t = cons(self.to_u(x), t)
            return t
        if isinstance(v, TupleT):
            t = v.tail
            cons = c.fn("u_cons", U, U, U)
            for x in reversed(v.head):
                t = cons(self.to_u(x), t)
            return t
        if isinstance(v, dict):
            t = z3.Const("u_dnil", U)
            cons = c.fn("u_dcons", U, U, U, U)
            for k in sorted(v.keys(), key=repr):
                t = cons(self.to_u(k), self.to_u(v[k]), t)
            return t
        if isinstance(v, Obj):
            hook = getattr(self, "to_u_hooks", {}).get(v.cls.qualname)
            if hook is not None:
                r = hook(self, v)
                if r is not None:
                    return r
            names = sorted(v.fields)
            f = c.fn("mk_" + v.cls.name, *([U] * len(names)), U)
            args = [self.to_u(v.fields[n]) for n in names]
            t = f(*args) if names else z3.Const("mk0_" + v.cls.name, U)
            return t
        if isinstance(v, FuncVal):
            base = z3.Const(f"fn_{v.module.name if v.module else ''}_{v.name}_{getattr(v.node, 'lineno', 0)}", U)
            fvs = self.free_values(v)
            if not fvs:
                return base
            return c.fn("u_closure", U, U, U)(base, self.to_u(tuple(fvs)))
        if isinstance(v, BoundMethod):
            return c.fn("u_bound", U, U, U)(self.to_u(v.self_), self.to_u(v.func))
        if isinstance(v, ClassRef):
            return z3.Const("cls_" + v.ci.name, U)
        if isinstance(v, (ExtRef, Builtin, NativeFn, ModuleRef)):
            nm = getattr(v, "path", None) or getattr(v, "name", "")
            return z3.Const("ext_" + nm, U)
        if isinstance(v, slice):
            return c.fn("u_slice", U, U, U, U)(self.to_u(v.start), self.to_u(v.stop), self.to_u(v.step))
        if isinstance(v, Stacked):
            return self.stack_to_u(v)
        if isinstance(v, SymMap):
            f = c.fn("mk_dict", z3.ArraySort(U, z3.BoolSort()), z3.ArraySort(U, U), U)
            return f(v.has, v.val)
        if hasattr(v, "pyvc_getattr"):
            # a contract-supplied record (e.g. a schematic jaxpr): an opaque value, one constant per object (identity)
            if not hasattr(self, "_rec_u"):
                self._rec_u = {}
            if id(v) not in self._rec_u:
                self._rec_u[id(v)] = (self.ctx.const("record", U), v)
            return self._rec_u[id(v)][0]
        raise Unsupported(f"to_u of {type(v).__name__}")

    def stack_to_u(self, v):
        """a Stacked value as an opaque term: fresh array symbol + pointwise definition recorded as a lemma
        instance generator (elements are related on demand through `u_index`)"""
        key = id(v)
        if not hasattr(self, "_stk"):
            self._stk = {}
        if key in self._stk:
            return self._stk[key][0]
        t = self.ctx.const("stk", U)
        self._stk[key] = (t, v)
        self.ctx.stacks = getattr(self.ctx, "stacks", [])
        self.ctx.stacks.append((t, v))
        return t

    def str_const(self, s):
        if not hasattr(self.ctx, "strs"):
            self.ctx.strs = {}
        if s not in self.ctx.strs:
            t = z3.Const("str_" + s, U)
            for o in self.ctx.strs.values():
                self.ctx.assume(t != o)
            self.ctx.strs[s] = t
        return self.ctx.strs[s]

    def free_values(self, fv):
        import ast as _ast
        names = []
        seen = set()
        params = {a.arg for a in fv.node.args.args + fv.node.args.kwonlyargs + fv.node.args.posonlyargs}
        if fv.node.args.vararg:
            params.add(fv.node.args.vararg.arg)
        if fv.node.args.kwarg:
            params.add(fv.node.args.kwarg.arg)
        body = fv.node.body if isinstance(fv.node.body, list) else [fv.node.body]
        for st in body:
            for n in _ast.walk(st):
                if isinstance(n, _ast.Name) and n.id not in params and n.id not in seen:
                    seen.add(n.id)
                    e = fv.env
                    while e is not None:
                        if n.id in e.vars:
                            names.append(e.vars[n.id])
                            break
                        e = e.parent
        out = []
        for x in names:
            try:
                self.to_u(x)
                out.append(x)
            except Unsupported:
                out.append("<opaque>")
        return out

    def ulen(self, t):
        f = self.ctx.fn("tuple_len", U, z3.IntSort())
        self.ctx.assume(f(t) >= 0)
        return f(t)

    def hashable(self, k):
        if isinstance(k, list):
            return tuple(k)
        return k

    # ------------------------------------------------------------------ containers
    def iterate(self, v):
        if isinstance(v, (tuple, list, set, frozenset, range, str)):
            return list(v)
        if isinstance(v, dict):
            return list(v.keys())
        if isinstance(v, TupleT) or isinstance(v, UVal):
            raise Unsupported(f"iteration over opaque {v!r}")
        if isinstance(v, Stacked):
            if isinstance(v.n, int):
                return [v.at(z3.IntVal(i)) for i in range(v.n)]
            raise Unsupported("iteration over symbolic-length sequence")
        if isinstance(v, Obj) and self.has_method(v, "__iter__"):
            return self.iterate(self.call_method(v, "__iter__", [], {}))
        if isinstance(v, type({}.keys())) or isinstance(v, type({}.values())) or isinstance(v, type({}.items())):
            return list(v)
        if hasattr(v, "__iter__") and type(v).__name__ in ("zip", "map", "enumerate", "reversed", "list_reverseiterator", "generator", "dict_keyiterator"):
            return list(v)
        raise Unsupported(f"iterate over {type(v).__name__}")

    def unpack(self, v, n):
        if isinstance(v, (tuple, list)):
            if len(v) != n:
                raise PyRaise("ValueError", (f"unpack {len(v)} into {n}",))
            return list(v)
        if isinstance(v, TupleT):
            if len(v.head) > n:
                raise PyRaise("ValueError", ("too many values to unpack",))
            out = list(v.head)
            rest = UVal(v.tail, "tuple")
            k = n - len(out)
            out.extend(self.unpack(rest, k) if k else [])
            if k == 0:
                self.ctx.assume(self.ulen(v.tail) == 0)
            return out
        if isinstance(v, UVal):
            if n == 0:
                return []
            outs = []
            for i in range(n):
                f = self.ctx.fn(f"proj_{n}_{i}", U, U)
                outs.append(UVal(f(v.t)))
            # the opaque value IS that tuple (shape assumption recorded)
            self.ctx.assume(v.t == self.to_u(tuple(outs)))
            self.ctx.notes.append(f"assumed: opaque value unpacks into {n} components")
            h = getattr(self, "unpack_hook", None)
            if h is not None:
                h(self, v, outs)
            return outs
        if isinstance(v, Stacked) and isinstance(v.n, int):
            return self.unpack(self.iterate(v), n)
        if isinstance(v, Stacked):
            # a batch of n-tuples unzips into n batches (what jax.vmap / lax.scan return for tuple-valued functions)
            return [Stacked(v.n, lambda i, j=j: self.getitem(v.at(i), j), tag=f"unzip{j}") for j in range(n)]
        if isinstance(v, Obj):
            return self.unpack(self.iterate(v), n)
        return self.unpack(self.iterate(v), n)

    def symmap_wrap(self, m, t):
        return UVal(t, m.elem_cls)

    def getitem(self, o, k):
        if isinstance(k, ExtRef) and k.path.endswith("newaxis") and getattr(self, "newaxis_cls", None):
            return self.newaxis_cls(o)
        if isinstance(o, SymMap):
            kt = self.to_u(self.hashable(k))
            if not self.ctx.branch(z3.Select(o.has, kt), tag="dict-has-key"):
                raise PyRaise("KeyError", (k,))
            return self.symmap_wrap(o, z3.Select(o.val, kt))
        if isinstance(o, (tuple, list, str)):
            if isinstance(k, bool):
                k = int(k)
            if isinstance(k, (int, slice)):
                try:
                    return o[k]
                except IndexError:
                    raise PyRaise("IndexError", ())
            if isinstance(k, SInt):
                n = len(o)
                if n == 0:
                    raise PyRaise("IndexError", ())
                # python list indexing with a symbolic concrete int: case split
                for j in range(-n, n):
                    if self.ctx.branch(k.t == j, tag=f"index=={j}"):
                        return o[j]
                raise PyRaise("IndexError", ())
        if isinstance(o, dict):
            kk = self.hashable(k)
            if _plain(kk) and all(_plain(x) for x in o):
                if kk in o:
                    return o[kk]
                raise PyRaise("KeyError", (k,))
            for x in list(o.keys()):          # symbolic keys: look the key up by (symbolic) equality
                if x is kk or (not (_plain(x) and _plain(kk)) and self.truth(self.py_eq(x, kk), tag="dict-key-eq")) or \
                        (_plain(x) and _plain(kk) and x == kk):
                    return o[x]
            raise PyRaise("KeyError", (k,))
        if isinstance(o, TupleT):
            if isinstance(k, int) and 0 <= k < len(o.head):
                return o.head[k]
            if isinstance(k, slice) and k.step is None and k.stop is None and (k.start or 0) >= 0:
                s = k.start or 0
                if s <= len(o.head):
                    return self._rest(o, s)
            if isinstance(k, slice) and k.step is None and k.start in (None, 0) and k.stop is not None and 0 <= k.stop <= len(o.head):
                return o.head[: k.stop]
            raise Unsupported(f"index {k!r} into tuple with opaque tail")
        if isinstance(o, Stacked):
            if isinstance(k, (int, SInt)):
                return o.at(self.jax_index(k, o.n))
            if isinstance(k, slice) and k == slice(None, None, None):
                return o
            if isinstance(k, slice) and k.step is None and k.stop is None and isinstance(k.start, int) and k.start >= 0:
                s = k.start
                return Stacked(o.n - s, lambda i: o.at(i + s), tag="slice")
            if isinstance(k, slice) and k.step is None and k.start in (None, 0) and isinstance(k.stop, int) and k.stop < 0:
                # v[:-m]: all but the last m elements (A4: a slice is the sub-sequence; lengths of at least m are the caller's
                # precondition, as for JAX)
                return Stacked(o.n + k.stop, lambda i: o.at(i), tag="slice")
            raise Unsupported(f"index {k!r} into Stacked")
        if type(o).__name__ == "AtRef":
            from .interp_call import AtIdx
            return AtIdx(o.base, k)
        if isinstance(o, Obj):
            return self.call_method(o, "__getitem__", [k], {})
        if isinstance(o, UVal):
            if o.cls is not None and self.has_method(o, "__getitem__"):
                return self.call_method(o, "__getitem__", [k], {})
            if o.cls == "shape" and isinstance(k, int) and k >= 0:
                # x.shape[k]: a concrete Python int; for k = 0 it is the length of the leading axis
                if z3.is_app(o.t) and o.t.decl().name() == "shape_of" and k == 0:
                    n = self.ctx.fn("axis0_len", U, z3.IntSort())(o.t.arg(0))
                elif z3.is_app(o.t) and o.t.decl().name() == "shape_of":
                    n = self.ctx.fn("axis_len", U, z3.IntSort(), z3.IntSort())(o.t.arg(0), z3.IntVal(k))
                else:
                    n = self.ctx.fn("shape_dim", U, z3.IntSort(), z3.IntSort())(o.t, z3.IntVal(k))
                self.ctx.assume(n >= 0)
                return SInt(n, True)
            if o.cls in ("array", "batched") and isinstance(k, (int, SInt)):
                n = self.ctx.fn("axis0_len", U, z3.IntSort())(o.t)
                return UVal(self.ctx.fn("axis0_index", U, z3.IntSort(), U)(o.t, self.jax_index(k, n)), o.cls)
            if o.cls == "tuple" or o.cls is None:
                if isinstance(k, int) and k >= 0:
                    f = self.ctx.fn("tuple_get", U, z3.IntSort(), U)
                    return UVal(f(o.t, z3.IntVal(k)))
                if isinstance(k, slice) and k.step is None and k.stop is None and isinstance(k.start, int):
                    f = self.ctx.fn("tuple_drop", U, z3.IntSort(), U)
                    return UVal(f(o.t, z3.IntVal(k.start)), "tuple")
            f = self.ctx.fn("u_index", U, U, U)
            return UVal(f(o.t, self.to_u(k)))
        if isinstance(o, SReal) or isinstance(o, SInt) or isinstance(o, SBool):
            raise Unsupported("indexing a scalar")
        raise Unsupported(f"getitem on {type(o).__name__}")

    def jax_index(self, k, n):
        """v[k] along the leading axis (length n) with JAX semantics: a negative index counts from the end, an out-of-range
        index is clamped into range (a concrete out-of-range index raises in JAX: not modelled, off-spec)"""
        if isinstance(k, int):
            if isinstance(n, int):
                return z3.IntVal(max(0, min(n - 1, k + n if k < 0 else k)))
            k = z3.IntVal(k)
        else:
            k = zint(k)
        n = z3.IntVal(n) if isinstance(n, int) else n
        j = z3.If(k < 0, k + n, k)
        return z3.If(j < 0, z3.IntVal(0), z3.If(j >= n, n - 1, j))

    def setitem(self, o, k, v):
        if isinstance(o, SymMap):
            kt = self.to_u(self.hashable(k))
            o.has = z3.Store(o.has, kt, z3.BoolVal(True))
            o.val = z3.Store(o.val, kt, self.to_u(v))
            return
        if isinstance(o, list):
            if isinstance(k, int):
                o[k] = v
                return
        if isinstance(o, dict):
            hk = self.hashable(k)
            if not _plain(hk) or not all(_plain(kk) for kk in o):
                # symbolic key: it may equal a key that is already present (then that entry is replaced)
                for kk in list(o.keys()):
                    if _plain(kk) and _plain(hk):
                        continue
                    if self.truth(self.py_eq(kk, hk), tag="dict-key-eq"):
                        o[kk] = v
                        return
            o[hk] = v
            return
        if isinstance(o, Obj):
            self.call_method(o, "__setitem__", [k, v], {})
            return
        raise Unsupported(f"setitem on {type(o).__name__}")

    def contains(self, container, x):
        if isinstance(container, SymMap):
            return SBool(z3.Select(container.has, self.to_u(self.hashable(x))), True)
        if isinstance(container, dict):
            return self.hashable(x) in container if _plain(x) else self._any_eq(container.keys(), x)
        if isinstance(container, (tuple, list, set, frozenset)):
            return self._any_eq(container, x)
        if isinstance(container, str):
            return x in container
        if isinstance(container, (Obj, UVal)):
            r = self.call_method(container, "__contains__", [x], {})
            return r
        if isinstance(container, type({}.keys())):
            return self._any_eq(list(container), x)
        raise Unsupported(f"`in` on {type(container).__name__}")

    def _any_eq(self, items, x):
        for it in items:
            r = self.py_eq(it, x)
            if self.truth(r):
                return True
        return False


def _typeish(x):
    if isinstance(x, (Builtin, ClassRef, ExtRef)) or x is None:
        return True
    return isinstance(x, tuple) and len(x) > 0 and all(_typeish(y) for y in x)


def _plain(x):
    if isinstance(x, (str, int, float, bool, type(None))) or x is Ellipsis:
        return True
    if isinstance(x, tuple):
        return all(_plain(y) for y in x)
    return False


def zbool_any(interp, f):
    if isinstance(f, (bool, SBool, SInt, int)):
        return zbool(f)
    if isinstance(f, UVal):
        return interp.ctx.fn("u_truth", U, z3.BoolSort())(f.t)
    raise Unsupported(f"flag {f!r}")
