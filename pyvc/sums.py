"""Finite sums (assumption A6: linearity + extensionality of finite sums) and scoped universal lemmas."""
from __future__ import annotations

import z3

from .values import Infeasible, SReal, Stacked, Unsupported
from .interp_ops import zreal


class SumsMixin:
    def make_sum(self, st: Stacked):
        c = self.ctx.const("sum", z3.RealSort())
        n = z3.IntVal(st.n) if isinstance(st.n, int) else st.n
        self.ctx.sums.append((c, n, st))
        self.ctx.assume(z3.Implies(n <= 0, c == 0))
        if isinstance(st.n, int) and 0 < st.n <= 6:
            acc = z3.RealVal(0)
            for k in range(st.n):
                acc = acc + zreal(st.at(z3.IntVal(k)))
            self.ctx.assume(c == acc)
        return SReal(c)

    def forall_paths(self, body):
        """run body() on every local branch combination, in a scope whose assumptions are discarded afterwards.
        Returns True iff body() returned True on all feasible local paths."""
        ctx = self.ctx
        saved = (ctx.decisions, ctx.pos, ctx.pending, dict(ctx.views), list(ctx.trace), len(ctx.sums))
        local = [[]]
        ok = True
        n_paths = 0
        try:
            while local:
                d = local.pop()
                n_paths += 1
                if n_paths > 64:
                    ok = False
                    break
                ctx.solver.push()
                mark = len(ctx.pc)
                ctx.decisions, ctx.pos, ctx.pending = list(d), 0, []
                from . import values as _v
                _v.SCOPE_COUNTER = getattr(_v, "SCOPE_COUNTER", 0) + 1
                _v.SCOPES.append(_v.SCOPE_COUNTER)
                try:
                    r = body()
                except Infeasible:
                    r = True
                finally:
                    _v.SCOPES.pop()
                    local.extend(ctx.pending)
                    del ctx.pc[mark:]
                    ctx.solver.pop()
                    ctx.views = dict(saved[3])
                    del ctx.sums[saved[5]:]
                ok = ok and bool(r)
                if not ok:
                    break
        finally:
            ctx.decisions, ctx.pos, ctx.pending = saved[0], saved[1], saved[2]
            ctx.trace = saved[4]
        return ok

    def sum_linear(self, terms):
        """terms: list of (coef:int, SReal that is a sum constant).  Proves  sum_j coef_j * elem_j(i) == 0  for a fresh
        index i in range (pointwise), and then records the fact  sum_j coef_j * S_j == 0  (A6).  Returns bool."""
        ctx = self.ctx
        entries = []
        for coef, s in terms:
            ent = [e for e in ctx.sums if e[0].eq(s.t)]
            if not ent:
                raise Unsupported("sum_linear: term is not a recorded sum")
            entries.append((coef, ent[0]))
        n0 = entries[0][1][1]
        for _, e in entries[1:]:
            if not ctx.entails(e[1] == n0):
                return False

        def body():
            i = ctx.const("isum", z3.IntSort())
            ctx.assume(z3.And(i >= 0, i < n0))
            acc = z3.RealVal(0)
            for coef, e in entries:
                st = e[2]
                acc = acc + coef * zreal(st.fn(i))
            return ctx.entails(acc == 0)
        ok = self.forall_paths(body)
        if ok:
            tot = z3.RealVal(0)
            for coef, e in entries:
                tot = tot + coef * e[0]
            ctx.assume(tot == 0)
        return ok

    def sum_point_update(self, s_new, s_old, idx):
        """finite sums differing at one index (A6): if 0 <= idx < n and new(i) == old(i) for every i != idx, then
        S_new - S_old == new(idx) - old(idx).  The pointwise premise is PROVED (scoped), then the fact is recorded."""
        ctx = self.ctx
        en = [e for e in ctx.sums if e[0].eq(s_new.t)]
        eo = [e for e in ctx.sums if e[0].eq(s_old.t)]
        if not en or not eo:
            raise Unsupported("sum_point_update: not recorded sums")
        (cn, nn, stn), (co, no, sto) = en[0], eo[0]
        if not ctx.entails(z3.And(nn == no, idx >= 0, idx < nn)):
            return False

        def body():
            i = ctx.const("isum", z3.IntSort())
            ctx.assume(z3.And(i >= 0, i < nn, i != idx))
            return ctx.entails(zreal(stn.fn(i)) == zreal(sto.fn(i)))
        ok = self.forall_paths(body)
        if ok:
            ctx.assume(cn - co == zreal(stn.at(idx)) - zreal(sto.at(idx)))
        return ok

    def stacked_equal(self, a, b):
        """extensionality of batched values: if a and b have the same length and equal elements at every index (PROVED,
        scoped), record that their opaque injections are equal (so any function of the whole vector agrees)"""
        ctx = self.ctx
        na = z3.IntVal(a.n) if isinstance(a.n, int) else a.n
        nb = z3.IntVal(b.n) if isinstance(b.n, int) else b.n
        if not ctx.entails(na == nb):
            return False

        def body():
            i = ctx.const("iext", z3.IntSort())
            ctx.assume(z3.And(i >= 0, i < na))
            e = self.veq(a.fn(i), b.fn(i))
            return ctx.entails(e if not isinstance(e, bool) else z3.BoolVal(e))
        ok = self.forall_paths(body)
        if ok:
            ctx.assume(self.to_u(a) == self.to_u(b))
        return ok

    def sum_facts(self):
        """automatic pairwise extensionality between recorded sums of provably equal length"""
        ctx = self.ctx
        done = getattr(ctx, "_sum_pairs", None)
        if done is None:
            done = ctx._sum_pairs = set()
        ss = list(ctx.sums)
        for a in range(len(ss)):
            for b in range(a + 1, len(ss)):
                key = (ss[a][0].get_id(), ss[b][0].get_id())
                if key in done:
                    continue
                try:
                    if self.sum_linear([(1, SReal(ss[a][0])), (-1, SReal(ss[b][0]))]):
                        done.add(key)       # failures are retried later (more lemmas / invariants may be available)
                except Unsupported:
                    done.add(key)
        return ()
