"""Symbolic executor, part 4: structural pattern matching (PEP 634) with Python's semantics."""
from __future__ import annotations

import ast

import z3

from .values import (Builtin, ClassRef, ExtRef, Obj, PyRaise, SBool, SInt, SReal, TupleT, U, UVal, Unsupported)


class MatchMixin:
    def exec_match(self, st, env):
        subject = self.eval(st.subject, env)
        for case in st.cases:
            binds = {}
            if self.match_pattern(case.pattern, subject, binds, env):
                saved = {k: env.vars.get(k, _NOVAL) for k in binds}
                env.vars.update(binds)
                if case.guard is not None and not self.truth(self.eval(case.guard, env), tag=f"guard@{case.guard.lineno}"):
                    # CPython keeps the bindings of a failed guard; harmless either way
                    continue
                self.exec_block(case.body, env)
                return
        return

    def match_pattern(self, p, v, binds, env):
        if isinstance(p, ast.MatchAs):
            if p.pattern is not None and not self.match_pattern(p.pattern, v, binds, env):
                return False
            if p.name is not None:
                binds[p.name] = v
            return True
        if isinstance(p, ast.MatchSingleton):
            return self.truth(self.is_(v, p.value), tag=f"match-is-{p.value}")
        if isinstance(p, ast.MatchValue):
            c = self.eval(p.value, env)
            return self.truth(self.py_eq(v, c), tag="match-value")
        if isinstance(p, ast.MatchOr):
            for alt in p.patterns:
                b2 = {}
                if self.match_pattern(alt, v, b2, env):
                    binds.update(b2)
                    return True
            return False
        if isinstance(p, ast.MatchSequence):
            return self.match_sequence(p, v, binds, env)
        if isinstance(p, ast.MatchClass):
            return self.match_class(p, v, binds, env)
        if isinstance(p, ast.MatchMapping):
            raise Unsupported("mapping pattern")
        if isinstance(p, ast.MatchStar):
            raise Unsupported("star pattern outside sequence")
        raise Unsupported(f"pattern {type(p).__name__}")

    def match_sequence(self, p, v, binds, env):
        pats = p.patterns
        star = [i for i, q in enumerate(pats) if isinstance(q, ast.MatchStar)]
        if isinstance(v, (str, dict)):
            return False
        if isinstance(v, (tuple, list)):
            items = list(v)
        elif isinstance(v, TupleT):
            if star or len(pats) > len(v.head):
                raise Unsupported("sequence pattern against tuple with opaque tail")
            if not self.truth(SBool(self.ulen(v.tail) == 0, True)):
                return False
            items = list(v.head)
        elif isinstance(v, UVal):
            isseq = self.isinstance_(v, Builtin("tuple"))
            if not self.truth(isseq, tag="match-seq"):
                return False
            if star:
                raise Unsupported("star sequence pattern against opaque value")
            n = len(pats)
            if not self.truth(SBool(self.ulen(v.t) == n, True), tag="match-seq-len"):
                return False
            items = self.unpack(v, n)
        else:
            return False
        if star:
            k = star[0]
            nafter = len(pats) - k - 1
            if len(items) < len(pats) - 1:
                return False
            for q, x in zip(pats[:k], items[:k]):
                if not self.match_pattern(q, x, binds, env):
                    return False
            if pats[k].name is not None:
                binds[pats[k].name] = items[k: len(items) - nafter]
            for q, x in zip(pats[k + 1:], items[len(items) - nafter:]):
                if not self.match_pattern(q, x, binds, env):
                    return False
            return True
        if len(items) != len(pats):
            return False
        for q, x in zip(pats, items):
            if not self.match_pattern(q, x, binds, env):
                return False
        return True

    def match_class(self, p, v, binds, env):
        c = self.eval(p.cls, env)
        r = self.isinstance_(v, c)
        if not self.truth(r, tag=f"match-class-{ast.unparse(p.cls)}"):
            return False
        if isinstance(v, UVal) and isinstance(c, ClassRef):
            v = self.view_as(v, c.ci)
        if p.patterns:
            if isinstance(c, ClassRef):
                ci = c.ci
                if not ci.dc_kwargs.get("match_args") and not ci.std_dataclass:
                    # Pytree.dataclass passes match_args through to dataclasses (default True there, but
                    # penzai's wrapper defaults to match_args=True only when asked); be faithful:
                    pass
                names = [f.name for f, _ in self.all_fields(ci)]
                if len(p.patterns) > len(names):
                    raise PyRaise("TypeError", (f"{ci.name}() accepts {len(names)} positional sub-patterns",))
                for q, n in zip(p.patterns, names):
                    if not self.match_pattern(q, self.getattr(v, n), binds, env):
                        return False
            else:
                if len(p.patterns) == 1 and isinstance(c, Builtin) and c.name in ("bool", "int", "float", "str", "tuple", "list", "dict"):
                    if not self.match_pattern(p.patterns[0], v, binds, env):
                        return False
                else:
                    raise Unsupported("positional class pattern on external class")
        for name, q in zip(p.kwd_attrs, p.kwd_patterns):
            if not self.match_pattern(q, self.getattr(v, name), binds, env):
                return False
        return True

    # ------------------------------------------------------------------ opaque value viewed as a dataclass
    def view_as(self, v: UVal, ci):
        """after `isinstance(v, C)` was decided true: destructure the opaque value into an Obj of class C whose
        fields are projections; records v == mk_C(fields) so that re-injection is the identity"""
        key = v.t.get_id()
        view = self.ctx.views.get(key)
        if view is not None:
            return view
        target = ci
        # abstract classes with subclasses are not destructured
        if not ci.is_dataclass:
            return v
        fields = {}
        from .interp_call import ANN_KINDS
        for f, owner in self.all_fields(ci):
            ann = ast.unparse(f.annotation) if f.annotation is not None else ""
            kind = None
            for sub, k in ANN_KINDS:
                if sub in ann:
                    kind = k
                    break
            base = f"{ci.name}.{f.name}"
            if kind == "flag":
                t = self.ctx.fn(base, U, z3.BoolSort())(v.t)
                cn = self.ctx.fn(base + "#conc", U, z3.BoolSort())(v.t)
                fields[f.name] = SBool(t, cn)
            elif kind == "real":
                fields[f.name] = SReal(self.ctx.fn(base, U, z3.RealSort())(v.t))
            elif kind == "int":
                t = self.ctx.fn(base, U, z3.IntSort())(v.t)
                cn = self.ctx.fn(base + "#conc", U, z3.BoolSort())(v.t)
                fields[f.name] = SInt(t, cn)
            else:
                fields[f.name] = UVal(self.ctx.fn(base, U, U)(v.t), kind)
        o = Obj(target, fields)
        self.ctx.views[key] = o
        h = getattr(self, "view_hook", None)
        if h is not None:
            h(self, v, o)
        try:
            self.ctx.assume(v.t == self.to_u(o))
        except Unsupported:
            pass
        return o


_NOVAL = object()
