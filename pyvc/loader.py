"""Repository loader: parses the REAL sources under $VERIF_REPO/src on every run and builds
module / class / function tables for the symbolic executor.  Nothing is cached across runs;
the sha256 of every file that is read goes into the evidence."""
from __future__ import annotations

import ast
import hashlib
import os
from dataclasses import dataclass, field
from typing import Any, Optional

REPO = os.environ.get("VERIF_REPO", "/repo")
SRC = os.path.join(REPO, "src")


@dataclass
class FieldInfo:
    name: str
    static: bool = False
    default: Optional[ast.expr] = None           # default expression (evaluated in module scope)
    default_factory: Optional[ast.expr] = None
    has_default: bool = False
    annotation: Optional[ast.expr] = None


@dataclass
class ClassInfo:
    name: str
    module: "ModuleInfo"
    node: ast.ClassDef
    bases: list = field(default_factory=list)     # ast exprs
    methods: dict = field(default_factory=dict)   # name -> ast.FunctionDef (last non-overload def)
    class_attrs: dict = field(default_factory=dict)  # name -> ast.expr
    own_fields: list = field(default_factory=list)
    is_dataclass: bool = False
    dc_kwargs: dict = field(default_factory=dict)  # match_args, init ...
    std_dataclass: bool = False

    @property
    def qualname(self) -> str:
        return f"{self.module.name}:{self.name}"

    def __repr__(self):
        return f"<class {self.qualname}>"

    def __hash__(self):
        return hash(self.qualname)

    def __eq__(self, other):
        return isinstance(other, ClassInfo) and other.qualname == self.qualname


@dataclass
class ModuleInfo:
    name: str
    path: str
    tree: ast.Module
    source: str
    sha256: str
    bindings: dict = field(default_factory=dict)  # name -> (kind, payload)
    is_pkg: bool = False

    def __repr__(self):
        return f"<module {self.name}>"


def _dec_name(d: ast.expr) -> str:
    if isinstance(d, ast.Call):
        d = d.func
    try:
        return ast.unparse(d)
    except Exception:
        return ""


class Repo:
    def __init__(self, src: str = None):
        self.src = src or os.path.join(os.environ.get("VERIF_REPO", "/repo"), "src")
        self.modules: dict[str, ModuleInfo] = {}
        self.files_read: dict[str, str] = {}

    # ------------------------------------------------------------------ modules
    def module_path(self, name: str):
        rel = name.replace(".", "/")
        p1 = os.path.join(self.src, rel + ".py")
        p2 = os.path.join(self.src, rel, "__init__.py")
        if os.path.isfile(p1):
            return p1, False
        if os.path.isfile(p2):
            return p2, True
        return None, False

    def has_module(self, name: str) -> bool:
        return name in self.modules or self.module_path(name)[0] is not None

    def get_module(self, name: str) -> ModuleInfo:
        if name in self.modules:
            return self.modules[name]
        path, is_pkg = self.module_path(name)
        if path is None:
            raise KeyError(name)
        source = open(path).read()
        sha = hashlib.sha256(source.encode()).hexdigest()
        self.files_read[os.path.relpath(path, os.path.dirname(self.src))] = sha
        tree = ast.parse(source, filename=path)
        m = ModuleInfo(name, path, tree, source, sha, is_pkg=is_pkg)
        self.modules[name] = m
        self._scan(m, tree.body)
        return m

    def _scan(self, m: ModuleInfo, body):
        for st in body:
            if isinstance(st, (ast.FunctionDef, ast.AsyncFunctionDef)):
                if any(_dec_name(d).endswith("overload") for d in st.decorator_list):
                    continue
                m.bindings[st.name] = ("def", st)
            elif isinstance(st, ast.ClassDef):
                m.bindings[st.name] = ("class", self._class(m, st))
            elif isinstance(st, ast.Import):
                for a in st.names:
                    if a.asname:
                        m.bindings[a.asname] = ("import", a.name)
                    else:
                        top = a.name.split(".")[0]
                        m.bindings[top] = ("import", top)
            elif isinstance(st, ast.ImportFrom):
                mod = st.module or ""
                if st.level:
                    base = m.name.split(".")
                    if not m.is_pkg:
                        base = base[:-1]
                    base = base[: len(base) - (st.level - 1)]
                    mod = ".".join(base + ([mod] if mod else []))
                for a in st.names:
                    if a.name == "*":
                        m.bindings.setdefault("*", ("stars", []))[1].append(mod)
                        continue
                    m.bindings[a.asname or a.name] = ("from", mod, a.name)
            elif isinstance(st, ast.Assign):
                for t in st.targets:
                    if isinstance(t, ast.Name):
                        m.bindings[t.id] = ("assign", st.value)
                    elif isinstance(t, ast.Tuple):
                        for i, e in enumerate(t.elts):
                            if isinstance(e, ast.Name):
                                m.bindings[e.id] = ("assign_idx", st.value, i)
            elif isinstance(st, ast.AnnAssign):
                if isinstance(st.target, ast.Name) and st.value is not None:
                    m.bindings[st.target.id] = ("assign", st.value)
            elif isinstance(st, ast.If):
                t = ast.unparse(st.test)
                if "TYPE_CHECKING" in t:
                    continue
                self._scan(m, st.body)
                # do not override with else-branch bindings
                saved = dict(m.bindings)
                self._scan(m, st.orelse)
                for k, v in saved.items():
                    m.bindings[k] = v
            elif isinstance(st, ast.Try):
                self._scan(m, st.body)

    def _class(self, m: ModuleInfo, node: ast.ClassDef) -> ClassInfo:
        ci = ClassInfo(node.name, m, node, bases=list(node.bases))
        for d in node.decorator_list:
            dn = _dec_name(d)
            if dn in ("Pytree.dataclass", "dataclass", "dataclasses.dataclass"):
                ci.is_dataclass = True
                ci.std_dataclass = dn != "Pytree.dataclass"
                if isinstance(d, ast.Call):
                    for kw in d.keywords:
                        try:
                            ci.dc_kwargs[kw.arg] = ast.literal_eval(kw.value)
                        except Exception:
                            ci.dc_kwargs[kw.arg] = None
        for st in node.body:
            if isinstance(st, (ast.FunctionDef, ast.AsyncFunctionDef)):
                if any(_dec_name(d).endswith("overload") for d in st.decorator_list):
                    continue
                ci.methods[st.name] = st
            elif isinstance(st, ast.AnnAssign) and isinstance(st.target, ast.Name):
                ann = ast.unparse(st.annotation)
                if ci.is_dataclass and not ann.startswith("Final") and not ann.startswith("ClassVar"):
                    fi = FieldInfo(st.target.id, annotation=st.annotation)
                    v = st.value
                    if v is not None:
                        fi.has_default = True
                        if isinstance(v, ast.Call) and _dec_name(v) in ("Pytree.static", "Pytree.field", "field"):
                            fi.static = _dec_name(v) == "Pytree.static"
                            fi.has_default = False
                            for kw in v.keywords:
                                if kw.arg == "default":
                                    fi.default = kw.value
                                    fi.has_default = True
                                elif kw.arg == "default_factory":
                                    fi.default_factory = kw.value
                                    fi.has_default = True
                                elif kw.arg == "metadata":
                                    try:
                                        md = ast.literal_eval(kw.value)
                                        if md.get("pytree_node") is False:
                                            fi.static = True
                                    except Exception:
                                        pass
                        else:
                            fi.default = v
                    ci.own_fields.append(fi)
                elif st.value is not None:
                    ci.class_attrs[st.target.id] = st.value
            elif isinstance(st, ast.Assign):
                for t in st.targets:
                    if isinstance(t, ast.Name):
                        ci.class_attrs[t.id] = st.value
        return ci

    # ------------------------------------------------------------------ lookup helpers
    def resolve_qual(self, qual: str):
        """'pkg.mod:Class.method' | 'pkg.mod:func' | 'pkg.mod:Class' -> (ModuleInfo, ClassInfo|None, FunctionDef|None)"""
        mod, _, rest = qual.partition(":")
        m = self.get_module(mod)
        parts = rest.split(".")
        b = m.bindings.get(parts[0])
        if b is None:
            raise KeyError(qual)
        if b[0] == "class":
            ci = b[1]
            if len(parts) == 1:
                return m, ci, None
            fn = ci.methods.get(parts[1])
            if fn is None:
                raise KeyError(qual)
            return m, ci, fn
        if b[0] == "def":
            fn = b[1]
            for p in parts[1:]:
                nxt = None
                for st in ast.walk(fn):
                    if isinstance(st, ast.FunctionDef) and st.name == p and st is not fn:
                        nxt = st
                        break
                if nxt is None:
                    raise KeyError(qual)
                fn = nxt
            return m, None, fn
        raise KeyError(qual)

    def func_source_sha(self, m: ModuleInfo, fn: ast.AST) -> dict:
        seg = ast.get_source_segment(m.source, fn) or ""
        return {
            "file": os.path.relpath(m.path, os.path.dirname(self.src)),
            "lines": [fn.lineno, fn.end_lineno],
            "sha256": hashlib.sha256(seg.encode()).hexdigest(),
        }
