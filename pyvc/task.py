"""Proof tasks: a task is a Python function `t(E)` that builds symbolic inputs, runs REAL repository code through the
symbolic executor and states named obligations.  The explorer runs it once per feasible path."""
from __future__ import annotations

import time
import traceback

import z3

from .ctx import Ctx, Obligation
from .interp import Interp
from .loader import Repo
from .values import (Infeasible, Obj, PyRaise, SBool, SInt, SReal, TupleT, U, UVal, Unsupported)

TASKS = {}


class TaskDef:
    def __init__(self, name, fn, props, functions, doc, kind="proof"):
        self.name, self.fn, self.props, self.functions, self.doc, self.kind = name, fn, props, functions, doc, kind


def task(name, props, functions=(), kind="proof"):
    def deco(fn):
        TASKS[name] = TaskDef(name, fn, list(props), list(functions), fn.__doc__ or "", kind)
        return fn
    return deco


class ContractAbort(Exception):
    pass


class E:
    """what a task sees"""

    def __init__(self, interp: Interp, tdef: TaskDef):
        self.I, self.ctx, self.tdef = interp, interp.ctx, tdef
        self.z3 = z3

    # ---- symbolic inputs
    def flag(self, name, conc=None):
        t = self.ctx.const(name, z3.BoolSort())
        c = self.ctx.const(name + "#conc", z3.BoolSort()) if conc is None else conc
        return SBool(t, c)

    def real(self, name):
        return SReal(self.ctx.const(name, z3.RealSort()))

    def int(self, name, conc=None):
        t = self.ctx.const(name, z3.IntSort())
        c = self.ctx.const(name + "#conc", z3.BoolSort()) if conc is None else conc
        return SInt(t, c)

    def opaque(self, name, cls=None):
        return UVal(self.ctx.const(name, U), cls)

    def tuple_with_tail(self, head, name):
        return TupleT(tuple(head), self.ctx.const(name, U))

    def new(self, qual, **fields):
        _, ci, _ = self.I.repo.resolve_qual(qual)
        return Obj(ci, fields)

    def cls(self, qual):
        return self.I.qual(qual)

    # ---- running real code
    def call(self, qual, *args, **kwargs):
        f = self.I.qual(qual)
        return self.I.call(f, list(args), kwargs)

    def method(self, obj, name, *args, **kwargs):
        return self.I.call_method(obj, name, list(args), kwargs)

    def require(self, name, cond, also=(), **info):
        """a structural fact about what the real code did (a Python bool): recorded as an obligation; when it is false the
        rest of the contract cannot be stated on this path, which ends (as a refuted obligation, not as a checker crash)"""
        self.prove(name, bool(cond), also=also, **({} if cond else info))
        if not cond:
            raise ContractAbort(name)

    def loop_body(self, qual, local_vars, ordinal=0):
        """executes ONE iteration of the `ordinal`-th `for` loop (source order) of the real function `qual`, from the given
        local variables (which must include the loop target); returns the local variables afterwards.  This is the
        inductive step of a loop contract: a Python `for` over a sequence is the left fold of its body."""
        import ast
        from .interp import Env
        from .values import FuncVal, BoundMethod
        fv = self.I.qual(qual)
        if isinstance(fv, BoundMethod):
            fv = fv.func
        assert isinstance(fv, FuncVal), f"{qual} is not a function"
        loops = sorted((n for n in ast.walk(fv.node) if isinstance(n, (ast.For, ast.While))),
                       key=lambda n: (n.lineno, n.col_offset))
        node = loops[ordinal]
        env = Env(dict(local_vars), parent=fv.env, owner=fv.owner)
        self.I.exec_block(node.body, env)
        return env.vars, node

    def attempt(self, thunk):
        """('ok', value) | ('raise', PyRaise)"""
        try:
            return "ok", thunk()
        except PyRaise as e:
            return "raise", e

    # ---- logic
    def z(self, c):
        if isinstance(c, bool):
            return z3.BoolVal(c)
        if isinstance(c, SBool):
            return c.t
        return c

    def assume(self, c):
        # every assumption a contract makes is listed in the evidence with its source line (mechanical scan: preconditions on
        # the symbolic inputs, representation invariants of input traces, and explicitly named LEMMA INSTANCES)
        try:
            import linecache
            import sys as _sys
            fr = _sys._getframe(1)
            fn = fr.f_code.co_filename
            if "/contracts/" in fn:
                src = linecache.getline(fn, fr.f_lineno).strip()
                self.ctx.notes.append(f"contract assumption {fn.split('/contracts/')[-1]}:{fr.f_lineno}: {src[:160]}")
        except Exception:
            pass
        self.ctx.assume(self.z(c))

    def eq(self, a, b):
        r = self.I.veq(a, b, obs=True)
        return self.z(r)

    def prove(self, name, goal, also=(), **info):
        """`also`: further property ids the same obligation decides (recorded under `<id>.<rest of name>` as well)"""
        g = self.z(goal)
        facts = self.I.sum_facts() if hasattr(self.I, "sum_facts") else ()
        ob = self.ctx.oblige(name, g, info=info, extra_facts=facts)
        for p in also:
            assert p in self.tdef.props, f"task {self.tdef.name} does not serve {p}"
            self.ctx.oblige(p + name[name.index("."):], g, info=dict(info), extra_facts=facts)
        return ob

    def prove_eq(self, name, a, b, **info):
        return self.prove(name, self.eq(a, b), **info)

    def refutable(self, name, goal):
        """canary: `goal` must NOT be provable (guards against contradictory assumptions / an unsound engine)"""
        ob = self.ctx.oblige("canary:" + name, self.z(goal))
        ob.info["canary"] = True
        return ob

    def cover(self, name):
        self.ctx.cover(name)

    def And(self, *xs):
        return z3.And(*[self.z(x) for x in xs])

    def Or(self, *xs):
        return z3.Or(*[self.z(x) for x in xs])

    def Not(self, x):
        return z3.Not(self.z(x))

    def Implies(self, a, b):
        return z3.Implies(self.z(a), self.z(b))


class TaskResult:
    def __init__(self, name):
        self.name = name
        self.paths = 0
        self.infeasible = 0
        self.obligations = []     # Obligation (all paths)
        self.undecided = []       # (reason, path)
        self.raised = []          # (PyRaise str, path, model)
        self.covers = {}
        self.notes = set()
        self.secs = 0.0
        self.crash = None


def run_task(tdef: TaskDef, repo: Repo, theory_factory, max_paths=4000, timeout_ms=None, seed=0) -> TaskResult:
    res = TaskResult(tdef.name)
    t0 = time.time()
    pending = [[]]
    while pending:
        dec = pending.pop()
        if res.paths >= max_paths:
            res.undecided.append((f"path budget {max_paths} exceeded", dec))
            break
        ctx = Ctx(dec, timeout_ms=timeout_ms, seed=seed)
        try:
            interp = Interp(repo, ctx, theory_factory() if theory_factory else None)
            env = E(interp, tdef)
            tdef.fn(env)
            res.paths += 1
        except Infeasible:
            res.infeasible += 1
        except ContractAbort:
            res.paths += 1          # a required shape of the result was refuted (obligation recorded); the path ends here
        except Unsupported as e:
            res.paths += 1
            res.undecided.append((f"unsupported: {e}", list(ctx.decisions[: ctx.pos])))
        except PyRaise as e:
            res.paths += 1
            model = None
            if ctx.solver.check() == z3.sat:
                model = ctx._model_json(ctx.solver.model())
                ob = Obligation(f"{tdef.props[0]}.{tdef.name}.no_raise", "refuted", "z3-5.1(py)", 0.0, model=model,
                                info={"raised": str(e), "branches": [f"{t}={d}" for t, d in ctx.trace][-12:]},
                                path=list(ctx.decisions[: ctx.pos]))
                ctx.obligations.append(ob)
            else:
                res.infeasible += 1
        except RecursionError:
            res.paths += 1
            res.undecided.append(("recursion limit", list(ctx.decisions[: ctx.pos])))
        except Exception:
            res.crash = traceback.format_exc()
            break
        pending.extend(ctx.pending)
        res.obligations.extend(ctx.obligations)
        for k, v in ctx.covers.items():
            res.covers[k] = res.covers.get(k, False) or v
        res.notes.update(ctx.notes)
    res.secs = time.time() - t0
    return res
