"""Symbolic executor over the Python AST of the real repository sources (part 1: core)."""
from __future__ import annotations

import ast

import z3

from .ctx import Ctx
from .loader import ClassInfo, Repo
from .values import (Builtin, BoundMethod, ClassRef, ExtRef, FuncVal, Infeasible, ModuleRef, NativeFn, Obj,
                     PyRaise, SBool, SInt, SReal, Stacked, StarOpaque, SuperRef, TupleT, U, UVal, Unsupported)

_MISSING = object()


class ReturnEx(Exception):
    def __init__(self, v):
        self.v = v


class BreakEx(Exception):
    pass


class ContinueEx(Exception):
    pass


class Env:
    __slots__ = ("vars", "parent", "module", "owner")

    def __init__(self, vars=None, parent=None, module=None, owner=None):
        self.vars = vars if vars is not None else {}
        self.parent, self.module = parent, (module if module is not None else (parent.module if parent else None))
        self.owner = owner if owner is not None else (parent.owner if parent else None)

    def child(self, vars=None):
        return Env(vars or {}, self)

    def lookup(self, name):
        e = self
        while e is not None:
            if name in e.vars:
                return e.vars[name]
            e = e.parent
        return _MISSING


IDENTITY_DECORATORS = {"abstractmethod", "abc.abstractmethod", "nobeartype", "typing.no_type_check", "lu.cache",
                       "dataclass_transform", "override"}

from .interp_ops import OpsMixin      # noqa: E402
from .interp_call import CallMixin    # noqa: E402
from .interp_match import MatchMixin  # noqa: E402
from .sums import SumsMixin          # noqa: E402


class Interp(OpsMixin, CallMixin, MatchMixin, SumsMixin):
    def __init__(self, repo: Repo, ctx: Ctx, theory=None):
        self.repo, self.ctx = repo, ctx
        self.theory = theory
        self.module_cache = {}     # (module, name) -> value
        self.mro_cache = {}
        self.depth = 0
        self.overrides = {}        # qualname -> NativeFn-like callable(interp, *args, **kw)
        self.ext = {}              # external dotted path -> callable(interp, *args, **kw)
        self.ext_attr = {}         # hooks
        self.abstract_methods = {} # (abstract cls name, method) -> callable(interp, self, *args, **kw)
        self.abstract_attrs = {}
        self.steps = 0
        if theory is not None:
            theory.install(self)

    # ------------------------------------------------------------------ modules / names
    def module_env(self, m):
        return Env({}, None, module=m)

    def module_get(self, m, name):
        key = (m.name, name)
        if key in self.module_cache:
            return self.module_cache[key]
        b = m.bindings.get(name)
        if b is None:
            stars = m.bindings.get("*")
            if stars is not None and name != "*":
                for mod in stars[1]:
                    if self.repo.has_module(mod):
                        v = self.module_get(self.repo.get_module(mod), name)
                        if v is not _MISSING:
                            self.module_cache[key] = v
                            return v
            return _MISSING
        kind = b[0]
        if kind == "def":
            v = self.make_function(b[1], self.module_env(m), m, name)
        elif kind == "class":
            v = ClassRef(b[1])
        elif kind == "import":
            v = self.import_module(b[1])
        elif kind == "from":
            v = self.import_from(b[1], b[2])
        elif kind == "assign":
            self.module_cache[key] = UVal(None, "recursive-module-binding")
            v = self.eval(b[1], self.module_env(m))
        elif kind == "assign_idx":
            v = self.getitem(self.eval(b[1], self.module_env(m)), b[2])
        else:
            raise Unsupported(f"binding {kind}")
        self.module_cache[key] = v
        return v

    def import_module(self, name):
        if self.repo.has_module(name):
            return ModuleRef(name)
        return ExtRef(name)

    def import_from(self, mod, name):
        if self.repo.has_module(mod):
            m = self.repo.get_module(mod)
            v = self.module_get(m, name)
            if v is not _MISSING:
                return v
            sub = f"{mod}.{name}"
            if self.repo.has_module(sub):
                return ModuleRef(sub)
            raise Unsupported(f"cannot import {name} from {mod}")
        return ExtRef(f"{mod}.{name}")

    def lookup(self, name, env):
        v = env.lookup(name)
        if v is not _MISSING:
            return v
        if env.module is not None:
            v = self.module_get(env.module, name)
            if v is not _MISSING:
                return v
        if name in self.BUILTINS:
            return Builtin(name)
        raise PyRaise("NameError", (name,), where=f"{env.module}")

    def qual(self, q):
        """value of 'pkg.mod:Name' (function, class) or 'pkg.mod:Class.method' (unbound FuncVal)"""
        mod, _, rest = q.partition(":")
        m = self.repo.get_module(mod)
        parts = rest.split(".")
        v = self.module_get(m, parts[0])
        if v is _MISSING:
            raise KeyError(q)
        for p in parts[1:]:
            v = self.getattr(v, p)
        return v

    # ------------------------------------------------------------------ functions
    def make_function(self, node, env, module, name, owner=None):
        a = node.args
        defaults = [self.eval(d, env) for d in a.defaults] if env.parent is not None or env.vars else None
        kwdefaults = None
        fv = FuncVal(node, env, module, name, owner=owner, defaults=defaults, kwdefaults=kwdefaults)
        return fv

    def func_defaults(self, fv):
        if fv.defaults is None:
            a = fv.node.args
            fv.defaults = [self.eval(d, fv.env) for d in a.defaults]
        if fv.kwdefaults is None:
            a = fv.node.args
            fv.kwdefaults = {k.arg: self.eval(d, fv.env) for k, d in zip(a.kwonlyargs, a.kw_defaults) if d is not None}
        return fv.defaults, fv.kwdefaults

    def def_function(self, node, env):
        fv = self.make_function(node, env, env.module, node.name, owner=env.owner)
        self.func_defaults(fv)
        v = fv
        for d in reversed(node.decorator_list):
            dn = ast.unparse(d.func if isinstance(d, ast.Call) else d)
            if dn in IDENTITY_DECORATORS or dn.endswith("overload"):
                continue
            if dn in ("functools.wraps", "wraps", "deprecated"):
                continue
            dec = self.eval(d, env)
            v = self.call(dec, [v], {})
        return v

    # ------------------------------------------------------------------ statements
    def exec_block(self, stmts, env):
        for st in stmts:
            self.exec_stmt(st, env)

    def exec_stmt(self, st, env):
        self.steps += 1
        if self.steps > 400000:
            raise Unsupported("step budget exceeded")
        m = getattr(self, "st_" + type(st).__name__, None)
        if m is None:
            raise Unsupported(f"statement {type(st).__name__} at line {st.lineno}")
        return m(st, env)

    def st_Expr(self, st, env):
        if isinstance(st.value, ast.Constant):
            return
        self.eval(st.value, env)

    def st_Pass(self, st, env):
        pass

    def st_Return(self, st, env):
        raise ReturnEx(self.eval(st.value, env) if st.value is not None else None)

    def st_Assign(self, st, env):
        v = self.eval(st.value, env)
        for t in st.targets:
            self.assign(t, v, env)

    def st_AnnAssign(self, st, env):
        if st.value is not None:
            self.assign(st.target, self.eval(st.value, env), env)

    def st_AugAssign(self, st, env):
        cur = self.eval(_load(st.target), env)
        v = self.binop(type(st.op).__name__, cur, self.eval(st.value, env), inplace=True)
        self.assign(st.target, v, env)

    def st_FunctionDef(self, st, env):
        env.vars[st.name] = self.def_function(st, env)

    def st_If(self, st, env):
        if self.truth(self.eval(st.test, env), tag=f"if@{st.lineno}"):
            self.exec_block(st.body, env)
        else:
            self.exec_block(st.orelse, env)

    def st_Assert(self, st, env):
        ok = self.truth(self.eval(st.test, env), tag=f"assert@{st.lineno}")
        if not ok:
            raise PyRaise("AssertionError", (), where=f"{env.module}:{st.lineno}")

    def st_Raise(self, st, env):
        if st.exc is None:
            raise Unsupported("bare raise")
        if isinstance(st.exc, ast.Name) and st.exc.id in self.EXC_NAMES:
            raise PyRaise(st.exc.id, (), where=f"{env.module}:{st.lineno}")
        if isinstance(st.exc, ast.Call) and isinstance(st.exc.func, ast.Name) and st.exc.func.id in self.EXC_NAMES:
            # message arguments (f-strings) are not evaluated
            raise PyRaise(st.exc.func.id, (), where=f"{env.module}:{st.lineno}")
        v = self.eval(st.exc, env)
        if isinstance(v, ClassRef):
            raise PyRaise(v.ci.name, (), where=f"{env.module}:{st.lineno}")
        if isinstance(v, Obj):
            raise PyRaise(v.cls.name, tuple(v.fields.get("args", ())), obj=v, where=f"{env.module}:{st.lineno}")
        raise Unsupported(f"raise of {v!r}")

    def st_For(self, st, env):
        it = self.eval(st.iter, env)
        for x in self.iterate(it):
            self.assign(st.target, x, env)
            try:
                self.exec_block(st.body, env)
            except BreakEx:
                break
            except ContinueEx:
                continue
        else:
            self.exec_block(st.orelse, env)

    def st_While(self, st, env):
        n = 0
        while self.truth(self.eval(st.test, env), tag=f"while@{st.lineno}"):
            n += 1
            if n > 200:
                raise Unsupported("while loop exceeded 200 concrete iterations (needs invariant)")
            try:
                self.exec_block(st.body, env)
            except BreakEx:
                break
            except ContinueEx:
                continue

    def st_Break(self, st, env):
        raise BreakEx()

    def st_Continue(self, st, env):
        raise ContinueEx()

    def st_With(self, st, env):
        self.exec_block(st.body, env)

    def st_Import(self, st, env):
        for a in st.names:
            if a.asname:
                env.vars[a.asname] = self.import_module(a.name)
            else:
                env.vars[a.name.split(".")[0]] = self.import_module(a.name.split(".")[0])

    def st_ImportFrom(self, st, env):
        for a in st.names:
            env.vars[a.asname or a.name] = self.import_from(st.module, a.name)

    def st_Nonlocal(self, st, env):
        env.vars.setdefault("__nonlocal__", set()).update(st.names)

    def st_Global(self, st, env):
        raise Unsupported("global statement")

    def st_Delete(self, st, env):
        raise Unsupported("del statement")

    def st_Try(self, st, env):
        raise Unsupported("try statement")

    def st_Match(self, st, env):
        return self.exec_match(st, env)

    def st_ClassDef(self, st, env):
        raise Unsupported("nested class definition")

    # ------------------------------------------------------------------ assignment
    def assign(self, target, v, env):
        if isinstance(target, ast.Name):
            nl = env.vars.get("__nonlocal__")
            if nl and target.id in nl:
                e = env.parent
                while e is not None:
                    if target.id in e.vars:
                        e.vars[target.id] = v
                        return
                    e = e.parent
            env.vars[target.id] = v
        elif isinstance(target, (ast.Tuple, ast.List)):
            elts = target.elts
            star = [i for i, e in enumerate(elts) if isinstance(e, ast.Starred)]
            if star:
                k = star[0]
                items = list(self.iterate(v))
                nafter = len(elts) - k - 1
                if len(items) < len(elts) - 1:
                    raise PyRaise("ValueError", ("not enough values to unpack",))
                for e, x in zip(elts[:k], items[:k]):
                    self.assign(e, x, env)
                self.assign(elts[k].value, items[k: len(items) - nafter], env)
                for e, x in zip(elts[k + 1:], items[len(items) - nafter:]):
                    self.assign(e, x, env)
            else:
                items = self.unpack(v, len(elts))
                for e, x in zip(elts, items):
                    self.assign(e, x, env)
        elif isinstance(target, ast.Attribute):
            o = self.eval(target.value, env)
            self.setattr(o, target.attr, v)
        elif isinstance(target, ast.Subscript):
            o = self.eval(target.value, env)
            k = self.eval(target.slice, env)
            self.setitem(o, k, v)
        else:
            raise Unsupported(f"assignment target {type(target).__name__}")

    # ------------------------------------------------------------------ expressions
    def eval(self, node, env):
        m = getattr(self, "ex_" + type(node).__name__, None)
        if m is None:
            raise Unsupported(f"expression {type(node).__name__}")
        return m(node, env)

    def ex_Constant(self, n, env):
        return n.value

    def ex_Name(self, n, env):
        return self.lookup(n.id, env)

    def ex_Tuple(self, n, env):
        out = []
        for e in n.elts:
            if isinstance(e, ast.Starred):
                v = self.eval(e.value, env)
                if isinstance(v, UVal) or isinstance(v, TupleT):
                    # star of an opaque tuple: only allowed in last position
                    if e is not n.elts[-1]:
                        raise Unsupported("star of opaque tuple not in last position")
                    if isinstance(v, TupleT):
                        return TupleT(tuple(out) + v.head, v.tail)
                    return TupleT(tuple(out), v.t) if out else v
                out.extend(self.iterate(v))
            else:
                out.append(self.eval(e, env))
        return tuple(out)

    def ex_List(self, n, env):
        out = []
        for e in n.elts:
            if isinstance(e, ast.Starred):
                out.extend(self.iterate(self.eval(e.value, env)))
            else:
                out.append(self.eval(e, env))
        return out

    def ex_Set(self, n, env):
        return set(self.eval(e, env) for e in n.elts)

    def ex_Dict(self, n, env):
        d = {}
        for k, v in zip(n.keys, n.values):
            if k is None:
                d.update(self.eval(v, env))
            else:
                d[self.hashable(self.eval(k, env))] = self.eval(v, env)
        return d

    def ex_JoinedStr(self, n, env):
        return "<fstring>"

    def ex_Attribute(self, n, env):
        return self.getattr(self.eval(n.value, env), n.attr)

    def ex_Subscript(self, n, env):
        o = self.eval(n.value, env)
        if isinstance(o, (ClassRef, ExtRef)) or (isinstance(o, Builtin) and o.name in ("tuple", "list", "dict", "type", "set")):
            return o            # Generic[...] subscripts are erased
        k = self.eval(n.slice, env)
        return self.getitem(o, k)

    def ex_Slice(self, n, env):
        return slice(self.eval(n.lower, env) if n.lower else None, self.eval(n.upper, env) if n.upper else None,
                     self.eval(n.step, env) if n.step else None)

    def ex_Starred(self, n, env):
        raise Unsupported("starred expression outside call/tuple")

    def ex_BinOp(self, n, env):
        return self.binop(type(n.op).__name__, self.eval(n.left, env), self.eval(n.right, env))

    def ex_UnaryOp(self, n, env):
        return self.unaryop(type(n.op).__name__, self.eval(n.operand, env))

    def ex_BoolOp(self, n, env):
        is_and = isinstance(n.op, ast.And)
        v = None
        for e in n.values:
            v = self.eval(e, env)
            t = self.truth(v, tag=f"boolop@{n.lineno}")
            if is_and and not t:
                return v
            if not is_and and t:
                return v
        return v

    def ex_Compare(self, n, env):
        left = self.eval(n.left, env)
        res = True
        for op, r in zip(n.ops, n.comparators):
            right = self.eval(r, env)
            res = self.compare(type(op).__name__, left, right)
            if len(n.ops) > 1 and not self.truth(res):
                return False
            left = right
        return res

    def ex_IfExp(self, n, env):
        if self.truth(self.eval(n.test, env), tag=f"ifexp@{n.lineno}"):
            return self.eval(n.body, env)
        return self.eval(n.orelse, env)

    def ex_Lambda(self, n, env):
        fv = FuncVal(n, env, env.module, f"<lambda@{n.lineno}:{n.col_offset}>", owner=env.owner)
        self.func_defaults(fv)
        return fv

    def ex_NamedExpr(self, n, env):
        v = self.eval(n.value, env)
        self.assign(n.target, v, env)
        return v

    def ex_Call(self, n, env):
        f = self.eval(n.func, env)
        args, kwargs = [], {}
        for a in n.args:
            if isinstance(a, ast.Starred):
                v = self.eval(a.value, env)
                if isinstance(v, (UVal, TupleT)):
                    args.append(StarOpaque(v))
                else:
                    args.extend(self.iterate(v))
            else:
                args.append(self.eval(a, env))
        for kw in n.keywords:
            if kw.arg is None:
                d = self.eval(kw.value, env)
                if isinstance(d, dict):
                    kwargs.update(d)
                else:
                    kwargs["**opaque"] = d
            else:
                kwargs[kw.arg] = self.eval(kw.value, env)
        # zero-arg super()
        if isinstance(f, Builtin) and f.name == "super" and not args:
            return SuperRef(env.owner, env.lookup("self"))
        return self.call(f, args, kwargs, node=n)

    def _comp(self, gens, env, emit):
        def rec(i, e):
            if i == len(gens):
                emit(e)
                return
            g = gens[i]
            for x in self.iterate(self.eval(g.iter, e)):
                e2 = e.child()
                self.assign(g.target, x, e2)
                if all(self.truth(self.eval(c, e2)) for c in g.ifs):
                    rec(i + 1, e2)
        rec(0, env)

    def _comp_symbolic(self, n, env):
        """single-generator comprehension over a symbolic sequence -> lazily mapped Stacked"""
        if len(n.generators) == 1 and not n.generators[0].ifs:
            it = self.eval(n.generators[0].iter, env)
            if isinstance(it, Stacked):
                g = n.generators[0]

                def elem(i, it=it):
                    e2 = env.child()
                    self.assign(g.target, it.at(i), e2)
                    return self.eval(n.elt, e2)
                return Stacked(it.n, elem, tag="comp"), True
            if type(it).__name__ == "SymMapView" and it.kind == "values" and getattr(self, "map_image", None):
                g = n.generators[0]

                def elem_m(x):
                    e2 = env.child()
                    self.assign(g.target, x, e2)
                    return self.eval(n.elt, e2)
                return self.map_image(it.m, elem_m), True
            return it, False
        return None, False

    def ex_ListComp(self, n, env):
        it, sym = self._comp_symbolic(n, env)
        if sym:
            return it
        out = []
        self._comp(n.generators, env, lambda e: out.append(self.eval(n.elt, e)))
        return out

    def ex_GeneratorExp(self, n, env):
        return self.ex_ListComp(n, env)

    def ex_SetComp(self, n, env):
        return set(self.ex_ListComp(n, env))

    def ex_DictComp(self, n, env):
        d = {}
        self._comp(n.generators, env,
                   lambda e: d.__setitem__(self.hashable(self.eval(n.key, e)), self.eval(n.value, e)))
        return d

    EXC_NAMES = {"Exception", "ValueError", "TypeError", "NotImplementedError", "KeyError", "IndexError",
                 "AssertionError", "RuntimeError", "AttributeError"}


def _load(t):
    import copy
    t2 = copy.copy(t)
    t2.ctx = ast.Load()
    return t2
