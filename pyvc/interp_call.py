"""Symbolic executor, part 3: calls, classes, attributes, builtins."""
from __future__ import annotations

import ast

import z3

from .loader import ClassInfo
from .values import StarOpaque as StarOpaqueT, SuperRef as SuperRefT
from .values import (Builtin, BoundMethod, ClassRef, ExtRef, FuncVal, ModuleRef, NativeFn, Obj, PyRaise, SBool,
                     SInt, SReal, Stacked, SymMap, TupleT, U, UVal, Unsupported)

_MISSING = object()

# annotation substrings -> kind of projection for fields of opaque views
ANN_KINDS = [("ScalarFlag", "flag"), ("Flag", "flag"), ("Score", "real"), ("Weight", "real"), ("FloatArray", "real"),
             ("ChoiceMap", "ChoiceMap"), ("Selection", "Selection"), ("Trace", "Trace"),
             ("GenerativeFunction", "GenerativeFunction"), ("EditRequest", "EditRequest"), ("IntArray", "int")]


class CallMixin:
    # ------------------------------------------------------------------ class machinery
    def class_bases(self, ci: ClassInfo):
        out = []
        env = self.module_env(ci.module)
        for b in ci.bases:
            try:
                v = self.eval(b, env)
            except (PyRaise, Unsupported):
                continue
            if isinstance(v, ClassRef):
                out.append(v.ci)
        return out

    def mro(self, ci: ClassInfo):
        k = ci.qualname
        if k in self.mro_cache:
            return self.mro_cache[k]
        bases = self.class_bases(ci)
        seqs = [list(self.mro(b)) for b in bases] + [list(bases)]
        res = [ci]
        while True:
            seqs = [s for s in seqs if s]
            if not seqs:
                break
            for s in seqs:
                cand = s[0]
                if not any(cand in t[1:] for t in seqs):
                    break
            else:
                raise Unsupported(f"inconsistent MRO for {ci.name}")
            res.append(cand)
            for s in seqs:
                if s[0] == cand:
                    del s[0]
        self.mro_cache[k] = res
        return res

    def is_subclass(self, ci, other):
        return other in self.mro(ci)

    def ext_base_names(self, ci):
        names = []
        for c in self.mro(ci):
            for b in c.bases:
                names.append(ast.unparse(b))
        return names

    def all_fields(self, ci: ClassInfo):
        out, seen = [], set()
        for c in reversed(self.mro(ci)):
            if c.is_dataclass:
                for f in c.own_fields:
                    if f.name in seen:
                        out = [x for x in out if x[0].name != f.name]
                    seen.add(f.name)
                    out.append((f, c))
        return out

    def find_method(self, ci: ClassInfo, name, after=None):
        """(FuncVal unbound) first definition of `name` along the MRO (after class `after` if given)"""
        mro = self.mro(ci)
        if after is not None:
            mro = mro[mro.index(after) + 1:]
        for c in mro:
            dyn = getattr(c, "dyn_methods", None)
            if dyn and name in dyn:
                return dyn[name]
            if name in c.methods:
                key = (c.qualname, name)
                if key not in self.module_cache:
                    env = self.module_env(c.module)
                    env.owner = c
                    self.module_cache[key] = FuncVal(c.methods[name], env, c.module, f"{c.name}.{name}", owner=c)
                return self.module_cache[key]
        return None

    def find_class_attr(self, ci, name):
        for c in self.mro(ci):
            if name in c.class_attrs:
                key = (c.qualname, "attr", name)
                if key not in self.module_cache:
                    self.module_cache[key] = self.eval(c.class_attrs[name], self.module_env(c.module))
                return self.module_cache[key]
        return _MISSING

    @staticmethod
    def decorators(fn_node):
        if not hasattr(fn_node, "decorator_list"):
            return []
        return [ast.unparse(d.func if isinstance(d, ast.Call) else d) for d in fn_node.decorator_list]

    def is_abstract(self, fv):
        return any(d.endswith("abstractmethod") for d in self.decorators(fv.node))

    def has_method(self, o, name):
        if isinstance(o, Obj):
            return self.find_method(o.cls, name) is not None
        if isinstance(o, UVal) and o.cls:
            if (o.cls, name) in self.abstract_methods:
                return True
            ci = self.abstract_class(o.cls)
            if ci is not None:
                m = self.find_method(ci, name)
                return m is not None
        return False

    def abstract_class(self, name):
        t = getattr(self, "abstract_classes", {})
        q = t.get(name)
        if q is None:
            return None
        if isinstance(q, str):
            _, ci, _ = self.repo.resolve_qual(q)
            t[name] = ci
            return ci
        return q

    # ------------------------------------------------------------------ instantiation
    def instantiate(self, ci: ClassInfo, args, kwargs):
        q = ci.qualname
        if q in self.overrides and self.overrides[q] is not None:
            return self.overrides[q](self, *args, **kwargs)
        init = self.find_method(ci, "__init__")
        use_custom = init is not None and (not ci.is_dataclass or ci.dc_kwargs.get("init") is False
                                           or not init.owner.is_dataclass and init.owner is not ci and not ci.is_dataclass)
        # a dataclass subclass regenerates __init__ unless init=False
        if ci.is_dataclass and ci.dc_kwargs.get("init") is not False:
            use_custom = "__init__" in ci.methods      # dataclass() keeps an __init__ defined in the class body
        if any(isinstance(a, StarOpaqueT) for a in args):
            raise Unsupported("opaque star-args to constructor")
        if "Exception" in self.ext_base_names(ci) and init is None:
            return Obj(ci, {"args": tuple(args)})
        if use_custom:
            o = Obj(ci, {})
            self.call_function(init, [o] + list(args), kwargs)
            return o
        if ci.is_dataclass:
            fields = self.all_fields(ci)
            vals = {}
            names = [f.name for f, _ in fields]
            if len(args) > len(names):
                raise PyRaise("TypeError", (f"{ci.name}() takes {len(names)} positional arguments",))
            for n, a in zip(names, args):
                vals[n] = a
            for k, v in kwargs.items():
                if k not in names:
                    raise PyRaise("TypeError", (f"{ci.name}() got unexpected keyword {k}",))
                if k in vals:
                    raise PyRaise("TypeError", (f"{ci.name}() got multiple values for {k}",))
                vals[k] = v
            for f, owner in fields:
                if f.name not in vals:
                    env = self.module_env(owner.module)
                    if f.default_factory is not None:
                        vals[f.name] = self.call(self.eval(f.default_factory, env), [], {})
                    elif f.default is not None or f.has_default:
                        vals[f.name] = self.eval(f.default, env) if f.default is not None else None
                    else:
                        raise PyRaise("TypeError", (f"{ci.name}() missing argument {f.name}",))
            return Obj(ci, vals)
        if args or kwargs:
            raise Unsupported(f"constructor of {ci.name} with arguments but no __init__")
        return Obj(ci, {})

    # ------------------------------------------------------------------ attribute access
    def getattr(self, o, name, default=_MISSING):
        if isinstance(o, Obj):
            if name in o.fields:
                return o.fields[name]
            m = self.find_method(o.cls, name)
            if m is not None:
                decs = self.decorators(m.node)
                if "staticmethod" in decs:
                    return m
                if "property" in decs:
                    return self.call_function(m, [o], {})
                if "classmethod" in decs:
                    return BoundMethod(ClassRef(o.cls), m)
                return BoundMethod(o, m)
            v = self.find_class_attr(o.cls, name)
            if v is not _MISSING:
                return v
            if name == "__class__":
                return ClassRef(o.cls)
            if default is not _MISSING:
                return default
            raise PyRaise("AttributeError", (o.cls.name, name))
        if isinstance(o, ClassRef):
            m = self.find_method(o.ci, name)
            if m is not None:
                decs = self.decorators(m.node)
                if "classmethod" in decs:
                    return BoundMethod(o, m)
                return m
            v = self.find_class_attr(o.ci, name)
            if v is not _MISSING:
                return v
            if name == "__name__":
                return o.ci.name
            if default is not _MISSING:
                return default
            raise PyRaise("AttributeError", (o.ci.name, name))
        if isinstance(o, ModuleRef):
            m = self.repo.get_module(o.name)
            v = self.module_get(m, name)
            if v is not _MISSING:
                return v
            sub = f"{o.name}.{name}"
            if self.repo.has_module(sub):
                return ModuleRef(sub)
            raise PyRaise("AttributeError", (o.name, name))
        if isinstance(o, ExtRef):
            consts = getattr(self, "ext_consts", None)
            if consts and f"{o.path}.{name}" in consts:
                return consts[f"{o.path}.{name}"]
            return ExtRef(f"{o.path}.{name}")
        if isinstance(o, UVal):
            return self.uval_getattr(o, name, default)
        if isinstance(o, SuperRefT):
            m = self.find_method(o.self_.cls if isinstance(o.self_, Obj) else o.owner, name, after=o.owner)
            if m is None:
                if name == "__init__":
                    return NativeFn("object.__init__", lambda interp, *a, **k: None)
                raise PyRaise("AttributeError", ("super", name))
            return BoundMethod(o.self_, m)
        if isinstance(o, FuncVal):
            if name in o.attrs:
                return o.attrs[name]
            if name == "__name__":
                return o.name
            if default is not _MISSING:
                return default
            if name in ("__doc__", "__module__", "__qualname__", "__annotations__"):
                return None
            raise PyRaise("AttributeError", ("function", name))
        if isinstance(o, (SReal, SInt, SBool)):
            if name == "shape":
                if isinstance(o, SReal) and o.vec:
                    return ("?",)
                return ()
            if name == "dtype":
                return ExtRef("dtype." + type(o).__name__)
            if name == "at":
                return AtRef(o)
        if isinstance(o, Stacked):
            if name == "at":
                return AtRef(o)
            if name == "shape":
                return (o.n if isinstance(o.n, int) else SInt(o.n, True),)
            if name in ("T",):
                raise Unsupported("transpose of Stacked")
            if name == "get_submap":
                return NativeFn("batched.get_submap", lambda interp, *a, o=o: interp.call_stacked(o, list(a), {}))
            return Stacked(o.n, lambda i: self.getattr(o.at(i), name), tag="." + name)
        if isinstance(o, SymMap):
            if name == "get":
                def get(interp, k, dflt=None, o=o):
                    kt = interp.to_u(interp.hashable(k))
                    if interp.ctx.branch(z3.Select(o.has, kt), tag="dict.get-has-key"):
                        return interp.symmap_wrap(o, z3.Select(o.val, kt))
                    return dflt
                return NativeFn("symdict.get", get)
            if name in ("keys", "values", "items"):
                return NativeFn("symdict." + name, lambda interp, o=o, name=name: SymMapView(o, name))
            if name == "copy":
                return NativeFn("symdict.copy", lambda interp, o=o: o.copy())
            raise Unsupported(f"symbolic dict method {name}")
        if isinstance(o, dict):
            if name in ("keys", "values", "items", "get", "update", "copy", "pop", "setdefault"):
                return NativeFn("dict." + name, _dict_method(o, name))
        if isinstance(o, list):
            if name in ("append", "extend", "copy", "index", "pop", "insert"):
                return NativeFn("list." + name, _list_method(o, name))
        if isinstance(o, (tuple,)) and name in ("index", "count"):
            return NativeFn("tuple." + name, lambda interp, *a: getattr(o, name)(*a))
        if isinstance(o, str):
            if name in ("isupper", "lower", "upper", "join", "format", "startswith", "endswith", "split", "strip"):
                return NativeFn("str." + name, _str_method(o, name))
        if isinstance(o, (set, frozenset)) and name in ("add", "update", "union"):
            return NativeFn("set." + name, lambda interp, *a: getattr(o, name)(*a))
        if isinstance(o, slice) and name in ("start", "stop", "step"):
            return getattr(o, name)
        if isinstance(o, BoundMethod):
            if name == "__self__":
                return o.self_
            if name == "__func__":
                return o.func
        if isinstance(o, AtRef):
            raise Unsupported("bare .at attribute")
        if isinstance(o, AtIdx):
            if name == "set":
                def at_set(interp, x, o=o):
                    from .interp_ops import zint
                    from theory.externals import ite
                    base, idx = o.base, zint(o.idx)
                    interp.ctx.notes.append("A4: x.at[i].set(v)[j] = v if j == i else x[j]  (negative i counts from the "
                                            "end; an out-of-range update is dropped)")
                    if isinstance(base, Stacked):
                        import z3 as _z3
                        nn = _z3.IntVal(base.n) if isinstance(base.n, int) else base.n
                        idx = _z3.If(idx < 0, idx + nn, idx)
                        return Stacked(base.n, lambda j: ite(interp, j == idx, x, base.at(j)), tag="at-set")
                    raise Unsupported("at[].set on non-batched value")
                return NativeFn("at.set", at_set)
            raise Unsupported(f".at[...].{name}")
        if hasattr(o, "pyvc_getattr"):
            return o.pyvc_getattr(self, name)
        if default is not _MISSING:
            return default
        raise Unsupported(f"getattr {name} on {type(o).__name__}")

    def uval_getattr(self, o, name, default=_MISSING):
        if o.cls == "GenerativeFunction" and (o.cls, name) in self.abstract_methods:
            # modularity: a GFI call on the abstract callee goes through the callee's CONTRACT even on a path where the code
            # under verification has tested its class (isinstance(self.gen_fn, Vmap)): the contract holds for every class
            return BoundMethod(o, NativeFn(f"{o.cls}.{name}", self.abstract_methods[(o.cls, name)]))
        view = self.ctx.views.get(o.t.get_id()) if o.t is not None else None
        if view is None and o.t is not None:
            for ci, pred in self.ctx.narrowed.get(o.t.get_id(), []):
                if ci.is_dataclass and self.ctx.entails(pred):
                    view = self.view_as(o, ci)
                    break
        if view is not None and view is not o:
            return self.getattr(view, name, default)
        if o.cls:
            h = self.abstract_attrs.get((o.cls, name))
            if h is not None:
                return h(self, o)
            if (o.cls, name) in self.abstract_methods:
                return BoundMethod(o, NativeFn(f"{o.cls}.{name}", self.abstract_methods[(o.cls, name)]))
            ci = self.abstract_class(o.cls)
            if ci is not None:
                m = self.find_method(ci, name)
                if m is not None:
                    decs = self.decorators(m.node)
                    if self.is_abstract(m):
                        return BoundMethod(o, NativeFn(f"{o.cls}.{name}", self.default_abstract(o.cls, name)))
                    if "staticmethod" in decs:
                        return m
                    if "property" in decs:
                        return self.call_function(m, [o], {})
                    return BoundMethod(o, m)
                v = self.find_class_attr(ci, name)
                if v is not _MISSING:
                    return v
        if o.cls and self.abstract_class(o.cls) is None and o.cls[:1].isupper() and not name.startswith("__"):
            # instance of an abstract class the theory says nothing about: methods are uninterpreted pure functions
            return BoundMethod(o, NativeFn(f"{o.cls}.{name}", self.default_abstract(o.cls, name)))
        if name == "shape":
            return UVal(self.ctx.fn("shape_of", U, U)(o.t), "shape")
        if name == "at":
            return AtRef(o)
        if name == "dtype":
            return UVal(self.ctx.fn("dtype_of", U, U)(o.t))
        if default is not _MISSING:
            return default
        if o.cls == "extobj" and not name.startswith("__"):
            # method of an external object (e.g. a tfd distribution): uninterpreted pure function of object and arguments
            return BoundMethod(o, NativeFn(f"ext.{name}", self.default_abstract("ext", name)))
        raise Unsupported(f"attribute {name} of opaque value {o!r}")

    def default_abstract(self, cls, name):
        def f(interp, self_, *args, **kwargs):
            fn = interp.ctx.fn(f"{cls}.{name}", *([U] * (1 + len(args) + len(kwargs))), U)
            ts = [interp.to_u(self_)] + [interp.to_u(a) for a in args] + [interp.to_u(kwargs[k]) for k in sorted(kwargs)]
            return UVal(fn(*ts))
        return f

    def setattr(self, o, name, v):
        if isinstance(o, Obj):
            if o.cls.is_dataclass and not o.cls.std_dataclass and not o.cls.dc_kwargs.get("init") is False:
                raise PyRaise("FrozenInstanceError", (name,))
            o.fields[name] = v
            return
        if isinstance(o, FuncVal):
            o.attrs[name] = v
            return
        raise Unsupported(f"setattr on {type(o).__name__}")

    # ------------------------------------------------------------------ isinstance
    def isinstance_(self, v, c):
        if isinstance(v, UVal) and v.t is not None and v.t.get_id() in self.ctx.views:
            v = self.ctx.views[v.t.get_id()]
        if isinstance(c, tuple):
            res = False
            for x in c:
                r = self.isinstance_(v, x)
                if r is True:
                    return True
                if r is not False:
                    res = r if res is False else SBool(z3.Or(res.t, r.t), True)
            return res
        if isinstance(c, ClassRef):
            if isinstance(v, Obj):
                return self.is_subclass(v.cls, c.ci)
            if isinstance(v, UVal):
                view = self.ctx.views.get(v.t.get_id())
                if view is not None:
                    return self.is_subclass(view.cls, c.ci)
                if v.cls:
                    aci = self.abstract_class(v.cls)
                    if aci is not None:
                        if self.is_subclass(aci, c.ci):
                            return True
                        if not self.is_subclass(c.ci, aci):
                            return False
                    elif v.cls in ("tuple", "shape", "key", "array"):
                        return False
                h = getattr(self, "isinstance_hook", None)
                if h is not None:
                    r = h(self, v, c.ci)
                    if r is not None:
                        return r
                f = self.ctx.fn("is_" + c.ci.name, U, z3.BoolSort())
                self.ctx.narrowed.setdefault(v.t.get_id(), []).append((c.ci, f(v.t)))
                return SBool(f(v.t), True)
            return False
        name = c.name if isinstance(c, Builtin) else (c.path.split(".")[-1] if isinstance(c, ExtRef) else None)
        if name is None:
            raise Unsupported(f"isinstance against {c!r}")
        if name == "bool":
            if isinstance(v, bool):
                return True
            if isinstance(v, SBool):
                return SBool(v.conc, True)
            return False
        if name == "int":
            if isinstance(v, int):
                return True
            if isinstance(v, (SBool, SInt)):
                return SBool(v.conc, True)
            return False
        if name == "float":
            return isinstance(v, float)
        if name in ("Array", "ndarray", "Tracer", "ArrayLike"):
            if isinstance(v, SReal):
                return True if name != "Tracer" else SBool(self.ctx.fn("is_tracer_r", z3.RealSort(), z3.BoolSort())(v.t), True)
            if isinstance(v, (SBool, SInt)):
                return SBool(z3.Not(v.conc), True)
            if isinstance(v, Stacked):
                return True
            if isinstance(v, UVal) and v.cls in (None, "array", "key"):
                if v.cls in ("array", "key"):
                    if name == "Tracer":      # an opaque array may be a concrete array (eager call) or a tracer (jit / staging)
                        return SBool(self.ctx.fn("is_tracer_u", U, z3.BoolSort())(v.t), True)
                    return True
                return SBool(self.ctx.fn("is_Array", U, z3.BoolSort())(v.t), True)
            if name == "ArrayLike" and isinstance(v, (bool, int, float)):
                return True
            return False
        if name == "tuple":
            if isinstance(v, UVal) and v.cls == "tuple":
                return True
            if isinstance(v, UVal) and v.cls is None:
                return SBool(self.ctx.fn("is_tuple", U, z3.BoolSort())(v.t), True)
            return isinstance(v, (tuple, TupleT))
        if name == "list":
            return isinstance(v, list)
        if name == "dict":
            return isinstance(v, dict)
        if name == "str":
            return isinstance(v, str)
        if name == "slice":
            return isinstance(v, slice)
        if name == "EllipsisType":
            if isinstance(v, UVal) and v.cls is None:          # value of unknown class: may be the `...` wildcard
                return SBool(v.t == self.to_u(Ellipsis), True)
            return v is Ellipsis
        if name in ("Callable", "callable"):
            return isinstance(v, (FuncVal, BoundMethod, NativeFn, ClassRef, ExtRef, Builtin)) or \
                (isinstance(v, Obj) and self.has_method(v, "__call__"))
        if name == "type":
            return isinstance(v, ClassRef)
        if name == "object":
            return True
        if name in ("Literal", "Var", "DropVar", "Jaxpr", "Primitive"):
            if isinstance(v, UVal):
                return SBool(self.ctx.fn("is_" + name, U, z3.BoolSort())(v.t), True)
            return False
        if isinstance(v, UVal):
            return SBool(self.ctx.fn("is_" + name, U, z3.BoolSort())(v.t), True)
        return False

    # ------------------------------------------------------------------ calls
    def call(self, f, args, kwargs, node=None):
        self.depth += 1
        if self.depth > 150:
            raise Unsupported("call depth exceeded")
        try:
            return self._call(f, args, kwargs, node)
        finally:
            self.depth -= 1

    def _call(self, f, args, kwargs, node=None):
        if isinstance(f, FuncVal):
            return self.call_function(f, args, kwargs)
        if isinstance(f, BoundMethod):
            if isinstance(f.func, NativeFn):
                return f.func.fn(self, f.self_, *args, **kwargs)
            return self.call_function(f.func, [f.self_] + list(args), kwargs)
        if isinstance(f, NativeFn):
            return f.fn(self, *args, **kwargs)
        if isinstance(f, ClassRef):
            return self.instantiate(f.ci, args, kwargs)
        if isinstance(f, Builtin):
            return self.call_builtin(f.name, args, kwargs)
        if isinstance(f, ExtRef):
            return self.call_ext(f.path, args, kwargs)
        if isinstance(f, Obj):
            return self.call_method(f, "__call__", args, kwargs)
        if isinstance(f, UVal):
            if f.cls and self.has_method(f, "__call__"):
                return self.call_method(f, "__call__", args, kwargs)
            return self.call_opaque(f, args, kwargs)
        if isinstance(f, AtIdx):
            raise Unsupported("call of .at[...]")
        if isinstance(f, Stacked):
            return self.call_stacked(f, args, kwargs)
        raise Unsupported(f"call of {type(f).__name__}")

    def call_stacked(self, f, args, kwargs):
        """a batched value being called: elementwise for batched callables; a batched ChoiceMap called with one scalar
        index is its element (C17 lemma: indexing a vectorised choice map = the element's choice map)"""
        probe = f.at(self.ctx.const("iprobe", z3.IntSort()))
        is_chm = (isinstance(probe, UVal) and probe.cls == "ChoiceMap") or \
                 (isinstance(probe, Obj) and any(c.name == "ChoiceMap" for c in self.mro(probe.cls)))
        if is_chm and len(args) == 1 and not kwargs and isinstance(args[0], (int, SInt)):
            from .interp_ops import zint
            self.ctx.notes.append("C17 lemma used: vectorised choice map indexed at i is element i's choice map")
            return f.at(zint(args[0]))
        return Stacked(f.n, lambda i: self.call(f.at(i), list(args), kwargs), tag="call")

    def pack_args(self, args):
        """positional arguments (possibly ending in an opaque star) as one U term denoting the argument tuple"""
        args = list(args)
        if args and isinstance(args[-1], StarOpaqueT):
            tail = args.pop().v
            if isinstance(tail, TupleT):
                return self.to_u(TupleT(tuple(args) + tail.head, tail.tail))
            return self.to_u(TupleT(tuple(args), tail.t)) if args else tail.t
        return self.to_u(tuple(args))

    def call_opaque(self, f, args, kwargs):
        """application of an opaque pure function (A3): apply(f, argument tuple[, keyword dict])"""
        at = self.pack_args(args)
        if kwargs:
            fn = self.ctx.fn("apply_kw", U, U, U, U)
            return UVal(fn(f.t, at, self.to_u(kwargs)))
        return UVal(self.ctx.fn("apply", U, U, U)(f.t, at))

    def call_method(self, o, name, args, kwargs):
        m = self.getattr(o, name)
        return self.call(m, args, kwargs)

    def call_function(self, fv: FuncVal, args, kwargs, no_override=False):
        q = None
        if fv.module is not None and not no_override:
            q = f"{fv.module.name}:{fv.name}"
            ov = self.overrides.get(q)
            if ov is not None:
                return ov(self, *args, **kwargs)
        node = fv.node
        a = node.args
        defaults, kwdefaults = self.func_defaults(fv)
        env = Env_(fv.env, owner=fv.owner)
        params = [p.arg for p in a.posonlyargs + a.args]
        # opaque star args: only supported when they land entirely in *vararg
        args = list(args)
        opaque_tail = None
        if args and isinstance(args[-1], StarOpaqueT):
            opaque_tail = args.pop().v
        if any(isinstance(x, StarOpaqueT) for x in args):
            raise Unsupported("opaque star-args not in last position")
        if opaque_tail is not None:
            if isinstance(opaque_tail, TupleT):
                args.extend(opaque_tail.head)
                opaque_tail = UVal(opaque_tail.tail, "tuple")
            if len(args) < len(params):
                # spread an opaque tuple over the remaining positional parameters
                need = len(params) - len(args)
                if a.vararg is None:
                    args.extend(self.unpack(opaque_tail, need))
                    opaque_tail = None
                else:
                    raise Unsupported("opaque star-args spread over named parameters and *args")
        npos = len(params)
        for name, v in zip(params, args):
            env.vars[name] = v
        extra = args[npos:]
        if a.vararg is not None:
            if opaque_tail is not None:
                env.vars[a.vararg.arg] = TupleT(tuple(extra), opaque_tail.t) if extra else opaque_tail
            else:
                env.vars[a.vararg.arg] = tuple(extra)
        elif extra or opaque_tail is not None:
            raise PyRaise("TypeError", (f"{fv.name}() takes {npos} positional arguments but {len(args)} were given",))
        kw = dict(kwargs)
        opaque_kw = kw.pop("**opaque", None)
        for i, name in enumerate(params):
            if name in env.vars:
                if name in kw and name not in [p.arg for p in a.posonlyargs]:
                    raise PyRaise("TypeError", (f"{fv.name}() got multiple values for argument {name}",))
                continue
            if name in kw:
                env.vars[name] = kw.pop(name)
            else:
                di = i - (npos - len(defaults))
                if di >= 0:
                    env.vars[name] = defaults[di]
                else:
                    raise PyRaise("TypeError", (f"{fv.name}() missing required positional argument {name}",))
        for p in a.kwonlyargs:
            if p.arg in kw:
                env.vars[p.arg] = kw.pop(p.arg)
            elif p.arg in kwdefaults:
                env.vars[p.arg] = kwdefaults[p.arg]
            else:
                raise PyRaise("TypeError", (f"{fv.name}() missing keyword-only argument {p.arg}",))
        if a.kwarg is not None:
            if opaque_kw is not None:
                if kw:
                    raise Unsupported("opaque **kwargs mixed with explicit keywords")
                env.vars[a.kwarg.arg] = opaque_kw
            else:
                env.vars[a.kwarg.arg] = kw
        elif kw:
            raise PyRaise("TypeError", (f"{fv.name}() got an unexpected keyword argument {sorted(kw)[0]}",))
        elif opaque_kw is not None:
            raise Unsupported("opaque **kwargs to function without **kwargs")
        if isinstance(node, ast.Lambda):
            return self.eval(node.body, env)
        from .interp import ReturnEx
        try:
            self.exec_block(node.body, env)
        except ReturnEx as r:
            return r.v
        return None

    # ------------------------------------------------------------------ externals
    def call_ext(self, path, args, kwargs):
        h = self.ext.get(path)
        if h is None:
            # try suffix match on the last two components (module aliases differ)
            for k, v in self.ext.items():
                if path.endswith("." + k):
                    h = v
                    break
        if h is not None:
            return h(self, *args, **kwargs)
        return self.ext_default(path, args, kwargs)

    def ext_default(self, path, args, kwargs):
        """unknown external: pure uninterpreted function of its arguments (assumption A3)"""
        ts = []
        for a in args:
            ts.append(self.to_u(a.v if isinstance(a, StarOpaqueT) else a))
        for k in sorted(kwargs):
            ts.append(self.to_u(kwargs[k]))
        name = "ext_" + path + "".join("_" + k for k in sorted(kwargs))
        cls = "extobj" if path.split(".")[-1][:1].isupper() else None       # constructor of an external class
        if not ts:
            return UVal(z3.Const(name + "_0", U), cls)
        fn = self.ctx.fn(name + f"/{len(ts)}", *([U] * len(ts)), U)
        self.ctx.notes.append(f"uninterpreted external: {path}")
        return UVal(fn(*ts), cls)

    # ------------------------------------------------------------------ builtins
    def call_builtin(self, name, args, kwargs):
        h = getattr(self, "bi_" + name, None)
        if h is None:
            raise Unsupported(f"builtin {name}")
        return h(*args, **kwargs)

    def bi_len(self, x):
        if isinstance(x, (tuple, list, dict, str, set, frozenset, range)):
            return len(x)
        if isinstance(x, TupleT):
            return SInt(len(x.head) + self.ulen(x.tail), True)
        if isinstance(x, UVal):
            if x.cls in ("tuple", None):
                return SInt(self.ulen(x.t), True)
            return self.call_method(x, "__len__", [], {})
        if isinstance(x, Stacked):
            return x.n if isinstance(x.n, int) else SInt(x.n, True)
        if isinstance(x, Obj):
            return self.call_method(x, "__len__", [], {})
        if isinstance(x, type({}.keys())):
            return len(x)
        raise Unsupported(f"len of {type(x).__name__}")

    def bi_isinstance(self, v, c):
        return self.isinstance_(v, c)

    def bi_issubclass(self, a, b):
        if isinstance(a, ClassRef) and isinstance(b, ClassRef):
            return self.is_subclass(a.ci, b.ci)
        raise Unsupported("issubclass")

    def bi_tuple(self, x=()):
        if isinstance(x, (TupleT,)):
            return x
        if isinstance(x, UVal):
            return x
        if isinstance(x, Stacked) and not isinstance(x.n, int):
            return x
        return tuple(self.iterate(x))

    def bi_list(self, x=()):
        if isinstance(x, Stacked) and not isinstance(x.n, int):
            return x
        return list(self.iterate(x))

    def bi_dict(self, x=None, **kw):
        d = {}
        if isinstance(x, ZippedSites) and not kw:
            vals = self.ctx.fn("per_site_values", U, z3.ArraySort(U, U))(x.values.t)
            return SymMap(x.m.has, vals, "EditRequest", "zipped")
        if x is not None:
            if isinstance(x, dict):
                d.update(x)
            else:
                for it in self.iterate(x):
                    k, v = self.unpack(it, 2)
                    d[self.hashable(k)] = v
        d.update(kw)
        return d

    def bi_set(self, x=()):
        return set(self.hashable(i) for i in self.iterate(x))

    def bi_frozenset(self, x=()):
        return frozenset(self.iterate(x))

    def bi_zip(self, *xs):
        if len(xs) == 2 and isinstance(xs[0], SymMapView) and xs[0].kind == "keys" and isinstance(xs[1], UVal):
            # keys of a symbolic dict (insertion = visit order) zipped with an opaque list built in the same order
            return ZippedSites(xs[0].m, xs[1])
        if any(isinstance(x, Stacked) and not isinstance(x.n, int) for x in xs):
            n = [x.n for x in xs if isinstance(x, Stacked)][0]
            xs2 = list(xs)

            def el(i):
                return tuple(x.at(i) if isinstance(x, Stacked) else self.getitem(x, SInt(i, True)) for x in xs2)
            return Stacked(n, el, tag="zip")
        ls = [self.iterate(x) for x in xs]
        return list(zip(*ls))

    def bi_enumerate(self, x, start=0):
        if isinstance(x, Stacked) and not isinstance(x.n, int):
            return Stacked(x.n, lambda i: (SInt(i + start, True), x.at(i)), tag="enumerate")
        return list(enumerate(self.iterate(x), start))

    def bi_range(self, *a):
        if all(isinstance(x, int) for x in a):
            return range(*a)
        if len(a) == 1 and isinstance(a[0], SInt):
            return Stacked(a[0].t, lambda i: SInt(i, True), tag="range")
        raise Unsupported("symbolic range")

    def bi_reversed(self, x):
        return list(reversed(self.iterate(x)))

    def bi_sorted(self, x, **kw):
        if kw:
            raise Unsupported("sorted with key")
        return sorted(self.iterate(x))

    def bi_all(self, x):
        if isinstance(x, Stacked) and not isinstance(x.n, int):
            raise Unsupported("all() over symbolic sequence")
        for it in self.iterate(x):
            if not self.truth(it, tag="all"):
                return False
        return True

    def bi_any(self, x):
        for it in self.iterate(x):
            if self.truth(it, tag="any"):
                return True
        return False

    def bi_map(self, f, *xs):
        if len(xs) == 1 and isinstance(xs[0], Stacked) and not isinstance(xs[0].n, int):
            return Stacked(xs[0].n, lambda i: self.call(f, [xs[0].at(i)], {}), tag="map")
        ls = [self.iterate(x) for x in xs]
        return [self.call(f, list(t), {}) for t in zip(*ls)]

    def bi_filter(self, f, x):
        return [it for it in self.iterate(x) if self.truth(self.call(f, [it], {}) if f is not None else it)]

    def bi_sum(self, x, start=0):
        acc = start
        for it in self.iterate(x):
            acc = self.binop("Add", acc, it)
        return acc

    def _minmax(self, a, is_min):
        if len(a) == 1:
            a = tuple(self.iterate(a[0]))
        if all(isinstance(x, (int, float)) for x in a):
            return min(*a) if is_min else max(*a)
        from .interp_ops import zint, conc_of
        if all(isinstance(x, (int, bool, SInt)) for x in a):
            r, cn = zint(a[0]), conc_of(a[0])
            for x in a[1:]:
                t = zint(x)
                r = z3.If((t < r) if is_min else (t > r), t, r)
                cn = z3.And(cn, conc_of(x))
            return SInt(r, cn)
        raise Unsupported("symbolic min/max on non-integers")

    def bi_min(self, *a):
        return self._minmax(a, True)

    def bi_max(self, *a):
        return self._minmax(a, False)

    def bi_abs(self, a):
        if isinstance(a, (int, float)):
            return abs(a)
        raise Unsupported("abs")

    def bi_bool(self, x=False):
        if isinstance(x, SBool) and not z3.is_true(z3.simplify(x.conc)):
            if not self.ctx.branch(x.conc, "bool():concrete?"):
                raise PyRaise("TracerBoolConversionError", ())
            return SBool(x.t, True)
        if isinstance(x, SBool):
            return x
        return self.truth(x)

    def bi_int(self, x=0):
        if isinstance(x, (int, bool)):
            return int(x)
        if isinstance(x, SBool):
            from .interp_ops import zint
            return SInt(zint(x), x.conc)
        if isinstance(x, SInt):
            return x
        raise Unsupported("int()")

    def bi_float(self, x=0.0):
        if isinstance(x, (int, float)):
            return float(x)
        raise Unsupported("float()")

    def bi_str(self, x=""):
        return x if isinstance(x, str) else "<str>"

    def bi_repr(self, x):
        return "<repr>"

    def bi_format(self, *a):
        return "<fmt>"

    def bi_print(self, *a, **k):
        return None

    def bi_id(self, x):
        return id(x)

    def bi_hash(self, x):
        return hash(self.hashable(x)) if isinstance(x, (str, int, tuple)) else id(x)

    def bi_callable(self, x):
        return self.isinstance_(x, Builtin("Callable"))

    def bi_type(self, x, *rest):
        if rest:
            return self.make_type(x, *rest)
        if isinstance(x, Obj):
            return ClassRef(x.cls)
        if isinstance(x, UVal):
            v = self.ctx.views.get(x.t.get_id())
            if v is not None:
                return ClassRef(v.cls)
            return UVal(self.ctx.fn("type_of", U, U)(x.t), "type")
        for t in (bool, int, float, str, tuple, list, dict):
            if type(x) is t:
                return Builtin(t.__name__)
        raise Unsupported(f"type() of {type(x).__name__}")

    def make_type(self, name, bases, ns):
        """type(name, bases, namespace): a dynamic subclass whose methods are the given function values"""
        if not isinstance(ns, dict) or not all(isinstance(b, ClassRef) for b in bases):
            raise Unsupported("dynamic type() with non-repository bases")
        node = ast.parse(f"class _Dyn({', '.join('B%d' % i for i in range(len(bases)))}):\n    pass").body[0]
        base0 = bases[0].ci
        ci = ClassInfo(str(name), base0.module, node, bases=[])
        ci.dyn_bases = [b.ci for b in bases]
        ci.dyn_methods = {k: v for k, v in ns.items() if isinstance(v, FuncVal)}
        self.mro_cache[ci.qualname] = [ci] + [c for b in bases for c in self.mro(b.ci)]
        return ClassRef(ci)

    def bi_getattr(self, o, name, *default):
        if default:
            try:
                return self.getattr(o, name, default[0])
            except PyRaise as e:
                if e.kind == "AttributeError":
                    return default[0]
                raise
        return self.getattr(o, name)

    def bi_hasattr(self, o, name):
        try:
            self.getattr(o, name)
            return True
        except PyRaise as e:
            if e.kind == "AttributeError":
                return False
            raise

    def bi_setattr(self, o, name, v):
        self.setattr(o, name, v)

    def bi_slice(self, *a):
        return slice(*a)

    def bi_iter(self, x):
        return self.iterate(x)

    def bi_object(self):
        return Obj(self._object_ci(), {})

    def bi_staticmethod(self, f):
        return f

    def bi_vars(self, o):
        if isinstance(o, Obj):
            return dict(o.fields)
        raise Unsupported("vars()")

    def bi_Exception(self, *a):
        return Obj(self._exc_ci("Exception"), {"args": tuple(a)})

    def _exc_ci(self, name):
        key = ("exc", name)
        if key not in self.module_cache:
            node = ast.parse(f"class {name}(Exception):\n    pass").body[0]
            m = self.repo.get_module("genjax._src.core.typing")
            self.module_cache[key] = ClassInfo(name, m, node, bases=[])
        return self.module_cache[key]

    def _object_ci(self):
        return self._exc_ci("object")

    def bi_ValueError(self, *a):
        return Obj(self._exc_ci("ValueError"), {"args": tuple(a)})

    def bi_TypeError(self, *a):
        return Obj(self._exc_ci("TypeError"), {"args": tuple(a)})

    def bi_NotImplementedError(self, *a):
        return Obj(self._exc_ci("NotImplementedError"), {"args": tuple(a)})

    def bi_KeyError(self, *a):
        return Obj(self._exc_ci("KeyError"), {"args": tuple(a)})

    def bi_AssertionError(self, *a):
        return Obj(self._exc_ci("AssertionError"), {"args": tuple(a)})


def Env_(parent, owner=None):
    from .interp import Env
    return Env({}, parent, owner=owner)


class ZippedSites:
    """zip(sites.keys(), per-site list): the i-th visited address paired with the i-th list element"""

    def __init__(self, m, values):
        self.m, self.values = m, values


class SymMapView:
    """dict.keys() / .values() / .items() of a symbolic dict; only consumed by theory-level models"""

    def __init__(self, m, kind):
        self.m, self.kind = m, kind


class AtRef:
    def __init__(self, base):
        self.base = base


class AtIdx:
    def __init__(self, base, idx):
        self.base, self.idx = base, idx


def _dict_method(d, name):
    def f(interp, *a, **k):
        if name == "get":
            key = interp.hashable(a[0])
            dflt = a[1] if len(a) > 1 else None
            from .interp_ops import _plain
            if _plain(key):
                return d.get(key, dflt)
            for kk in d:
                if interp.truth(interp.py_eq(kk, key)):
                    return d[kk]
            return dflt
        if name == "keys":
            return list(d.keys())
        if name == "values":
            return list(d.values())
        if name == "items":
            return [(k_, v) for k_, v in d.items()]
        if name == "update":
            d.update(*a, **k)
            return None
        if name == "copy":
            return dict(d)
        if name == "pop":
            return d.pop(*a)
        if name == "setdefault":
            return d.setdefault(*a)
    return f


def _list_method(l, name):
    def f(interp, *a):
        if name == "append":
            l.append(a[0])
            return None
        if name == "extend":
            l.extend(interp.iterate(a[0]))
            return None
        if name == "copy":
            return list(l)
        if name == "pop":
            return l.pop(*a)
        if name == "index":
            return l.index(*a)
        if name == "insert":
            l.insert(*a)
            return None
    return f


def _str_method(s, name):
    def f(interp, *a):
        if name == "join":
            return s.join(interp.iterate(a[0]))
        return getattr(s, name)(*a)
    return f


