"""setup_cmd: nothing to build; checks that the tooling the checks rely on is present and that the repository parses"""
import os, shutil, sys
ROOT = os.path.dirname(os.path.dirname(os.path.abspath(__file__)))
sys.path.insert(0, ROOT)
import z3  # noqa
from pyvc.loader import Repo
ok = True
for b in ("/usr/bin/cvc5", "/usr/bin/z3", "/venv/bin/python"):
    if not os.path.exists(b):
        print("missing", b); ok = False
r = Repo()
n = 0
for dp, _, fs in os.walk(os.path.join(r.src, "genjax")):
    for f in fs:
        if f.endswith(".py"):
            mod = os.path.relpath(os.path.join(dp, f), r.src)[:-3].replace("/", ".")
            if mod.endswith(".__init__"):
                mod = mod[:-9]
            r.get_module(mod); n += 1
print(f"z3 {z3.get_version_string()}, {n} repository modules parsed, ok={ok}")
os.makedirs(os.path.join(ROOT, "evidence"), exist_ok=True)
sys.exit(0 if ok else 3)
