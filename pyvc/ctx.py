"""Path context: decisions, path condition, obligations, solver portfolio."""
from __future__ import annotations

import os
import subprocess
import tempfile
import time

import z3

from .values import Infeasible, U

QUICK_MS = int(os.environ.get("VERIF_Z3_MS", "10000"))
_CROSSED = {}        # thorough tier: obligation name -> number of path instances already re-solved by the other solvers


class Obligation:
    def __init__(self, name, status, backend, secs, model=None, info=None, smt2=None, reason=None, path=None):
        self.name, self.status, self.backend, self.secs = name, status, backend, secs
        self.model, self.info, self.smt2, self.reason, self.path = model, info or {}, smt2, reason, path

    def to_json(self):
        d = {"name": self.name, "status": self.status, "backend": self.backend, "solver_s": round(self.secs, 4)}
        if self.model:
            d["model"] = self.model
        if self.reason:
            d["reason"] = self.reason
        if self.info:
            d["info"] = self.info
        if self.path is not None:
            d["path"] = self.path
        return d


def run_cli_solver(cmd, smt2, timeout_s):
    with tempfile.NamedTemporaryFile("w", suffix=".smt2", delete=False, dir=os.environ.get("TMPDIR", "/var/tmp")) as f:
        f.write(smt2)
        fn = f.name
    try:
        out = subprocess.run(cmd + [fn], capture_output=True, text=True, timeout=timeout_s + 5).stdout.strip()
    except subprocess.TimeoutExpired:
        out = "timeout"
    finally:
        os.unlink(fn)
    first = out.splitlines()[0] if out else "unknown"
    return first


class Ctx:
    """one symbolic execution path"""

    def __init__(self, decisions=None, timeout_ms=None, seed=0):
        self.decisions = list(decisions or [])
        self.pos = 0
        self.pending = []          # alternative decision prefixes discovered on this path
        self.pc = []               # list of z3 Bool (assumptions + branch conditions)
        self.solver = z3.Solver()
        self.timeout_ms = timeout_ms or QUICK_MS
        self.solver.set("timeout", self.timeout_ms)
        if seed:
            self.solver.set("random_seed", seed)
        self.counter = {}
        self.obligations = []
        self.views = {}            # z3 term id -> Obj view of an opaque value
        self.narrowed = {}         # z3 term id -> set of class qualnames known true
        self.sums = []             # (const, n, fn)
        self.notes = []
        self.covers = {}
        self.trace = []            # branch tags for reporting
        self.funcs = {}

    # ---------------------------------------------------------------- symbols
    def fresh_name(self, base):
        k = self.counter.get(base, 0)
        self.counter[base] = k + 1
        return f"{base}!{k}" if k else base

    def const(self, base, sort):
        return z3.Const(self.fresh_name(base), sort)

    def fn(self, name, *sorts):
        key = (name, tuple(str(s) for s in sorts))
        f = self.funcs.get(key)
        if f is None:
            f = z3.Function(name, *sorts)
            self.funcs[key] = f
        return f

    # ---------------------------------------------------------------- path condition
    def assume(self, c):
        if isinstance(c, bool):
            if not c:
                raise Infeasible()
            return
        c = z3.simplify(c)
        if z3.is_true(c):
            return
        if z3.is_false(c):
            raise Infeasible()
        self.pc.append(c)
        self.solver.add(c)

    def _sat(self, c):
        self.solver.push()
        self.solver.add(c)
        r = self.solver.check()
        self.solver.pop()
        return r != z3.unsat        # unknown counts as feasible (sound for proofs: more paths)

    def branch(self, cond, tag=""):
        """decide a symbolic Boolean; forks (by re-execution) when both outcomes are feasible"""
        if isinstance(cond, bool):
            return cond
        cond = z3.simplify(cond)
        if z3.is_true(cond):
            return True
        if z3.is_false(cond):
            return False
        if self.pos < len(self.decisions):
            d = self.decisions[self.pos]
        else:
            t_ok = self._sat(cond)
            f_ok = self._sat(z3.Not(cond))
            if t_ok and f_ok:
                d = True
                self.pending.append(self.decisions[: self.pos] + [False])
            elif t_ok:
                d = True
            elif f_ok:
                d = False
            else:
                raise Infeasible()
            self.decisions.append(d)
        self.pos += 1
        self.trace.append((tag, d))
        c = cond if d else z3.Not(cond)
        self.pc.append(c)
        self.solver.add(c)
        return d

    def entails(self, c):
        """True iff pc |= c (unknown -> False)"""
        if isinstance(c, bool):
            return c
        self.solver.push()
        self.solver.add(z3.Not(c))
        r = self.solver.check()
        self.solver.pop()
        return r == z3.unsat

    # ---------------------------------------------------------------- obligations
    def oblige(self, name, goal, info=None, extra_facts=()):
        """prove pc |= goal"""
        t0 = time.time()
        if isinstance(goal, bool):
            goal = z3.BoolVal(goal)
        self.solver.push()
        for f in extra_facts:
            self.solver.add(f)
        self.solver.add(z3.Not(goal))
        r = self.solver.check()
        status, backend, model, smt2, reason = None, "z3-5.1(py)", None, None, None
        if r == z3.unsat:
            status = "proved"
        elif r == z3.sat:
            status = "refuted"
            model = self._model_json(self.solver.model())
            smt2 = self.solver.to_smt2()
        else:
            smt2 = self.solver.to_smt2()
            reason = self.solver.reason_unknown()
            status = "undecided"
            tl = max(5, self.timeout_ms // 1000)
            for cmd, nm in ((["/usr/bin/cvc5", f"--tlimit={tl * 1000}"], "cvc5-1.0.3"),
                            (["/usr/bin/z3", f"-T:{tl}"], "z3-4.8.12")):
                if not os.path.exists(cmd[0]):
                    continue
                ans = run_cli_solver(cmd, smt2, tl)
                if ans == "unsat":
                    status, backend = "proved", nm
                    break
                if ans == "sat":
                    status, backend = "refuted", nm
                    break
        cross = None
        if status == "proved" and backend == "z3-5.1(py)" and os.environ.get("VERIF_CROSS") == "1" and \
                _CROSSED.get(name, 0) < 3 and not name.startswith("canary:"):
            _CROSSED[name] = _CROSSED.get(name, 0) + 1       # up to three path instances of every named obligation
            # thorough tier: every obligation z3 5.1 proved is re-solved, from the same SMT-LIB text, by the two other
            # installed solvers; a `sat` answer there is a disagreement (checker broken), `unknown`/timeout is recorded
            smt2 = self.solver.to_smt2()
            cross = {}
            for cmd, nm in ((["/usr/bin/cvc5", "--tlimit=20000"], "cvc5-1.0.3"), (["/usr/bin/z3", "-T:20"], "z3-4.8.12")):
                if os.path.exists(cmd[0]):
                    cross[nm] = run_cli_solver(cmd, smt2, 20)
            if any(v == "sat" for v in cross.values()):
                status, reason = "disagreement", f"solvers disagree: z3-5.1 unsat, {cross}"
            else:
                smt2 = None
        self.solver.pop()
        if cross is not None:
            info = dict(info or {}, cross=cross)
        ob = Obligation(name, status, backend, time.time() - t0, model=model, info=info, smt2=smt2,
                        reason=reason, path=list(self.decisions[: self.pos]))
        self.obligations.append(ob)
        return ob

    def cover(self, name):
        """reachability marker (vacuity guard): the current path is satisfiable"""
        self.covers[name] = self.covers.get(name, False) or (self.solver.check() == z3.sat)

    def _model_json(self, m):
        out = {}
        for d in m.decls():
            try:
                v = m[d]
                s = str(v)
                if len(s) > 300:
                    s = s[:300] + "..."
                out[d.name()] = s
            except Exception:
                pass
        return out
