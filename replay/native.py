"""Native replay: runs the property's own statement on the REAL genjax (under /venv/bin/python, PYTHONPATH=<repo>/src) for
the family an obligation belongs to, on concrete witnesses (scalars of the solver's model are used where they map onto an
input; otherwise a small fixed grid).   exit 1 = the violation reproduces on the real code (details printed),
exit 0 = not reproduced, exit 2 = no native checker for this obligation."""
import json
import sys

import jax
import jax.numpy as jnp
import jax.random as jrand

import genjax
from genjax import ChoiceMap as C, Diff, IndexRequest, Mask, Regenerate, Selection as S, Update, gen, normal
from genjax._src.core.compiler.interpreters.incremental import NoChange, UnknownChange

KEY = jrand.key(7)
FAILS = []
OB = ""          # the obligation being replayed (checks of recorded known findings run only for their own obligation)


def close(a, b, tol=1e-4):
    try:
        return bool(jnp.allclose(jnp.asarray(a, dtype=float), jnp.asarray(b, dtype=float), rtol=tol, atol=tol))
    except Exception:
        return False


def val(x):
    """value of a possibly masked lookup result (valid masks only)"""
    return x.value if isinstance(x, Mask) else x


def fail(what, **kw):
    FAILS.append((what, {k: (float(v) if hasattr(v, "shape") and v.shape == () else str(v)) for k, v in kw.items()}))


def wf(tr, name):
    """C01: assess(choices, args) == (score, retval)"""
    try:
        s, r = tr.get_gen_fn().assess(tr.get_choices(), tr.get_args())
    except Exception as e:            # masked-off / empty traces cannot be assessed by the inner function
        return
    if not close(s, tr.get_score()):
        fail(f"{name}: assess score != trace score", assess=s, score=tr.get_score())
    rv, tv = jax.tree_util.tree_leaves(r), jax.tree_util.tree_leaves(tr.get_retval())
    if len(rv) == len(tv) and not all(close(a, b) for a, b in zip(rv, tv)):
        if not isinstance(r, Mask) or bool(jnp.all(r.primal_flag())):
            fail(f"{name}: assess retval != trace retval", assess=r, retval=tr.get_retval())


@gen
def inner(mu):
    x = normal(mu, 1.0) @ "x"
    y = normal(x, 0.5) @ "y"
    return x + y


def flags(concrete):
    return [(True, False)] if False else ([True, False] if concrete else [jnp.array(True), jnp.array(False)])


# ------------------------------------------------------------------------------------------------ families
def mask_family():
    m = inner.mask()
    if "bwd_restores" in OB:        # C06 round trips of MaskCombinator.edit (the flag-flip case is a recorded known finding)
        flips = "flag_flip" in OB
        for pre, post in (((True, False), (False, True)) if flips else ((True, True), (False, False))):
            for conc in (True, False):
                f = (lambda b: b) if conc else (lambda b: jnp.array(b))
                tr = m.simulate(KEY, (f(pre), 0.3))
                ad = (Diff(f(post), UnknownChange), Diff(0.9, UnknownChange))
                new, w, rd, bwd = m.edit(KEY, tr, Update(C.kw(x=5.0)), ad)
                back, w2, _, _ = m.edit(KEY, new, bwd, (Diff(f(pre), UnknownChange), Diff(0.3, UnknownChange)))
                ok = close(back.get_score(), tr.get_score()) and close(w2, -w)
                if pre and ok:
                    ok = close(val(back.get_choices()["x"]), val(tr.get_choices()["x"]))
                if not ok:
                    fail("mask.edit: applying the backward request does not restore the original trace / weight -w", pre=pre, post=post,
                         concrete=conc, w=w, w2=w2, score=back.get_score(), want_score=tr.get_score(),
                         x=val(back.get_choices()["x"]) if pre else None, want_x=val(tr.get_choices()["x"]) if pre else None)
        return
    for conc in (True, False):
        for pre in flags(conc):
            tr = m.simulate(KEY, (pre, 0.3))
            wf(tr, f"mask.simulate[{pre}]")
            if not bool(pre) and not close(tr.get_score(), 0.0):
                fail("mask.simulate: false flag has non-zero score", score=tr.get_score())
            if bool(pre) and not close(tr.get_score(), tr.inner.get_score()):
                fail("mask.simulate: true flag score != inner score")
            # a masked call whose callee returns a mask itself (mask of mask): valid iff both flags are true
            for f_in in flags(conc):
                mm = m.mask()
                t2 = mm.simulate(KEY, (pre, f_in, 0.3))
                rv2 = t2.get_retval()
                if not (isinstance(rv2, Mask) and not isinstance(rv2.value, Mask)
                        and bool(jnp.all(rv2.primal_flag())) == (bool(pre) and bool(f_in))):
                    fail("mask of mask: the returned mask is not valid exactly when both flags are true", outer=pre, inner=f_in)
                if not bool(pre) and not close(t2.get_score(), 0.0):
                    fail("mask of mask: false outer flag has a non-zero score", outer=pre, inner=f_in)
            g, w = m.importance(KEY, C.kw(x=0.7), (pre, 0.3))
            wf(g, f"mask.generate[{pre}]")
            want = normal.assess(C.choice(0.7), (0.3, 1.0))[0] if bool(pre) else 0.0
            if not close(w, want):
                fail("mask.generate: weight != density of constrained choice (0 when masked off)", w=w, want=want, flag=pre)
            for post in flags(conc):
                for cons in (C.empty(), C.kw(x=1.5), C.kw(x=1.5, y=-0.5)):
                    for newmu in (0.3, 0.9):
                        ad = (Diff(post, NoChange if bool(post) == bool(pre) else UnknownChange),
                              Diff(newmu, NoChange if newmu == 0.3 else UnknownChange))
                        new, w, rd, bwd = m.edit(KEY, tr, Update(cons), ad)
                        wf(new, f"mask.edit[{pre}->{post}]")
                        if not close(w, new.get_score() - tr.get_score()):
                            fail("mask.edit: weight != new score - old score", pre=pre, post=post, w=w,
                                 delta=new.get_score() - tr.get_score(), constraint=cons, newmu=newmu)
                        rv = Diff.tree_primal(rd)
                        if not (isinstance(rv, Mask) and bool(jnp.all(rv.primal_flag() == bool(post)))):
                            fail("mask.edit: the retdiff's primal is not a Mask carrying the NEW flag", pre=pre, post=post)
                        # the whole new trace, not only what a False flag lets through: arguments and the inner trace (the
                        # inner edit is run whatever the flag), identically for Python-bool flags (eager) and traced flags (jit)
                        if not close(new.get_args()[1], newmu) or not close(new.inner.get_args()[0], newmu):
                            fail("mask.edit: the new trace / its inner trace does not hold the new arguments", pre=pre, post=post,
                                 newmu=newmu, args=new.get_args()[1], inner_args=new.inner.get_args()[0])
                        jn, jw, _, _ = jax.jit(lambda p_, q_: m.edit(KEY, m.simulate(KEY, (p_, 0.3)), Update(cons),
                                                                    (Diff(q_, UnknownChange), Diff(newmu, UnknownChange))))(
                            jnp.array(bool(pre)), jnp.array(bool(post)))
                        same = close(jw, w) and all(close(a, b) for a, b in zip(
                            jax.tree_util.tree_leaves((jn.get_args()[1], jn.inner.get_args(), jn.inner.get_score(), jn.get_score())),
                            jax.tree_util.tree_leaves((new.get_args()[1], new.inner.get_args(), new.inner.get_score(), new.get_score()))))
                        if not same:
                            fail("mask.edit: eager result differs from the result under jit", pre=pre, post=post, newmu=newmu,
                                 constraint=cons, w=w, jit_w=jw)


def distribution_family():
    # batch shapes of rank 0, 1 and 2: scores / weights are the TOTAL of the TFP log_prob array (a scalar)
    from tensorflow_probability.substrates import jax as tfp
    for shape in ((), (3,), (2, 3)):
        mu = jnp.linspace(-1.0, 1.0, int(jnp.prod(jnp.array(shape or (1,))))).reshape(shape)
        val = mu + 0.25
        want = jnp.sum(tfp.distributions.Normal(mu, 2.0).log_prob(val))
        s, _ = normal.assess(C.choice(val), (mu, 2.0))
        g, w = normal.importance(KEY, C.choice(val), (mu, 2.0))
        sim = normal.simulate(KEY, (mu, 2.0))
        for nm, got in (("assess score", s), ("importance weight", w), ("importance score", g.get_score())):
            if jnp.shape(got) != () or not close(got, want):
                fail(f"Distribution {nm}: not the summed TFP log_prob", batch_shape=shape, got=got, want=want)
        ssim = jnp.sum(tfp.distributions.Normal(mu, 2.0).log_prob(sim.get_retval()))
        if jnp.shape(sim.get_score()) != () or not close(sim.get_score(), ssim):
            fail("Distribution simulate score: not the summed TFP log_prob of the sample", batch_shape=shape, got=sim.get_score(), want=ssim)
    # C24: a rank-0 value scored against batched parameters (the log_prob array has the batch shape, the value has none)
    tfd = tfp.distributions
    loc, scale = jnp.array([-1.0, 0.0, 2.0]), jnp.array([0.5, 1.0, 2.0])
    want = jnp.sum(tfd.Normal(loc, scale).log_prob(0.3))
    for nm, got in (("assess", normal.assess(C.choice(0.3), (loc, scale))[0]),
                    ("importance weight", normal.importance(KEY, C.choice(0.3), (loc, scale))[1]),
                    ("update score", normal.edit(KEY, normal.simulate(KEY, (0.0, 1.0)), Update(C.choice(0.3)),
                                                 Diff.unknown_change((loc, scale)))[0].get_score())):
        if jnp.shape(got) != () or not close(got, want):
            fail(f"Distribution {nm}: scalar value against batched parameters is not the summed TFP log_prob", got=got, want=want)
    # C24: each wrapper scores exactly like the TFP distribution it wraps, for every parameter value incl. the boundary
    cases = [(genjax.flip, (0.0,), True, tfd.Bernoulli(probs=0.0, dtype=jnp.bool_)), (genjax.flip, (0.0,), False, tfd.Bernoulli(probs=0.0, dtype=jnp.bool_)),
             (genjax.flip, (1.0,), True, tfd.Bernoulli(probs=1.0, dtype=jnp.bool_)), (genjax.flip, (0.3,), True, tfd.Bernoulli(probs=0.3, dtype=jnp.bool_)),
             (genjax.bernoulli, (0.4,), 1, tfd.Bernoulli(logits=0.4)), (genjax.categorical, (jnp.array([0.1, 0.5, -1.0]),), 2, tfd.Categorical(logits=jnp.array([0.1, 0.5, -1.0]))),
             (genjax.exponential, (1.5,), 0.7, tfd.Exponential(1.5)), (genjax.beta, (2.0, 3.0), 0.25, tfd.Beta(2.0, 3.0)),
             (genjax.uniform, (0.0, 2.0), 0.5, tfd.Uniform(0.0, 2.0)), (genjax.gamma, (2.0, 1.5), 0.8, tfd.Gamma(2.0, 1.5))]
    for dist, params, value, ref in cases:
        got = dist.assess(C.choice(jnp.asarray(value)), params)[0]
        wantv = jnp.sum(ref.log_prob(value))
        same = bool(jnp.isneginf(got) and jnp.isneginf(wantv)) or close(got, wantv, tol=1e-6)
        if not same:
            fail("distribution wrapper: assess score differs from the TFP log_prob", dist=getattr(dist, "name", dist), params=params,
                 value=value, got=got, want=wantv)
    for v, flag in ((None, None), (1.2, None), (1.2, True), (1.2, False), (1.2, jnp.array(True)), (1.2, jnp.array(False))):
        c = C.empty() if v is None else (C.choice(v) if flag is None else C.choice(Mask(v, flag)))
        tr, w = normal.importance(KEY, c, (0.5, 2.0))
        wf(tr, f"normal.generate[{v},{flag}]")
        constrained = v is not None and (flag is None or bool(flag))
        want = tr.get_score() if constrained else 0.0
        if not close(w, want):
            fail("Distribution.generate: weight", w=w, want=want, flag=flag)
        if constrained and not close(tr.get_retval(), v):
            fail("Distribution.generate: value does not agree with the constraint", value=tr.get_retval())
        sim = normal.simulate(KEY, (0.5, 2.0))
        if not constrained and not close(tr.get_retval(), sim.get_retval()):
            fail("Distribution.generate: unconstrained draw differs from simulate with the same key")
        old = normal.simulate(KEY, (0.0, 1.0))
        for ad in (Diff.no_change((0.0, 1.0)), Diff.unknown_change((0.4, 1.5))):
            new, w, rd, bwd = normal.edit(KEY, old, Update(c), ad)
            wf(new, "normal.update")
            if not close(w, new.get_score() - old.get_score()):
                fail("Distribution.update: weight != score change", w=w)
            want_v = v if constrained else old.get_retval()
            if not close(new.get_retval(), want_v):
                fail("Distribution.update: value", got=new.get_retval(), want=want_v)
            back, w2, _, _ = bwd.edit(KEY, new, Diff.unknown_change((0.0, 1.0)))
            if not (close(back.get_retval(), old.get_retval()) and close(back.get_score(), old.get_score()) and close(w2, -w)):
                fail("Distribution.update: backward request does not restore the trace", w=w, w2=w2)
            if Diff.static_check_no_change(rd) and not close(new.get_retval(), old.get_retval()):
                fail("Distribution.update: retdiff tagged NoChange but value changed")
        for sel in (S.all(), S.none(), S.leaf(), ~S.all(), S.at["z"]):
            for ad in (Diff.no_change((0.0, 1.0)), Diff.unknown_change((0.4, 1.5))):
                new, w, rd, bwd = normal.edit(KEY, old, Regenerate(sel), ad)
                wf(new, "normal.regenerate")
                if not close(w, new.get_score() - old.get_score()):
                    fail("Distribution.regenerate: weight != score change", w=w, sel=sel)
                if not sel[()] and not close(new.get_retval(), old.get_retval()):
                    fail("Distribution.regenerate: unselected value changed")
            p, pn = normal.project(KEY, old, sel), normal.project(KEY, old, ~sel)
            if not close(p + pn, old.get_score()):
                fail("Distribution.project: project(S)+project(~S) != score", sel=sel)


def dimap_family():
    d = inner.dimap(pre=lambda a, b: (a + b,), post=lambda args, xf, r: (r, args[0]))
    tr = d.simulate(KEY, (0.1, 0.2))
    wf(tr, "dimap.simulate")
    itr = inner.simulate(KEY, (0.1 + 0.2,))
    if not (close(tr.get_score(), itr.get_score()) and close(tr.get_retval()[0], itr.get_retval()) and close(tr.get_retval()[1], 0.1)):
        fail("dimap.simulate: not the inner function on pre(args) with post applied")
    g, w = d.importance(KEY, C.kw(x=0.4), (0.1, 0.2))
    wf(g, "dimap.generate")
    ig, iw = inner.importance(KEY, C.kw(x=0.4), (0.3,))
    if not close(w, iw):
        fail("dimap.generate: weight != inner weight", w=w, iw=iw)
    if not (len(g.get_args()) == 2 and close(g.get_args()[0], 0.1) and close(g.get_args()[1], 0.2)):
        fail("dimap.generate: the trace's arguments are not the OUTER arguments", args=g.get_args())
    g_up, w_up, _, _ = g.update(KEY, C.empty())          # (default argdiffs = no_change(trace.get_args()))
    if not (close(w_up, 0.0) and close(g_up.get_score(), g.get_score())):
        fail("dimap.generate: an empty update with default argdiffs is not the identity (pre applied twice?)", w=w_up)
    for ad in (Diff.no_change((0.1, 0.2)), (Diff(0.5, UnknownChange), Diff(0.2, NoChange))):
        new, w, rd, bwd = d.edit(KEY, tr, Update(C.kw(y=0.3)), ad)
        wf(new, "dimap.edit")
        if not close(w, new.get_score() - tr.get_score()):
            fail("dimap.edit: weight != score change", w=w)
        if Diff.static_check_no_change(rd) and not all(close(a, b) for a, b in zip(new.get_retval(), tr.get_retval())):
            fail("dimap.edit: retdiff NoChange but retval changed")
    # inner return value untouched (NoChange) while the arguments that `post` reads change
    kz = gen(lambda mu, sigma: normal(mu, sigma) @ "z")
    d3 = gen(lambda x: normal(x, 1.0) @ "z").dimap(pre=lambda x, scale: (x,), post=lambda a, _, r: r * a[1])
    t3 = d3.simulate(KEY, (0.5, 2.0))
    new, w, rd, bwd = d3.edit(KEY, t3, Update(C.empty()), (Diff(0.5, NoChange), Diff(7.0, UnknownChange)))
    wf(new, "dimap.edit[pre drops the changed argument, post reads it]")
    if Diff.static_check_no_change(rd) and not close(new.get_retval(), t3.get_retval()):
        fail("dimap.edit[pre drops the changed argument]: retdiff NoChange but retval changed", old=t3.get_retval(), new=new.get_retval())
    for nm, post in (("args", lambda args, xf, r: r - 2.0 * args[0]), ("xformed", lambda args, xf, r: r - xf[0])):
        d2 = kz.dimap(pre=lambda off, s: (off * 2.0, s), post=post)
        t0 = d2.simulate(KEY, (1.0, 1.0))
        new, w, rd, bwd = d2.edit(KEY, t0, Update(C.empty()), (Diff(3.0, UnknownChange), Diff(1.0, NoChange)))
        wf(new, f"dimap.edit[post reads {nm}; arguments changed; inner retval unchanged]")
        if Diff.static_check_no_change(rd) and not close(new.get_retval(), t0.get_retval()):
            fail(f"dimap.edit[post reads {nm}]: retdiff NoChange but retval changed", old=t0.get_retval(), new=new.get_retval())


def switch_family():
    @gen
    def b0(a):
        return normal(a, 1.0) @ "u"

    @gen
    def b1(a):
        return normal(a, 2.0) @ "v" + 10.0

    @gen
    def b2(a):
        return normal(a, 3.0) @ "w" + 20.0
    if "C06.Switch.edit.changed_index" in OB:       # the recorded known finding: the round trip across an index change
        sw2 = genjax.switch(b0, b1)
        for i0, i1 in ((0, 1), (1, 0)):
            a0 = (jnp.array(i0), (0.5,), (1.0,))
            t0 = sw2.simulate(KEY, a0)
            ad = lambda i: (Diff(jnp.array(i), UnknownChange), Diff.no_change((0.5,)), Diff.no_change((1.0,)))
            new, w, _, bwd = sw2.edit(jrand.fold_in(KEY, 1), t0, Update(C.empty()), ad(i1))
            back, w2, _, _ = sw2.edit(jrand.fold_in(KEY, 2), new, bwd, ad(i0))
            nm = ("u", "v")[i0]
            if not (close(val(back.get_choices()[nm]), val(t0.get_choices()[nm])) and close(w2, -w)):
                fail("switch.edit across an index change: applying the backward request with the index changed back does not restore "
                     "the old branch's choice (it is re-simulated) / negate the weight", index=f"{i0}->{i1}->{i0}",
                     old=val(t0.get_choices()[nm]), restored=val(back.get_choices()[nm]), w=w, w_back=w2)
        return
    for branches in ((b0, b1), (b0, b1, b2)):
        sw = genjax.switch(*branches)
        n = len(branches)
        for idx in (-1, 0, 1, 2, 3):
            for mk in (jnp.array, int):
                i = mk(idx)
                k = min(max(idx, 0), n - 1)
                args = (i,) + tuple((0.5 * (j + 1),) for j in range(n))
                try:
                    tr = sw.simulate(KEY, args)
                except Exception as e:
                    fail("switch.simulate raises", idx=idx, err=type(e).__name__)
                    continue
                ref = branches[k].simulate(KEY, args[1 + k])
                try:
                    got = tr.get_choices()[("u", "v", "w")[k]]
                    ch_ok = close(val(got), ref.get_choices()[("u", "v", "w")[k]]) and \
                        (not isinstance(got, Mask) or bool(got.primal_flag()))
                except Exception as e:
                    ch_ok = False
                if not (close(tr.get_score(), ref.get_score()) and close(tr.get_retval(), ref.get_retval()) and ch_ok):
                    fail("switch.simulate: score/retval/choices are not those of the (clamped) executed branch", idx=idx, n=n,
                         score=tr.get_score(), want=ref.get_score())
                wf(tr, f"switch.simulate[{idx}]")
                c = C.kw(**{("u", "v", "w")[k]: 0.25})
                g, w = sw.importance(KEY, c, args)
                rg, rw = branches[k].importance(KEY, c, args[1 + k])
                if not (close(w, rw) and close(g.get_score(), rg.get_score())):
                    fail("switch.generate: weight/score not the executed branch's", idx=idx, w=w, want=rw)
                # (assess evaluates every branch: the sample supplies the executed branch's choices and a value for the others)
                full = g.get_choices() | C.kw(u=0.0, v=0.0, w=0.0)
                s, r = sw.assess(full, args)
                if not close(s, rg.get_score()):
                    fail("switch.assess: score not the executed branch's", idx=idx)
                # update with an unchanged (possibly out-of-range) index: the executed branch is edited, weight = score change
                name = ("u", "v", "w")[k]
                try:
                    new, w, rd, bwd_ = sw.edit(KEY, tr, Update(C.kw(**{name: 0.75})), Diff.no_change(args))
                    if Diff.static_check_no_change(rd) and not close(new.get_retval(), tr.get_retval()):
                        fail("switch.edit: the return value is tagged NoChange although the executed branch's return value changed",
                             idx=idx, n=n, old=tr.get_retval(), new=new.get_retval())
                    back, w_back, _, _ = sw.edit(jrand.fold_in(KEY, 3), new, bwd_, Diff.no_change(args))
                    if not (close(w_back, -w) and close(back.get_score(), tr.get_score())
                            and close(val(back.get_choices()[name]), val(tr.get_choices()[name]))):
                        fail("switch.edit (unchanged index): the backward request does not restore the edited branch's choice with "
                             "weight -w", idx=idx, n=n, w=w, w_back=w_back, restored=val(back.get_choices()[name]),
                             old=val(tr.get_choices()[name]))
                except (ValueError, TypeError) as e:
                    # a valid update (one address of the executed branch, unchanged arguments) must be applied, not rejected
                    fail("switch.edit raises on an update that changes one branch's return value only", idx=idx, n=n,
                         err=type(e).__name__, msg=str(e).splitlines()[0][:120])
                    continue
                ref_new, ref_w, _, _ = branches[k].edit(KEY, ref, Update(C.kw(**{name: 0.75})), Diff.no_change(args[1 + k]))
                if not (close(new.get_score(), ref_new.get_score()) and close(w, ref_w) and close(w, new.get_score() - tr.get_score())):
                    fail("switch.edit (unchanged index): score / weight are not those of the edited (clamped) branch", idx=idx, n=n,
                         score=new.get_score(), want=ref_new.get_score(), w=w, want_w=ref_w)
                # project on everything is the executed branch's score, on nothing 0; the sub-execution reached through the
                # switch is the executed branch's (single-site branches: its score is the whole score, its value the choice)
                try:
                    p_all, p_none = sw.project(KEY, tr, S.all()), sw.project(KEY, tr, S.none())
                    if not (close(p_all, tr.get_score()) and close(p_none, 0.0)):
                        fail("switch.project: all -> executed (clamped) branch's score, none -> 0", idx=idx, n=n, got=p_all, want=tr.get_score())
                except (IndexError, ValueError, TypeError) as e:
                    fail("switch.project raises", idx=idx, n=n, err=type(e).__name__)
                try:
                    sub = tr.get_subtrace(name)
                    if not (close(sub.get_score(), tr.get_score()) and close(sub.get_choices()[()], ref.get_choices()[name])):
                        fail("switch: get_subtrace is not the sub-execution of the executed (clamped) branch", idx=idx, n=n,
                             score=sub.get_score(), want=tr.get_score())
                except (IndexError, ValueError, TypeError, KeyError) as e:
                    fail("switch: get_subtrace raises", idx=idx, n=n, err=type(e).__name__)
        # an update whose arguments are all tagged UnknownChange while the index keeps its value: the same result with a
        # Python-int index (eager) and with a traced one (under jit)
        def do_update(key, tr, i, *rest):
            return tr.update(key, C.kw(u=0.25, v=0.25, w=0.25), Diff.unknown_change((i,) + rest))[:2]
        for idx in range(n):
            args = (idx,) + tuple((0.5 * (j + 1),) for j in range(n))
            te, tj = sw.simulate(KEY, args), jax.jit(sw.simulate)(KEY, args)
            (ne, we), (nj, wj) = do_update(KEY, te, *args), jax.jit(do_update)(KEY, tj, *args)
            if not (close(we, wj) and close(ne.get_score(), nj.get_score()) and close(ne.get_retval(), nj.get_retval())):
                fail("switch.edit (all arguments tagged changed, index value unchanged): eager Python-int index and traced index differ",
                     idx=idx, n=n, eager_w=we, jit_w=wj, eager_score=ne.get_score(), jit_score=nj.get_score())
    # or_else: the if-branch iff the flag is true - Python bools and arrays
    b_if, b_else = gen(lambda m: normal(m, 1.0) @ "a"), gen(lambda m: normal(m, 0.1) @ "b")
    oe = b_if.or_else(b_else)
    for flag in (True, False, jnp.array(True), jnp.array(False)):
        tr = oe.simulate(KEY, (flag, (0.0,), (5.0,)))
        ch = tr.get_choices()
        name, mu, sd = ("a", 0.0, 1.0) if bool(flag) else ("b", 5.0, 0.1)
        want = normal.assess(C.choice(val(ch[name])), (mu, sd))[0]
        if not close(tr.get_score(), want):
            fail("or_else.simulate: score is not the density of the branch the flag selects", flag=flag, score=tr.get_score(), want=want)
        s, _ = oe.assess(C.kw(a=0.3, b=0.3), (flag, (0.0,), (5.0,)))        # (all branches are assessed: both addresses supplied)
        if not close(s, normal.assess(C.choice(0.3), (mu, sd))[0]):
            fail("or_else.assess: not the density of the branch the flag selects", flag=flag, got=s)
    # mix: score = log softmax(logits)[k] + density of component k, also for logits that are not log-normalised
    mx = genjax.mix(b_if, b_else)
    for logits in (jnp.array([0.3, 0.7]), jnp.log(jnp.array([0.25, 0.75])), jnp.array([3.3, 3.7])):
        for k in (0, 1):
            name, mu, sd = ("a", 0.0, 1.0) if k == 0 else ("b", 5.0, 0.1)
            c = C.kw(mixture_component=k) | C.d({("component_sample", "a"): 0.4, ("component_sample", "b"): 0.4})
            s, _ = mx.assess(c, (logits, (0.0,), (5.0,)))
            want = jax.nn.log_softmax(logits)[k] + normal.assess(C.choice(0.4), (mu, sd))[0]
            if not close(s, want):
                fail("mix.assess: score != log softmax(logits)[k] + component density", logits=logits, k=k, got=s, want=want)
        tr = mx.simulate(KEY, (logits, (0.0,), (5.0,)))
        wf(tr, "mix.simulate")


def vmap_family():
    v = inner.vmap(in_axes=(0,))
    for n in (0, 1, 3):
        xs = jnp.arange(n, dtype=float) * 0.1
        tr = v.simulate(KEY, (xs,))
        wf(tr, f"vmap.simulate[n={n}]")
        ks = jrand.split(KEY, n)
        tot = sum(inner.simulate(ks[i], (xs[i],)).get_score() for i in range(n)) if n else 0.0
        if not close(tr.get_score(), tot):
            fail("vmap.simulate: score != sum of independent element calls", n=n)
        if n == 3:
            c = C.empty().at[1, "x"].set(2.0)
            g, w = v.importance(KEY, c, (xs,))
            wf(g, "vmap.generate")
            want = normal.assess(C.choice(2.0), (xs[1], 1.0))[0]
            if not close(w, want) or not close(g.get_choices()[1, "x"], 2.0):
                fail("vmap.generate: a constraint at index 1 must weigh/affect only element 1", w=w, want=want)
            # every kind of top-level index: each Python int (the last one included), a scalar array, an array address that
            # is a permutation of the indices, an array address naming some of the indices
            for nm, c, cons in [(f"int {i}", C.empty().at[i, "x"].set(2.0 + i), {i: 2.0 + i}) for i in range(3)] + [
                    ("scalar array 2", C.empty().at[jnp.array(2), "x"].set(4.0), {2: 4.0}),
                    ("array [2,0,1]", C.empty().at[jnp.array([2, 0, 1]), "x"].set(jnp.array([4.0, 2.0, 3.0])), {0: 2.0, 1: 3.0, 2: 4.0}),
                    ("array [2,0]", C.empty().at[jnp.array([2, 0]), "x"].set(jnp.array([4.0, 2.0])), {0: 2.0, 2: 4.0})]:
                g, w = v.importance(KEY, c, (xs,))
                want = sum(normal.assess(C.choice(x), (xs[i], 1.0))[0] for i, x in cons.items())
                if not close(w, want) or not all(close(g.get_choices()[i, "x"], x) for i, x in cons.items()):
                    fail("vmap.generate: element i is not generated under the constraint's sub-map at index i", index=nm, w=w, want=want)
            # project: the sum of the element projections under the same selection
            el = [inner.simulate(ks[i], (xs[i],)) for i in range(3)]
            for nm, s_ in (("S['x']", S.at["x"]), ("~S['x']", ~S.at["x"]), ("S['y'] | S['x']", S.at["y"] | S.at["x"]), ("none", S.none()), ("all", S.all())):
                got, want = v.project(KEY, tr, s_), sum(inner.project(KEY, e, s_) for e in el)
                if not close(got, want):
                    fail("vmap.project: not the sum of the element projections under the same selection", sel=nm, got=got, want=want)
            for pos in (0, 1, 2):
                from genjax._src.core.generative.concepts import IndexRequest
                new, w, rd, bwd = v.edit(KEY, tr, IndexRequest(jnp.array(pos), Update(C.kw(x=1.0))), Diff.no_change((xs,)))
                wf(new, "vmap.edit_index")
                if not close(w, new.get_score() - tr.get_score()):
                    fail("vmap.edit_index: weight != score change", pos=pos)
                for j in range(3):
                    if j != pos and not close(new.get_choices()[j, "x"], tr.get_choices()[j, "x"]):
                        fail("vmap.edit_index: another element changed", pos=pos, other=j)
            new, w, rd, bwd = v.edit(KEY, tr, Update(C.empty().at[2, "y"].set(0.1)), Diff.unknown_change((xs + 1.0,)))
            wf(new, "vmap.edit_update")
            if not close(w, new.get_score() - tr.get_score()):
                fail("vmap.edit_update: weight != score change")
    r = inner.repeat(n=3)
    tr = r.simulate(KEY, (0.2,))
    wf(tr, "repeat.simulate")
    # a non-default mapped axis (square argument, so that a row/column mix-up is silent), index edits and their round trip
    from genjax._src.core.generative.concepts import IndexRequest

    @gen
    def rowsum(col, s):
        return normal(jnp.sum(col * jnp.arange(1.0, 4.0)), s) @ "x"
    v1 = rowsum.vmap(in_axes=(1, None))
    A = jnp.array([[0.1, 2.0, -1.0], [0.5, 0.3, 4.0], [-2.0, 1.0, 0.7]])
    t1 = v1.simulate(KEY, (A, 1.0))
    wf(t1, "vmap.simulate[in_axes=(1,None)]")
    for pos in (0, 1, 2):
        new, w, rd, bwd = v1.edit(KEY, t1, IndexRequest(jnp.array(pos), Update(C.kw(x=0.25))), Diff.no_change((A, 1.0)))
        wf(new, f"vmap.edit_index[in_axes=(1,None), idx={pos}]")
        if not close(w, new.get_score() - t1.get_score()):
            fail("vmap.edit_index[in_axes=(1,None)]: weight != score change", pos=pos, w=w)
        back, w2, _, _ = v1.edit(KEY, new, bwd, Diff.no_change((A, 1.0)))
        if not (close(back.get_score(), t1.get_score()) and close(w2, -w) and close(back.get_choices()[pos, "x"], t1.get_choices()[pos, "x"])):
            fail("vmap.edit_index[in_axes=(1,None)]: the backward request does not restore the trace with weight -w", pos=pos)


def scan_family():
    @gen
    def kern(c, x):
        z = normal(c + x, 1.0) @ "z"
        return z, z * 2.0
    sc = kern.scan()
    for n in (0, 1, 4):
        xs = jnp.arange(n, dtype=float)
        tr = sc.simulate(KEY, (0.5, xs))
        wf(tr, f"scan.simulate[n={n}]")
        carry, ys = tr.get_retval()
        c = 0.5
        for i in range(n):
            z = tr.get_choices()[i, "z"]
            if not close(ys[i], z * 2.0):
                fail("scan.simulate: stacked output i is not the kernel's output", i=i)
            c = z
        if not close(carry, c):
            fail("scan.simulate: final carry is not the loop's", carry=carry, want=c)
        if n == 4:
            g, w = sc.importance(KEY, C.empty().at[2, "z"].set(1.0), (0.5, xs))
            wf(g, "scan.generate")
            # project: the sum of the iterations' projections under the same selection (complements and leaf selections too)
            for nm, s_, want in (("S['z']", S.at["z"], tr.get_score()), ("~S['z']", ~S.at["z"], 0.0), ("all", S.all(), tr.get_score()),
                                 ("none", S.none(), 0.0), ("~S['q']", ~S.at["q"], tr.get_score())):
                got = sc.project(KEY, tr, s_)
                if not close(got, want):
                    fail("scan.project: not the sum of the iterations' projections under the same selection", sel=nm, got=got, want=want)
            new, w, rd, bwd = sc.edit(KEY, tr, Update(C.empty().at[1, "z"].set(0.3)), Diff.no_change((0.5, xs)))
            wf(new, "scan.edit_update")
            if not close(w, new.get_score() - tr.get_score()):
                fail("scan.edit_update: weight != score change", w=w)
            new, w, rd, bwd = sc.edit(KEY, tr, Update(C.empty()), (Diff(2.5, UnknownChange), Diff(xs, NoChange)))
            wf(new, "scan.edit_update[empty constraint, only the initial carry changed]")
            ref_s, _ = sc.assess(tr.get_choices(), (2.5, xs))
            if not (close(new.get_args()[0], 2.5) and close(new.get_score(), ref_s)):
                fail("scan.edit_update[empty constraint, only the initial carry changed]: the new trace is not the loop "
                     "re-run on the new initial carry", args=new.get_args()[0], score=new.get_score(), want=ref_s)
            for i in range(n):          # the carry changes at slice i, slice i+1 is re-scored under the new carry
                new, w, rd, bwd = IndexRequest(jnp.array(i), Update(C.kw(z=0.3))).edit(KEY, tr, Diff.no_change((0.5, xs)))
                wf(new, f"scan.edit_index[idx={i} of {n}; the next slice's score depends on the carry]")
                if not close(w, new.get_score() - tr.get_score()):
                    fail("scan.edit_index: weight != score change", idx=i, w=w)
                back, w2, _, _ = bwd.edit(jrand.fold_in(KEY, 7), new, Diff.no_change((0.5, xs)))
                if not (close(w2, -w) and close(back.get_score(), tr.get_score()) and close(back.get_retval()[0], tr.get_retval()[0])
                        and all(close(back.get_choices()[j, "z"], tr.get_choices()[j, "z"]) for j in range(n))
                        and close(back.get_retval()[1], tr.get_retval()[1])):
                    fail("scan.edit_index: the backward request does not restore the trace with weight -w", idx=i, w=w, w2=w2,
                         score=back.get_score(), want=tr.get_score())
    # index edits (first, middle, last) on a kernel whose carry does not depend on the edited choice
    @gen
    def kadd(c, x):
        z = normal(c, 1.0) @ "z"
        return c + x, z
    sa = kadd.scan()
    args = (0.0, jnp.array([1., 10., 100., 1000.]))
    tr = sa.simulate(KEY, args)
    for i in (0, 1, 2, 3):
        new, w, rd, bwd = IndexRequest(jnp.array(i), Update(C.kw(z=0.5))).edit(KEY, tr, Diff.no_change(args))
        wf(new, f"scan.edit_index[idx={i} of 4]")
        if not close(w, new.get_score() - tr.get_score()):
            fail("scan.edit_index: weight != score change", idx=i, w=w)
    # regenerate and its backward request
    new, w, rd, bwd = Regenerate(S.all()).edit(KEY, tr, Diff.no_change(args))
    wf(new, "scan.edit_regenerate")
    if "C06.Scan.edit_regenerate" in OB:
        try:
            back = bwd.edit(KEY, new, Diff.no_change(args))[0]
            if not close(back.get_score(), tr.get_score()):
                fail("scan.edit_regenerate: applying the backward request does not restore the score")
        except NotImplementedError:
            fail("scan.edit_regenerate: the backward request (VectorRequest) is rejected by Scan.edit: NotImplementedError")
    # regenerate with changed scanned inputs (unchanged carry), also with an empty selection: every iteration is re-visited
    args2 = (0.0, jnp.array([2., 20., 200., 2000.]))
    for sel in (S.none(), S.all(), S.at["q"]):
        new, w, rd, _ = Regenerate(sel).edit(KEY, tr, (Diff(0.0, NoChange), Diff(args2[1], UnknownChange)))
        wf(new, f"scan.edit_regenerate[changed xs, {sel}]")
        if not (close(w, new.get_score() - tr.get_score()) and close(new.get_args()[1], args2[1]) and close(new.get_retval()[0], 2222.0)):
            fail("scan.edit_regenerate with changed scanned inputs: weight / arguments / final carry are not those of the loop on "
                 "the new inputs", selection=sel, w=w, want=new.get_score() - tr.get_score(), carry=new.get_retval()[0])
    g, gw = sa.importance(KEY, C.empty().at[1, "z"].set(0.5), args)
    wf(g, "scan.generate[partial constraint]")
    if close(g.get_score(), gw):
        fail("scan.generate with a partial constraint: the trace score equals the weight (sampled choices' densities missing)")
    step = gen(lambda x: normal(x, 1.0) @ "s")
    f = step.masked_iterate_final()
    tr = f.simulate(KEY, (0.0, jnp.array([True, False, True])))
    ch = tr.get_choices()
    if not close(tr.get_retval(), val(ch[2, "s"])):
        fail("masked_iterate_final: final value is not the last unmasked step's")
    two = step.iterate_final(n=2).simulate(KEY, (0.0,))
    wf(two, "iterate_final")
    # masked_iterate_final: non-prefix masks, and mask entries flipped by an update
    det = gen(lambda x: x + 1.0)
    fd = det.masked_iterate_final()
    t0 = fd.simulate(KEY, (0.0, jnp.array([True, True, True])))
    for newmask, want in (([True, False, True], 2.0), ([False, True, True], 2.0), ([False, False, False], 0.0)):
        nm = jnp.array(newmask)
        new, w, rd, bwd = fd.edit(KEY, t0, Update(C.empty()), (Diff(0.0, NoChange), Diff(nm, UnknownChange)))
        if not close(new.get_retval(), want):
            fail("masked_iterate_final.update: a step switched off still advances the value / switched on does not",
                 mask=newmask, got=new.get_retval(), want=want)
    ft = step.masked_iterate_final()
    g, w = ft.importance(KEY, C.empty().at[0, "s"].set(5.0).at[1, "s"].set(0.3), (0.0, jnp.array([False, True])))
    if not (close(g.get_retval(), 0.3) and close(g.get_score(), normal.assess(C.choice(0.3), (0.0, 1.0))[0])):
        fail("masked_iterate_final: a False step followed by a True step: the True step is not evaluated at the unchanged value",
             retval=g.get_retval(), score=g.get_score())


def static_family():
    @gen
    def model(a):
        x = normal(a, 1.0) @ "x"
        y = normal(x, 0.5) @ ("sub", "y")
        return x * y, 1.0
    tr = model.simulate(KEY, (0.2,))
    wf(tr, "static.simulate")
    if not ("x" in tr.get_choices() and ("sub", "y") in tr.get_choices()):
        fail("static: traced addresses missing from the choice map")
    g, w = model.importance(KEY, C.kw(x=0.7), (0.2,))
    wf(g, "static.generate")
    if not close(w, normal.assess(C.choice(0.7), (0.2, 1.0))[0]):
        fail("static.generate: weight != density of the constrained choice", w=w)
    g2, w2 = model.importance(KEY, C.d({("sub", "y"): 0.4}), (0.2,))       # a constraint at a tuple address
    wf(g2, "static.generate[tuple address]")
    if not (close(g2.get_choices()["sub", "y"], 0.4) and close(w2, normal.assess(C.choice(0.4), (g2.get_choices()["x"], 0.5))[0])):
        fail("static.generate: a constraint at a tuple address is not installed / not weighed", value=g2.get_choices()["sub", "y"], w=w2)
    for cons in (C.empty(), C.kw(x=1.1), C.d({("sub", "y"): 0.4})):
        for ad in (Diff.no_change((0.2,)), Diff.unknown_change((0.6,))):
            new, w, rd, bwd = model.edit(KEY, tr, Update(cons), ad)
            wf(new, "static.update")
            if not close(w, new.get_score() - tr.get_score()):
                fail("static.update: weight != score change", w=w)
            tang = Diff.tree_tangent(rd)
            prim_new, prim_old = new.get_retval(), tr.get_retval()
            for t, a, b in zip(jax.tree_util.tree_leaves(tang, is_leaf=lambda v: v is NoChange or v is UnknownChange),
                               jax.tree_util.tree_leaves(prim_new), jax.tree_util.tree_leaves(prim_old)):
                if t is NoChange and not close(a, b):
                    fail("static.update: a return-value leaf tagged NoChange changed", new=a, old=b)
            back, w2, _, _ = bwd.edit(KEY, new, Diff.unknown_change((0.2,)))
            if not (close(back.get_score(), tr.get_score()) and close(w2, -w)):
                fail("static.update: backward request does not restore", w=w, w2=w2)
    for sel in (S.at["x"], S.at["sub", "y"], ~S.at["x"], S.none(), S.all()):
      for rad in (Diff.no_change((0.2,)), Diff.unknown_change((0.6,))):
        new, w, rd, bwd = model.edit(jrand.fold_in(KEY, 98), tr, Regenerate(sel), rad)
        wf(new, "static.regenerate")
        if not close(w, new.get_score() - tr.get_score()):
            fail("static.regenerate: weight != score change", sel=sel, w=w, delta=new.get_score() - tr.get_score())
        if not close(new.get_args()[0], Diff.tree_primal(rad)[0]):
            fail("static.regenerate: new trace does not carry the new arguments", sel=sel)
        for addr in ("x", ("sub", "y")):
            if not sel[addr] and not close(new.get_choices()[addr], tr.get_choices()[addr]):
                fail("static.regenerate: unselected choice changed", addr=addr, sel=sel)
        p, pn = model.project(KEY, tr, sel), model.project(KEY, tr, ~sel)
        if not close(p + pn, tr.get_score()):
            fail("static.project: project(S)+project(~S) != score", sel=sel)

    @gen
    def shared_prefix(m):
        b = normal(m, 1.0) @ ("a", "b")
        c = normal(b, 2.0) @ ("a", "c")
        d = normal(c, 0.5) @ "d"
        return d
    t = shared_prefix.simulate(KEY, (0.1,))
    ch = t.get_choices()
    lp = {"b": normal.assess(C.choice(ch["a", "b"]), (0.1, 1.0))[0], "c": normal.assess(C.choice(ch["a", "c"]), (ch["a", "b"], 2.0))[0],
          "d": normal.assess(C.choice(ch["d"]), (ch["a", "c"], 0.5))[0]}
    for nm, s_, want in (("S['a']", S.at["a"], lp["b"] + lp["c"]), ("S['a','c']", S.at["a", "c"], lp["c"]),
                         ("S['a'] | S['d']", S.at["a"] | S.at["d"], lp["b"] + lp["c"] + lp["d"]), ("~S['a']", ~S.at["a"], lp["d"])):
        got = shared_prefix.project(KEY, t, s_)
        if not close(got, want):
            fail("static.project: not the sum of the selected choices' log-densities (addresses sharing a prefix)", sel=nm, got=got, want=want)

    # two tuple addresses sharing a first component with another address traced between them
    @gen
    def interleaved():
        b = normal(0.0, 1.0) @ ("a", "b")
        d = normal(b, 1.0) @ "d"
        c = normal(d, 1.0) @ ("a", "c")
        e = normal(c, 1.0) @ ("f", "g", "h")
        return normal(e, 1.0) @ ("f", "g", "i")
    ti = interleaved.simulate(KEY, ())
    chi = ti.get_choices()
    for a_ in (("a", "b"), "d", ("a", "c"), ("f", "g", "h"), ("f", "g", "i")):
        sub = ti.get_subtrace(a_)           # (a StaticTrace stores the sub-trace under the full address)
        if a_ not in chi or not close(chi[a_], sub.get_retval()):
            fail("StaticTrace.get_choices: a traced address is missing from (or has another value in) the choice map", addr=a_)
    wf(ti, "static.simulate[interleaved tuple addresses]")

    # a nested call site and selections reaching into the callee: regenerate keeps the unselected choices of the callee,
    # project sums the selected ones (complements and intersections that select strictly below the call site)
    @gen
    def outer(m):
        x = normal(m, 1.0) @ "x"
        s = inner(x) @ "sub"
        return s
    to = outer.simulate(KEY, (0.1,))
    cho = to.get_choices()
    lpo = {("x",): normal.assess(C.choice(cho["x"]), (0.1, 1.0))[0],
           ("sub", "x"): normal.assess(C.choice(cho["sub", "x"]), (cho["x"], 1.0))[0],
           ("sub", "y"): normal.assess(C.choice(cho["sub", "y"]), (cho["sub", "x"], 0.5))[0]}
    for nm, s_ in (("~S['sub','x']", ~S.at["sub", "x"]), ("S['sub','x'] & S.all()", S.at["sub", "x"] & S.all()),
                   ("S['sub','y'] & S['sub']", S.at["sub", "y"] & S.at["sub"]), ("S['sub'] & ~S['sub','y']", S.at["sub"] & ~S.at["sub", "y"]),
                   ("S['sub','x'] | S['x']", S.at["sub", "x"] | S.at["x"]), ("S['sub']", S.at["sub"])):
        want = sum(v for a, v in lpo.items() if s_[a])
        got = outer.project(KEY, to, s_)
        if not close(got, want):
            fail("static.project through a call site: not the sum of the selected choices' log-densities", sel=nm, got=got, want=want)
        # (a key other than the one the trace was simulated with: the same key would regenerate the same values)
        new, w, rd, bwd = outer.edit(jrand.fold_in(KEY, 99), to, Regenerate(s_), Diff.no_change((0.1,)))
        for a in lpo:
            if not s_[a] and not close(new.get_choices()[a], cho[a]):
                fail("static.regenerate through a call site: an unselected choice of the callee changed", sel=nm, addr=a)
        if not close(w, new.get_score() - to.get_score()):
            fail("static.regenerate through a call site: weight != score change", sel=nm, w=w)
        wf(new, "static.regenerate through a call site")

    @gen
    def dup():
        a = normal(0.0, 1.0) @ "x"
        b = normal(0.0, 1.0) @ "x"
        return a + b
    for op in ("simulate", "importance"):
        try:
            dup.simulate(KEY, ()) if op == "simulate" else dup.importance(KEY, C.empty(), ())
            fail(f"static.{op}: tracing the same address twice did not raise AddressReuse")
        except Exception as e:
            if type(e).__name__ != "AddressReuse":
                fail(f"static.{op}: wrong exception for address reuse", err=type(e).__name__)
    try:
        model.assess(C.kw(x=0.1), (0.2,))
        fail("static.assess: missing address did not raise MissingAddress")
    except Exception as e:
        if type(e).__name__ != "MissingAddress":
            fail("static.assess: wrong exception for a missing address", err=type(e).__name__)
    # tuple addresses that share components: duplicates written as one-component tuples, siblings missing from an assess sample

    def dup_tuple(addr):
        @gen
        def f():
            return normal(0.0, 1.0) @ addr + normal(0.0, 1.0) @ addr
        return f
    for addr in (("x",), ("a", "x")):
        for op in ("simulate", "importance"):
            try:
                dup_tuple(addr).simulate(KEY, ()) if op == "simulate" else dup_tuple(addr).importance(KEY, C.empty(), ())
                fail(f"static.{op}: tracing the tuple address {addr} twice did not raise AddressReuse")
            except Exception as e:
                if type(e).__name__ != "AddressReuse":
                    fail(f"static.{op}: wrong exception for reuse of a tuple address", addr=addr, err=type(e).__name__)

    @gen
    def callee2():
        return normal(0.0, 1.0) @ "z"

    @gen
    def siblings():
        p = normal(0.0, 1.0) @ ("n", "p")
        q = callee2() @ ("n", "q")
        r = normal(0.0, 1.0) @ ("n", "r")
        return p + q + r
    for sample, want in ((C.d({("n", "p"): 0.1, ("n", "q", "z"): 0.2}), ("n", "r")), (C.d({("n", "p"): 0.1, ("n", "r"): 0.3}), None)):
        try:
            siblings.assess(sample, ())
            fail("static.assess: a visited address missing from the sample (its sibling is supplied) did not raise MissingAddress")
        except Exception as e:
            if type(e).__name__ != "MissingAddress" or (want is not None and e.args[0] != want):
                fail("static.assess: a missing sibling address is not reported as MissingAddress(that address)", err=f"{type(e).__name__}{e.args}", want=want)
    # update with a structured argument (a tuple) one of whose leaves changes at an unconstrained call site

    @gen
    def takes_pair(pair):
        return normal(pair[0] + pair[1], 1.0) @ "w"

    @gen
    def outer(a):
        u = normal(a, 1.0) @ "u"
        w = takes_pair((u, 1.0)) @ "c"
        return w
    t0 = outer.simulate(KEY, (0.0,))
    new, w, rd, _ = outer.edit(KEY, t0, Update(C.kw(u=2.5)), Diff.no_change((0.0,)))
    wf(new, "static.update[structured callee argument changed through an upstream constraint]")
    s_ref, _ = outer.assess(new.get_choices(), (0.0,))
    if not (close(new.get_score(), s_ref) and close(w, s_ref - t0.get_score())):
        fail("static.update: a callee whose STRUCTURED argument changed (its own address unconstrained) is not re-scored",
             score=new.get_score(), assess=s_ref, w=w, want=s_ref - t0.get_score())


def closure_family():
    @gen
    def m(a, b, scale=1.0):
        return normal(a + b, scale) @ "x"
    cl = m(1.0)
    tr = cl.simulate(KEY, (2.0,))
    ref = m.simulate(KEY, (1.0, 2.0))
    if not close(tr.get_score(), ref.get_score()):
        fail("closure.simulate differs from the underlying function with stored args prepended")
    s1, s2 = cl.assess(C.kw(x=0.3), (2.0,))[0], m.assess(C.kw(x=0.3), (1.0, 2.0))[0]
    if not close(s1, s2):
        fail("closure.assess differs")
    (gt, gw), (rt, rw0) = cl.generate(KEY, C.kw(x=0.3), (2.0,)), m.generate(KEY, C.kw(x=0.3), (1.0, 2.0))
    if not (close(gw, rw0) and close(gw, s2) and gt.get_args() == rt.get_args()):
        fail("closure.generate: weight is not the density of the constrained choice at stored + call-time args", w=gw, want=rw0)
    gt2, gw2 = cl.importance(KEY, C.kw(x=0.3), (2.0,))
    if not close(gw2, s2):
        fail("closure.importance: weight differs from assess on a full constraint", w=gw2, want=s2)
    new, w, rd, bwd = cl.edit(KEY, tr, Update(C.kw(x=0.5)), Diff.no_change((3.0,)))
    rnew, rw, _, _ = m.edit(KEY, ref, Update(C.kw(x=0.5)), Diff.unknown_change((1.0, 3.0)))
    if not (close(w, rw) and new.get_args() == (1.0, 3.0)):
        fail("closure.edit differs from the underlying edit with stored args prepended", w=w, rw=rw, args=new.get_args())
    kw = m(1.0, scale=2.0)
    t2 = kw.simulate(KEY, (2.0,))
    if not close(t2.get_score(), normal.assess(C.choice(t2.get_choices()["x"]), (3.0, 2.0))[0]):
        fail("closure with kwargs: score is not the density with the keyword merged")
    # partially applied arguments together with a keyword argument, and handle_kwargs of a partially applied function
    pa = m.partial_apply(1.0)
    want = m.assess(C.kw(x=0.3), (1.0, 2.0, 3.0))[0]
    for nm, thunk in (("partial_apply(1.0)(2.0, scale=3.0).assess", lambda: pa(2.0, scale=3.0).assess(C.kw(x=0.3), ())[0]),
                      ("partial_apply(1.0).handle_kwargs().assess", lambda: pa.handle_kwargs().assess(C.kw(x=0.3), ((2.0,), {"scale": 3.0}))[0]),
                      ("handle_kwargs().assess", lambda: m.handle_kwargs().assess(C.kw(x=0.3), ((1.0, 2.0), {"scale": 3.0}))[0])):
        try:
            got = thunk()
            if not close(got, want):
                fail("handle_kwargs: differs from the positional call with the stored arguments prepended and the keywords merged", call=nm, got=got, want=want)
        except TypeError as e:
            fail("handle_kwargs: raises where the positional call does not", call=nm, err=str(e).splitlines()[0][:120])


def smc_family():
    """C26 on the real SMC algorithms: per-particle weight identities on an enumerable discrete target"""
    from genjax import Target, categorical, flip, marginal
    from genjax.inference.smc import ChangeTarget, Importance, ImportanceK
    P1, P2 = jnp.array([0.0, 0.5, -0.5]), jnp.array([[0.0, 1.0], [0.7, -0.3], [-1.0, 0.2]])
    PY = jnp.array([[0.2, 0.5], [0.9, 0.35], [0.6, 0.1]])
    Q1, Q2 = jnp.array([0.3, -0.2, 0.1]), jnp.array([[0.5, 0.0], [0.0, 0.4], [0.3, 0.3]])

    @gen
    def model():
        x1 = categorical(P1) @ "x1"
        x2 = categorical(P2[x1]) @ "x2"
        _ = flip(PY[x1, x2]) @ "y"
        return x1, x2

    @marginal()
    @gen
    def partial_proposal(target):
        _ = categorical(Q1) @ "x1"

    @marginal()
    @gen
    def full_proposal(target):
        x1 = categorical(Q1) @ "x1"
        _ = categorical(Q2[x1]) @ "x2"
    lp1, lp2 = jax.nn.log_softmax(P1), jax.nn.log_softmax(P2, axis=-1)
    lq1, lq2 = jax.nn.log_softmax(Q1), jax.nn.log_softmax(Q2, axis=-1)
    lj = lambda y: lp1[:, None] + lp2 + jnp.log(PY if y else 1.0 - PY)
    target = Target(model, (), C.kw(y=True))
    cases = (("Importance (no proposal)", Importance(target), lambda a, b: lp1[a] + lp2[a, b]),
             ("Importance (full proposal)", Importance(target, full_proposal), lambda a, b: lq1[a] + lq2[a, b]),
             ("Importance (proposal for a subset of the latents)", Importance(target, partial_proposal), lambda a, b: lq1[a] + lp2[a, b]),
             ("ImportanceK (full proposal)", ImportanceK(target, full_proposal, 6), lambda a, b: lq1[a] + lq2[a, b]))
    for label, alg, logq in cases:
        for k in range(4):
            pc = alg.run_smc(jrand.key(k))
            ch = pc.get_particles().get_choices()
            x1, x2 = ch["x1"], ch["x2"]
            if not bool(jnp.all(ch["y"] == 1)):
                fail(f"{label}: a particle does not satisfy the target's constraint")
            want = lj(True)[x1, x2] - logq(x1, x2)
            if not close(pc.get_log_weights(), want):
                fail(f"{label}: log-weight != log p(particle, observations) - log proposal density", got=pc.get_log_weights(), want=want)
    # the SampleDistribution face: random_weighted(key, target') returns only what target' leaves unconstrained, whatever the
    # algorithm's own target constrains; the evidence estimate averages over ALL particles, those of weight zero included
    from genjax._src.inference.smc import ParticleCollection
    for label, alg in (("Importance", Importance(target)), ("ImportanceK", ImportanceK(target, full_proposal, 4))):
        for t2, want_addrs in ((Target(model, (), C.kw(y=True, x2=1)), {"x1"}), (Target(model, (), C.kw(x1=2)), {"x2", "y"})):
            _, ch = alg.random_weighted(jrand.key(3), t2)
            got = {a for a in ("x1", "x2", "y") if a in ch}
            if got != want_addrs:
                fail(f"{label}.random_weighted: the returned choices are not exactly those the GIVEN target leaves unconstrained",
                     got=sorted(got), want=sorted(want_addrs))
    pc0 = Importance(target).run_smc(jrand.key(0))
    stacked = jax.tree_util.tree_map(lambda v: jnp.stack([v[0]] * 4), pc0.get_particles())
    for lw in ([-jnp.inf, 0.0, -jnp.inf, jnp.log(2.0)], [0.0, 0.0, 0.0, 0.0], [-jnp.inf, -1.0, -2.0, -3.0]):
        lw = jnp.array(lw)
        got = ParticleCollection(stacked, lw, jnp.array(True)).get_log_marginal_likelihood_estimate()
        if not close(got, jnp.log(jnp.mean(jnp.exp(lw)))):
            fail("ParticleCollection: the log evidence estimate is not the log of the MEAN weight over all particles", log_weights=lw,
                 got=got, want=jnp.log(jnp.mean(jnp.exp(lw))))
    # ChangeTarget: new target observes fewer / other values at the same addresses
    t_old = Target(model, (), C.kw(y=True, x2=1))
    for label, t_new, newlj in (("same addresses, other value", Target(model, (), C.kw(y=False, x2=1)), lambda a, b: lj(False)[a, b]),
                                # x2 becomes latent again: it is re-drawn from the model, whose density cancels
                                ("fewer constrained addresses", Target(model, (), C.kw(y=True)), lambda a, b: lp1[a] + jnp.log(PY[a, b]))):
        for k in range(3):
            prev = Importance(t_old)
            pc0 = prev.run_smc(jrand.key(k))
            pc = ChangeTarget(prev, t_new).run_smc(jrand.key(k))
            ch0, ch = pc0.get_particles().get_choices(), pc.get_particles().get_choices()
            x1, x2 = ch["x1"], ch["x2"]
            inc = newlj(x1, x2) - lj(True)[ch0["x1"], ch0["x2"]]
            if not close(pc.get_log_weights() - pc0.get_log_weights(), inc):
                fail(f"ChangeTarget ({label}): weight increment != log new-target density - log old-target density of the particle",
                     got=pc.get_log_weights() - pc0.get_log_weights(), want=inc)
            if label.startswith("same") and not bool(jnp.all(ch["y"] == 0)):
                fail("ChangeTarget: particle does not carry the new target's constraint")


def choice_map_family():
    """C17 on the real classes: lookups against a reference finite map (value, present?)"""
    def look(m, *addr):
        if m is None:
            return (False, None)
        v = m.get_submap(*addr).get_value()
        if v is None:
            return (False, None)
        if isinstance(v, Mask):
            return (bool(jnp.all(v.primal_flag())), float(jnp.ravel(jnp.asarray(v.value))[0]))
        return (True, float(jnp.ravel(jnp.asarray(v))[0]))

    def expect(what, m, ref, addrs):
        for a in addrs:
            try:
                got = look(m, *a)
            except Exception as e:
                got = ("raised", type(e).__name__)
            want = ref.get(a, (False, None))
            if got[0] != want[0] or (want[0] is True and abs(got[1] - want[1]) > 1e-6):
                fail(f"choice map {what}: lookup disagrees with the reference finite map", addr=a, got=got, want=want)
    m1, m2 = C.d({"x": 1.0, ("g", "y"): 2.0}), C.d({"x": 3.0, ("g", "z"): 4.0})
    A2 = [("x",), ("g", "y"), ("g", "z"), ("y",), ("g", "x")]
    expect("|", m1 | m2, {("x",): (True, 1.0), ("g", "y"): (True, 2.0), ("g", "z"): (True, 4.0)}, A2)
    expect("mask(False)", (m1 | m2).mask(False), {}, A2)
    expect("mask(traced True)", m1.mask(jnp.array(True)), {("x",): (True, 1.0), ("g", "y"): (True, 2.0)}, A2)
    expect("filter", (m1 | m2).filter(S.at["g"]), {("g", "y"): (True, 2.0), ("g", "z"): (True, 4.0)}, A2)
    expect("filter complement", (m1 | m2).filter(~S.at["g"]), {("x",): (True, 1.0)}, A2)
    for kind, mk in (("int", lambda i: i), ("array", lambda i: jnp.array(i))):
        # a branch without choices keeps its position (first / in the middle)
        for order in ((None, "x", "y"), ("x", None, "y")):
            for k in (0, 1, 2):
                br = [C.empty() if o is None else C.kw(**{o: 5.0 + j}) for j, o in enumerate(order)]
                want = {} if order[k] is None else {(order[k],): (True, 5.0 + k)}
                expect(f"switch[{kind} index {k}] over {order}", C.switch(mk(k), br), want, [("x",), ("y",)])
        for k in (0, 1):
            sw = C.switch(mk(k), [C.kw(x=10.0), C.kw(x=20.0, y=30.0)])
            plain = C.kw(x=9.0)
            ref_l = {("x",): (True, 9.0)}
            ref_r = {("x",): (True, 10.0 if k == 0 else 20.0)}
            if k == 1:
                ref_l[("y",)] = (True, 30.0)
                ref_r[("y",)] = (True, 30.0)
            expect(f"plain | switch[{kind} index {k}] (left-biased)", plain | sw, ref_l, [("x",), ("y",)])
            expect(f"switch[{kind} index {k}] | plain (left-biased)", sw | plain, ref_r, [("x",), ("y",)])
    u = C.entry(1.0, 0, "x") | C.entry(2.0, 1, "y")
    full = {(0, "x"): (True, 1.0), (1, "y"): (True, 2.0)}
    AI = [(0, "x"), (0, "y"), (1, "x"), (1, "y")]
    expect("index-level union", u, full, AI)
    expect("index-level union .filter(x)", u.filter(S.at["x"]), {(0, "x"): (True, 1.0)}, AI)
    expect("index-level union .filter(~x)", u.filter(~S.at["x"]), {(1, "y"): (True, 2.0)}, AI)
    expect("index-level union .mask(False)", u.mask(False), {}, AI)
    expect("index-level union .mask(traced False)", u.mask(jnp.array(False)), {}, AI)
    for k in (0, 1):
        sw2 = C.switch(jnp.array(k), [u, C.empty()])
        expect(f"switch[{k}] over an index-level union", sw2, full if k == 0 else {}, AI)
    n1, n2 = C.d({("p", "q", "x"): 1.0, ("p", "r"): 2.0}), C.d({("p", "q", "y"): 3.0, ("p", "q", "x"): 4.0, ("p", "s"): 4.0})
    A3 = [("p", "q", "x"), ("p", "q", "y"), ("p", "r"), ("p", "s"), ("p", "q"), ("p",), ("q",)]
    expect("| below a shared prefix of length two", n1 | n2,
           {("p", "q", "x"): (True, 1.0), ("p", "q", "y"): (True, 3.0), ("p", "r"): (True, 2.0), ("p", "s"): (True, 4.0)}, A3)
    if not bool((n1 | n2).get_selection()["p", "q", "y"]):
        fail("choice map get_selection of a deep union misses an address of the right operand")
    lm = C.kw(x=1.0).mask(jnp.array(False)) | C.kw(x=2.0)
    expect("masked-off (traced flag) left leaf falls through under a static level", lm, {("x",): (True, 2.0)}, [("x",)])
    sel = (m1 | m2).get_selection()
    for a, want in ((("x",), True), (("g", "y"), True), (("g",), False), (("q",), False)):
        if bool(sel[a]) != want:
            fail("choice map get_selection: does not select exactly the map's addresses", addr=a)


def time_travel_family():
    """C31 on the real debugger: final value, one frame per recorded call in order, navigation bounds, remix"""
    from genjax._src.core.compiler.interpreters.time_travel import rec, time_machine
    g1, g2 = (lambda v: v * 2.0), (lambda v: v - 3.0)

    def f(x):
        y = rec(g1, "double")(x)
        w = rec(g2, "minus")(y + 1.0)
        return w * 10.0
    for x in (1.5, -2.0):
        d = time_machine(f)(x)
        if not close(d.final_retval, f(x)):
            fail("time_machine: final_retval != f(args)", got=d.final_retval, want=f(x))
        want = [((x,), f(x)), ((x,), g1(x)), ((g1(x) + 1.0,), g2(g1(x) + 1.0)), ((f(x),), f(x))]
        if len(d.sequence) != 4:
            fail("time_machine: not one frame per recorded call", frames=len(d.sequence))
        else:
            for i, (fr, (a, r)) in enumerate(zip(d.sequence, want)):
                if not (close(fr.args[0], a[0]) and close(fr.local_retval, r)):
                    fail("time_machine: frame does not hold the call's arguments / local return value", frame=i)
            if d.jump_points != {"_enter": 0, "double": 1, "minus": 2, "exit": 3}:
                fail("time_machine: jump points are not the frame positions", jp=d.jump_points)
            e = d
            for _ in range(6):
                e = e.fwd()
            if e.ptr != 3 or d.bwd().ptr != 0 or d.fwd().bwd().ptr != 0 or d.jump("minus").ptr != 2:
                fail("debugger: jump/fwd/bwd leave the recorded frames or miss a frame", fwd6=e.ptr)
            r = d.jump("minus").remix(100.0)
            if not (close(r.final_retval, (100.0 - 3.0) * 10.0) and len(r.sequence) == 4 and close(r.sequence[2].local_retval, 97.0)
                    and close(r.sequence[1].local_retval, g1(x))):
                fail("debugger.remix: not f re-run with that call recomputed from the new arguments", final=r.final_retval)
            r1 = d.jump("double").remix(5.0)
            if not close(r1.final_retval, ((5.0 * 2.0 + 1.0) - 3.0) * 10.0):
                fail("debugger.remix at an earlier frame: later record points are not re-run", final=r1.final_retval)
    # record points that do NOT depend on the previous recorded call (their arguments are concrete when a continuation is
    # replayed), and a tag whose result is discarded
    from genjax._src.core.compiler.interpreters.time_travel import tag

    def indep(x, y):
        a = rec(g1, "a")(x)
        b = rec(g2, "b")(y)
        tag(y, "t")
        c = rec(lambda u, v: u + v, "c")(a, b)
        return c
    d = time_machine(indep)(1.0, 2.0)
    tags = [k for k, _ in sorted(d.jump_points.items(), key=lambda kv: kv[1])]
    if tags != ["_enter", "a", "b", "t", "c", "exit"] or len(d.sequence) != 6:
        fail("time_machine: not one frame per recorded call when a record point does not depend on the previous one", tags=tags,
             frames=len(d.sequence))
    elif not close(d.final_retval, indep(1.0, 2.0)):
        fail("time_machine: final_retval != f(args) (independent record points)")
    else:
        r = d.jump("a").remix(5.0)
        tags2 = [k for k, _ in sorted(r.jump_points.items(), key=lambda kv: kv[1])]
        if tags2 != tags or not close(r.final_retval, 5.0 * 2.0 + (2.0 - 3.0)):
            fail("debugger.remix: the re-recorded tail misses frames / wrong value (independent record points)", tags=tags2, final=r.final_retval)
    # an UNTAGGED recorded call before tagged ones: a tag's jump point is the frame's POSITION, not the number of tags seen

    def untagged_first(x):
        a = rec(g1)(x)                 # no tag
        b = rec(g2, "mid")(a)
        return rec(g1, "last")(b)
    d = time_machine(untagged_first)(1.0)
    for t_, want_local in (("mid", g2(g1(1.0))), ("last", g1(g2(g1(1.0))))):
        j = d.jump(t_)
        if not (close(j.sequence[j.ptr].local_retval, want_local) and j.frame()[0] == t_):
            fail("debugger.jump(tag) does not land on the tagged frame when an untagged call was recorded before it", tag=t_,
                 ptr=j.ptr, jump_points=d.jump_points)
    r = d.jump("mid").remix(10.0)
    if not close(r.final_retval, g1(g2(10.0))):
        fail("debugger.jump(tag).remix(...) re-runs another frame than the tagged one", final=r.final_retval, want=g1(g2(10.0)))


def diff_family():
    """C21: Diff helpers on plain, fully tagged and mixed trees"""
    import itertools
    tu = jax.tree_util
    is_d = lambda x: isinstance(x, Diff)

    def trees(t1, t2):
        da, db = Diff(1.0, t1), Diff(2.0, t2)
        yield "leaf", da, 1.0, [t1]
        yield "tuple", (da, db), (1.0, 2.0), [t1, t2]
        yield "raw_first", (1.0, db), (1.0, 2.0), [t2]
        yield "raw_last", (da, 2.0), (1.0, 2.0), [t1]
        yield "nested", (da, {"x": 2.0, "y": (True, db)}), (1.0, {"x": 2.0, "y": (True, 2.0)}), [t1, t2]
        yield "dataclass", (Mask(da, True), 2.0), (Mask(1.0, True), 2.0), [t1]
        yield "plain", (1.0, 2.0), (1.0, 2.0), []
    same = lambda x, y: tu.tree_structure(x) == tu.tree_structure(y) and all(
        close(a, b) for a, b in zip(tu.tree_leaves(x), tu.tree_leaves(y)))
    for t1, t2 in itertools.product((NoChange, UnknownChange), repeat=2):
        for name, tree, plain, tangents in trees(t1, t2):
            tags = f"{name}[{type(t1).__name__},{type(t2).__name__}]"
            allnc = all(t is NoChange for t in tangents)
            if Diff.static_check_no_change(tree) != allnc:
                fail("Diff.static_check_no_change is not 'every tangent is NoChange'", tree=tags)
            if not same(Diff.tree_primal(tree), plain):
                fail("Diff.tree_primal does not strip exactly the Diff leaves", tree=tags)
            all_diff = all(is_d(l) for l in tu.tree_leaves(tree, is_leaf=is_d))
            if Diff.static_check_tree_diff(tree) != all_diff:
                fail("Diff.static_check_tree_diff is not 'every leaf is a Diff'", tree=tags)
            for fn, want in ((Diff.no_change, True), (Diff.unknown_change, False)):
                r = fn(tree)
                if not same(Diff.tree_primal(r), plain):
                    fail(f"Diff.{fn.__name__} changes the primal values / structure", tree=tags)
                if not Diff.static_check_tree_diff(r):
                    fail(f"Diff.{fn.__name__} does not return a full diff tree", tree=tags)
                if Diff.static_check_no_change(r) != want:
                    fail(f"Diff.{fn.__name__} does not tag every leaf", tree=tags, got=Diff.static_check_no_change(r))
                leaf_tags = [l.tangent for l in tu.tree_leaves(r, is_leaf=is_d) if is_d(l)]
                if len(leaf_tags) != len(tu.tree_leaves(plain)) or not all((t is NoChange) == want for t in leaf_tags):
                    fail(f"Diff.{fn.__name__}: not EVERY leaf carries the tag (or the leaves were regrouped)", tree=tags,
                         got=[type(t).__name__ for t in leaf_tags])
            tg = Diff.tree_tangent(tree)
            back = Diff.tree_diff(plain, tg)
            if not (same(Diff.tree_primal(back), plain) and Diff.static_check_no_change(back) == allnc):
                fail("Diff.tree_diff(tree_primal(t), tree_tangent(t)) does not rebuild t's tags", tree=tags)


def staging_family():
    """C20: FlagOp logic for Python-bool / array / mixed operands (eager and under jit), tree_choose = element idx mod n,
    multi_switch runs the branch at the clamped index and leaves zero placeholders elsewhere - Python-int, array and jitted
    indices incl. negative and out-of-range ones"""
    import itertools
    from genjax._src.core.compiler.staging import FlagOp, multi_switch, tree_choose
    kinds = {"bool": lambda b: b, "array": lambda b: jnp.array(b)}
    ops = {"and_": lambda a, b: a and b, "or_": lambda a, b: a or b, "xor_": lambda a, b: a != b}
    for (ka, fa), (kb, fb) in itertools.product(kinds.items(), repeat=2):
        for a, b in itertools.product((True, False), repeat=2):
            for nm, py in ops.items():
                got = getattr(FlagOp, nm)(fa(a), fb(b))
                if bool(jnp.all(got)) != py(a, b) or jnp.shape(got) != ():
                    fail(f"FlagOp.{nm}: not the Boolean connective", a=a, b=b, kinds=f"{ka},{kb}", got=got)
                if ka == "array" or kb == "array":
                    j = jax.jit(lambda x, y: getattr(FlagOp, nm)(x if ka == "array" else a, y if kb == "array" else b))(jnp.array(a), jnp.array(b))
                    if bool(j) != py(a, b):
                        fail(f"FlagOp.{nm} under jit: not the Boolean connective", a=a, b=b, kinds=f"{ka},{kb}")
    for ka, fa in kinds.items():
        for a in (True, False):
            if bool(FlagOp.not_(fa(a))) != (not a):
                fail("FlagOp.not_", a=a, kind=ka)
            if not close(FlagOp.where(fa(a), 1.0, 2.0), 1.0 if a else 2.0):
                fail("FlagOp.where", a=a, kind=ka)
    v = jnp.array([True, False, True])
    for nm, py in ops.items():
        for b in (True, False):
            got = getattr(FlagOp, nm)(v, b)
            want = jnp.array([py(bool(x), b) for x in v])
            if jnp.shape(got) != (3,) or not bool(jnp.all(got == want)):
                fail(f"FlagOp.{nm}: vector flag against a Python bool", b=b, got=got)
    vals = [(1.0, {"u": 10.0}), (2.0, {"u": 20.0}), (3.0, {"u": 30.0})]
    for idx in (-4, -1, 0, 1, 2, 3, 7):
        for kind, mk in (("int", lambda i: i), ("array", lambda i: jnp.array(i))):
            r = tree_choose(mk(idx), vals)
            if not (close(r[0], vals[idx % 3][0]) and close(r[1]["u"], vals[idx % 3][1]["u"])):
                fail("tree_choose: not element idx mod n", idx=idx, kind=kind, got=r)
    fs3 = [lambda x: x + 1.0, lambda x: x * 10.0, lambda x: jnp.stack([x, x])]
    args3 = [(1.0,), (2.0,), (3.0,)]
    outs3 = [2.0, 20.0, jnp.array([3.0, 3.0])]
    for nb in (3, 2):          # (two branches separately: a two-way switch is the obvious candidate for a cond-based shortcut)
        fs, args, outs = fs3[:nb], args3[:nb], outs3[:nb]
        for idx in (-7, -3, -2, -1, 0, 1, 2, 3, 10):
            c = min(max(idx, 0), nb - 1)
            for kind, run in (("int", lambda i: multi_switch(i, fs, args)), ("array", lambda i: multi_switch(jnp.array(i), fs, args)),
                              ("jit", lambda i: jax.jit(lambda t: multi_switch(t, fs, args))(jnp.array(i)))):
                try:
                    r = run(idx)
                except Exception as e:
                    fail("multi_switch raises", idx=idx, kind=kind, branches=nb, error=type(e).__name__)
                    continue
                for j in range(nb):
                    want = outs[j] if j == c else jnp.zeros_like(outs[j])
                    if jnp.shape(r[j]) != jnp.shape(want) or not close(r[j], want):
                        fail("multi_switch: slot j is not (branch output if j == clamp(idx) else zeros)", idx=idx, kind=kind, branches=nb,
                             slot=j, got=r[j])


def invalid_subset_family():
    """C33: ChoiceMap.invalid_subset against the addresses a model can trace (static, nested, vmap, switch incl. a bare
    distribution branch before a structured one, sub-addresses below a leaf)"""
    @gen
    def sub():
        a = normal(0.0, 1.0) @ "a"
        b = normal(a, 1.0) @ "b"
        return b

    @gen
    def model():
        x = normal(0.0, 1.0) @ "x"
        y = sub() @ "y"
        v = sub.repeat(n=2)() @ "v"
        return x
    ok = [C.kw(x=1.0), C.d({"x": 1.0, ("y", "a"): 0.5}), C.d({("y", "a"): 0.5, ("y", "b"): 0.1}), C.empty()]
    for c in ok:
        if c.invalid_subset(model, ()) is not None:
            fail("invalid_subset: a constraint made only of traceable addresses is reported", constraint=c)
    bad = [(C.kw(q=1.0), [("q",)]), (C.d({"x": 1.0, ("y", "zz"): 2.0}), [("y", "zz")]), (C.d({("x", "deep"): 1.0}), [("x", "deep")]),
           (C.d({("y", "a", "sub"): 1.0, "x": 0.3}), [("y", "a", "sub")])]
    for c, addrs in bad:
        r = c.invalid_subset(model, ())
        if r is None:
            fail("invalid_subset: an untraceable address is not reported", constraint=c, want=addrs)
            continue
        for ad in addrs:
            if ad not in r:
                fail("invalid_subset: the reported map misses an untraceable address", addr=ad)
        if "x" in r:
            fail("invalid_subset: a traceable address is reported")
    for order, sw in (("leaf first", genjax.switch(normal, sub)), ("structured first", genjax.switch(sub, normal))):
        a_leaf, a_sub = (0.0, 1.0), ()
        args = (0, a_leaf, a_sub) if order == "leaf first" else (0, a_sub, a_leaf)
        for c in (C.kw(a=0.5), C.kw(a=0.5, b=0.2), C.choice(0.3)):
            if c.invalid_subset(sw, args) is not None:
                fail("invalid_subset(switch): an address traced by one of the branches is reported", order=order, constraint=c)
        if C.kw(nope=1.0).invalid_subset(sw, args) is None:
            fail("invalid_subset(switch): an address no branch traces is not reported", order=order)


def derived_family():
    """C38: propose / importance / Trace.update / Trace.edit / Trace.project against the primitive GFI methods; EmptyRequest
    (identity on unchanged arguments, an empty Update otherwise - return-value change tag included); StaticRequest (addressed
    sites get their sub-request, all others an EmptyRequest) against the equivalent Update"""
    from genjax._src.core.generative.requests import EmptyRequest
    from genjax._src.generative_functions.static import StaticRequest

    @gen
    def callee(loc):
        eps = normal(0.0, 1.0) @ "eps"
        return loc + eps

    @gen
    def model(a):
        x = normal(a, 1.0) @ "x"
        y = callee(x) @ "y"
        z = normal(y, 0.5) @ "z"
        return z
    key = jrand.key(4)
    tr = model.simulate(key, (0.3,))
    ch, sc, rv = model.propose(key, (0.3,))
    if not (close(sc, tr.get_score()) and close(rv, tr.get_retval()) and close(ch["x"], tr.get_choices()["x"])):
        fail("propose is not (choices, score, retval) of simulate with the same key")
    c = C.kw(x=0.7)
    t1, w1 = model.importance(key, c, (0.3,))
    t2, w2 = model.generate(key, c, (0.3,))
    if not (close(w1, w2) and close(t1.get_score(), t2.get_score())):
        fail("importance differs from generate")
    same = lambda a, b: (close(a[0].get_score(), b[0].get_score()) and close(a[1], b[1]) and close(a[0].get_args()[0], b[0].get_args()[0])
                         and all(close(p, q) for p, q in zip(jax.tree_util.tree_leaves(a[0].get_choices()), jax.tree_util.tree_leaves(b[0].get_choices())))
                         and Diff.static_check_no_change(a[2]) == Diff.static_check_no_change(b[2]))
    for ad in (Diff.no_change((0.3,)), Diff.unknown_change((1.1,))):
        for req in (Update(c), Regenerate(S.at["z"]), Update(C.empty())):
            a = tr.edit(key, req, ad)
            b = model.edit(key, tr, req, ad)
            if not same(a, b):
                fail("Trace.edit(key, request, argdiffs) differs from gen_fn.edit(key, trace, request, argdiffs)", request=type(req).__name__,
                     changed=not Diff.static_check_no_change(ad), w=a[1], want=b[1], score=a[0].get_score(), want_score=b[0].get_score())
        a = tr.update(key, c, ad)
        b = model.edit(key, tr, Update(c), ad)
        if not same(a, b):
            fail("Trace.update differs from gen_fn.edit with Update", changed=not Diff.static_check_no_change(ad))
    if not close(tr.project(key, S.at["x"]), model.project(key, tr, S.at["x"])):
        fail("Trace.project differs from gen_fn.project")
    e = EmptyRequest().edit(key, tr, Diff.no_change((0.3,)))
    if not (close(e[1], 0.0) and close(e[0].get_score(), tr.get_score()) and Diff.static_check_no_change(e[2])):
        fail("EmptyRequest on unchanged arguments is not the identity with weight 0")
    for target, args0, args1 in ((model, (0.3,), (1.1,)), (callee, (0.2,), (0.9,))):
        t0 = target.simulate(key, args0)
        e = EmptyRequest().edit(key, t0, Diff.unknown_change(args1))
        u = Update(C.empty()).edit(key, t0, Diff.unknown_change(args1))
        if not same(e, u) or not close(Diff.tree_primal(e[2]), Diff.tree_primal(u[2])):
            fail("EmptyRequest on changed arguments differs from an empty Update (trace, weight or return-value change tag)",
                 target=target.__class__.__name__, w=e[1], want=u[1], tag=Diff.static_check_no_change(e[2]), want_tag=Diff.static_check_no_change(u[2]))
    sr = StaticRequest({"x": Update(C.choice(0.9))})
    a = sr.edit(key, tr, Diff.no_change((0.3,)))
    b = model.edit(key, tr, Update(C.kw(x=0.9)), Diff.no_change((0.3,)))
    if not same(a, b):
        fail("StaticRequest{x: Update} differs from the equivalent Update (unaddressed sites downstream of the change)", w=a[1], want=b[1],
             score=a[0].get_score(), want_score=b[0].get_score())
    # a StaticRequest under changed arguments: the new trace holds the NEW arguments (an empty one is an EmptyRequest)
    for sr_ in (StaticRequest({}), StaticRequest({"z": Update(C.choice(0.4))})):
        n_ = sr_.edit(key, tr, Diff.unknown_change((1.1,)))
        if not close(n_[0].get_args()[0], 1.1):
            fail("StaticRequest with changed arguments: the new trace does not hold the new arguments", args=n_[0].get_args()[0], want=1.1)
        if not close(n_[1], n_[0].get_score() - tr.get_score()):
            fail("StaticRequest with changed arguments: weight != score change", w=n_[1])
    # the backward request of a StaticRequest that addresses a LATER site only / lists the sites out of program order
    for addressed in ({"z": Update(C.choice(0.4))}, {"z": Update(C.choice(0.4)), "x": Update(C.choice(-0.2))}):
        f_ = StaticRequest(addressed).edit(key, tr, Diff.no_change((0.3,)))
        back = f_[3].edit(jrand.fold_in(key, 5), f_[0], Diff.no_change((0.3,)))
        if not (close(back[1], -f_[1]) and close(back[0].get_score(), tr.get_score())
                and all(close(back[0].get_choices()[a_], tr.get_choices()[a_]) for a_ in ("x", "z"))):
            fail("StaticRequest: the backward request does not restore the addressed sites with weight -w", sites=sorted(addressed),
                 w=f_[1], w_back=back[1])


def stateful_family():
    """C36: a handler that handles nothing is transparent - same values AND dtypes as ordinary evaluation for programs with
    cond / scan / while, Python-scalar arguments meeting narrow dtypes, closed-over constants, and an unhandled initial-style
    primitive whose wrapped function closes over a constant, a traced intermediate, a cond result"""
    import numpy as np
    from genjax._src.core.compiler.initial_style_primitive import InitialStylePrimitive, initial_style_bind
    from genjax._src.core.compiler.interpreters.stateful import StatefulHandler, stateful

    class Null(StatefulHandler):
        def handles(self, primitive):
            return False

        def dispatch(self, primitive, *args, **kwargs):
            raise AssertionError("unreachable")
    call_p = InitialStylePrimitive("verif_call")
    call = lambda f, *a: initial_style_bind(call_p)(f)(*a)
    TABLE = jnp.array([10.0, 20.0, 30.0])

    def traced_closure(x):
        y = x * 2.0
        return call(lambda z: (z + y, jnp.where(z > 1.0, y, -y)), x + 1.0)

    def traced_closure_ref(x):
        y, z = x * 2.0, x + 1.0
        return z + y, jnp.where(z > 1.0, y, -y)

    def cond_closure(x):
        s = jax.lax.cond(x.sum() > 0, lambda: x, lambda: -x)
        return call(lambda z: z * s, jnp.ones_like(x))
    x = jnp.arange(3.0)
    progs = [
        ("arith+cond+scan", lambda a: jax.lax.cond(a.sum() > 1, lambda: jax.lax.scan(lambda c, s: (c + s, c * s), 0.0, a), lambda: (a.sum(), a)), None, (x,)),
        ("while", lambda a: jax.lax.while_loop(lambda t: t[0] < 3, lambda t: (t[0] + 1, t[1] * a), (0, a)), None, (x,)),
        ("closed-over constant", lambda a: a + TABLE, None, (x,)),
        ("uint8 array + python int", lambda k, a: a + k, None, (100, jnp.array([100, 200], dtype=jnp.uint8))),
        ("float16 array * python float", lambda s, a: a * s + 1, None, (0.1, jnp.array([1.0, 2.0], dtype=jnp.float16))),
        ("int8 array under cond with python int", lambda k, a: jax.lax.cond(a[0] > 0, lambda: a * k, lambda: a - k), None, (3, jnp.array([5, 50], dtype=jnp.int8))),
        ("initial-style: no closure", lambda a: call(lambda z: (jnp.sin(z), z * 3.0), a + 1.0), lambda a: (jnp.sin(a + 1.0), (a + 1.0) * 3.0), (x,)),
        ("initial-style: concrete closure", lambda a: call(lambda z: z + TABLE, a), lambda a: a + TABLE, (x,)),
        ("initial-style: closure over a traced intermediate", traced_closure, traced_closure_ref, (x,)),
        ("initial-style: closure over a cond result", cond_closure, lambda a: jnp.ones_like(a) * jax.lax.cond(a.sum() > 0, lambda: a, lambda: -a), (x,)),
    ]
    for name, fn, ref, args in progs:
        want = jax.tree_util.tree_leaves((ref or fn)(*args))
        try:
            got = jax.tree_util.tree_leaves(stateful(fn)(Null(), *args))
        except Exception as e:
            fail("stateful interpreter with a handler that handles nothing raises", program=name, error=f"{type(e).__name__}: {str(e).splitlines()[0][:120]}")
            continue
        if len(want) != len(got) or not all(jnp.asarray(a).dtype == jnp.asarray(b).dtype and np.array_equal(np.asarray(a), np.asarray(b)) for a, b in zip(want, got)):
            fail("stateful interpreter with a handler that handles nothing differs from ordinary evaluation (value or dtype)",
                 program=name, direct=want, interpreted=got)


def incremental_family():
    """C09: the incremental interpreter on small programs (closed-over array constants, multi-result primitives with dropped
    results, literals, cond / scan / while): primal outputs equal ordinary evaluation, and an output tagged NoChange keeps its
    value when the inputs tagged UnknownChange are replaced by other values (two-run non-interference)"""
    import itertools
    from genjax._src.core.compiler.interpreters.incremental import incremental
    K2 = jnp.array([2.0, -1.0, 0.5])

    def with_const(x, y):
        return x * K2 + 1.0, y * 3.0

    def two_consts(x, y, z):
        return (x + K2) * jnp.array([1.0, 0.0, 2.0]), y - 1.0, z * y

    def scan_carry_dropped(x, y):
        _, ys = jax.lax.scan(lambda c, s: (c + s * y, c * 2.0 + s), 1.0, x)
        return ys

    def scan_all(x, y):
        tot, ys = jax.lax.scan(lambda c, s: (c + s * y, c), 0.0, x)
        return tot, ys

    def while_counter_dropped(x, y):
        _, acc = jax.lax.while_loop(lambda t: t[0] < 4.0, lambda t: (t[0] + 1.0, t[1] * y + 1.0), (0.0, x[0]))
        return acc

    def cond_first_dropped(x, y):
        _, b = jax.lax.cond(y > 0.0, lambda u, v: (u + 1.0, v * 3.0), lambda u, v: (u - 1.0, v * 5.0), x[1], y)
        return b

    def literal_and_passthrough(x, y):
        return 7.0, x, y + 0.0
    base = (jnp.array([1.0, 2.0, 3.0]), jnp.float32(0.5), jnp.float32(4.0))
    alt = (jnp.array([-4.0, 0.25, 9.0]), jnp.float32(-1.5), jnp.float32(-2.0))
    tu = jax.tree_util
    for f, nargs in ((with_const, 2), (two_consts, 3), (scan_carry_dropped, 2), (scan_all, 2), (while_counter_dropped, 2),
                     (cond_first_dropped, 2), (literal_and_passthrough, 2)):
        args = base[:nargs]
        want = tu.tree_leaves(f(*args))
        for tags in itertools.product((NoChange, UnknownChange), repeat=nargs):
            name = f"{f.__name__}[{','.join(type(t).__name__ for t in tags)}]"
            out = incremental(f)(None, tuple(args), tuple(tags))
            leaves = tu.tree_leaves(out, is_leaf=lambda v: isinstance(v, Diff))
            prim = [l.primal if isinstance(l, Diff) else l for l in leaves]
            tang = [l.tangent if isinstance(l, Diff) else NoChange for l in leaves]
            if len(prim) != len(want) or not all(jnp.shape(a) == jnp.shape(b) and close(a, b) for a, b in zip(prim, want)):
                fail("incremental: primal outputs differ from ordinary evaluation", program=name)
                continue
            args2 = tuple(alt[i] if tags[i] is UnknownChange else args[i] for i in range(nargs))
            out2 = incremental(f)(None, args2, tuple(tags))
            leaves2 = tu.tree_leaves(out2, is_leaf=lambda v: isinstance(v, Diff))
            prim2 = [l.primal if isinstance(l, Diff) else l for l in leaves2]
            for j, (t, a, b) in enumerate(zip(tang, prim, prim2)):
                if t is NoChange and not close(a, b):
                    fail("incremental: an output tagged NoChange depends on an input tagged UnknownChange", program=name, output=j)


def key_family():
    """C04: distinct addresses / iterations / elements draw independent randomness, results are functions of (key, args).
    Fair coin flips everywhere: any two distinct sites must agree with frequency 1/2 (4000 keys, tolerance 0.06); nested
    callees (a static function, a vmap) sit at the sites where a derived key could be reused by a sibling"""
    from genjax import flip

    @gen
    def inner():
        return flip(0.5) @ "z"

    @gen
    def step(c, _):
        x = flip(0.5) @ "x"
        y = inner() @ "y"
        v = flip.vmap()(jnp.full(4, 0.5)) @ "v"
        w = flip(0.5) @ "w"
        return c, x
    model = step.scan(n=3)

    @gen
    def top():
        v = flip.vmap()(jnp.full(4, 0.5)) @ "v"
        b = flip(0.5) @ "b"
        r = flip.repeat(n=4)(0.5) @ "r"
        c = flip(0.5) @ "c"
        s = model(0.0, None) @ "s"
        d = flip(0.5) @ "d"
        vv = flip.vmap().vmap()(jnp.full((2, 2), 0.5)) @ "vv"
        return b

    def draws(k):
        ch = top.simulate(k, ()).get_choices()
        out = {"b": ch["b"], "c": ch["c"], "d": ch["d"]}
        for i in range(4):
            out[f"v{i}"] = ch["v", i]
            out[f"r{i}"] = ch["r", i]
        for i in range(2):
            for j in range(2):
                out[f"vv{i}{j}"] = ch["vv", i, j]
        for i in range(3):
            out[f"s{i}x"], out[f"s{i}yz"], out[f"s{i}w"] = ch["s", i, "x"], ch["s", i, "y", "z"], ch["s", i, "w"]
            for e in range(4):
                out[f"s{i}v{e}"] = ch["s", i, "v", e]
        return out
    keys = jrand.split(jrand.key(3), 4000)
    d = jax.vmap(draws)(keys)
    d2 = jax.vmap(draws)(keys)
    names = sorted(d)
    for a in names:
        if not bool(jnp.all(d[a] == d2[a])):
            fail("simulate is not a function of (key, args)", site=a)
        m = float(jnp.mean(d[a]))
        if abs(m - 0.5) > 0.06:
            fail("a fair flip does not come up True half of the time", site=a, freq=m)
    M = jnp.stack([d[a].astype(float) for a in names])          # sites x keys
    agree = (M @ M.T + (1 - M) @ (1 - M).T) / M.shape[1]
    for i, a in enumerate(names):
        for j in range(i + 1, len(names)):
            if abs(float(agree[i, j]) - 0.5) > 0.06:
                fail("two distinct sites do not draw independently (agreement frequency of two fair flips != 1/2)",
                     site_a=a, site_b=names[j], agree=float(agree[i, j]))


def marginal_family():
    """C25: Marginal.random_weighted on the real code - exact marginals where they exist in closed form, the reciprocal
    identity E[exp(-w) | sample] = 1/p(sample) on a finite discrete chain (20000 keys), agreement with estimate_logpdf"""
    import tensorflow_probability.substrates.jax as tfp
    from genjax import flip
    N = tfp.distributions.Normal

    @gen
    def chain():
        x = normal(0.0, 1.0) @ "x"
        y = normal(x, 0.5) @ "y"
        return y

    @gen
    def indep():
        x = normal(0.0, 1.0) @ "x"
        y = normal(1.0, 2.0) @ "y"
        z = normal(-1.0, 0.5) @ "z"
        return x + y + z
    dens = {"x": N(0.0, 1.0), "y": N(1.0, 2.0), "z": N(-1.0, 0.5)}
    for k in range(3):
        key = jrand.key(k)
        m = chain.marginal()
        w, c = m.random_weighted(key)
        if not close(w, m.estimate_logpdf(key, c)):
            fail("Marginal (everything selected): weight != estimate_logpdf of the same sample", w=w, lp=m.estimate_logpdf(key, c))
        if not close(w, N(0.0, 1.0).log_prob(c["x"]) + N(c["x"], 0.5).log_prob(c["y"])):
            fail("Marginal (everything selected): weight != joint log-density", w=w)
        w, c = chain.marginal(selection=S.at["x"]).random_weighted(key)
        if not close(w, N(0.0, 1.0).log_prob(c["x"])):
            fail("Marginal(select x): weight != exact marginal log p(x)", w=w, want=N(0.0, 1.0).log_prob(c["x"]))
        for name, sel, kept in (("S[y]|S[z]", S.at["y"] | S.at["z"], "yz"), ("~S[x]", ~S.at["x"], "yz"), ("~(S[y]|S[z])", ~(S.at["y"] | S.at["z"]), "x"),
                                ("~S[x]&~S[z]", ~S.at["x"] & ~S.at["z"], "y"), ("S[x]", S.at["x"], "x"), ("all", S.all(), "xyz")):
            w, c = indep.marginal(selection=sel).random_weighted(key)
            want = sum(dens[a].log_prob(c[a]) for a in kept)
            if not close(w, want):
                fail("Marginal over independent choices: weight != exact marginal of the returned choices", selection=name, w=w, want=want)
            if any(a in c for a in "xyz" if a not in kept) or not all(a in c for a in kept):
                fail("Marginal: returned choices are not exactly the selected ones", selection=name)
            # estimate_logpdf of the same sample: for independent choices the importance weight of a partial sample is its exact
            # marginal density whatever the unselected choices are drawn to be
            lp = indep.marginal(selection=sel).estimate_logpdf(jrand.fold_in(key, 9), c)
            if not close(lp, want):
                fail("Marginal.estimate_logpdf(sample) != exact marginal density of the sample (independent choices)", selection=name,
                     got=lp, want=want)
        # a selection that keeps only PART of a nested callee: the weight is the density of exactly the selected choices
        @gen
        def outer_m():
            s = inner(0.3) @ "sub"
            return normal(s, 1.0) @ "y"
        for name, sel, want_fn in (("S['sub','x']", S.at["sub", "x"], lambda c_: N(0.3, 1.0).log_prob(c_["sub", "x"])),):
            w, c = outer_m.marginal(selection=sel).random_weighted(key)
            if not close(w, want_fn(c)):
                fail("Marginal with a selection that keeps part of a callee: weight != exact marginal of the selected choice", selection=name,
                     w=w, want=want_fn(c))

    @gen
    def disc():
        x = flip(0.5) @ "x"
        y = flip(jnp.where(x, 0.9, 0.1)) @ "y"
        return y
    my = disc.marginal(selection=S.at["y"])
    ws, ys = jax.vmap(lambda k: (lambda w, c: (w, c["y"]))(*my.random_weighted(k)))(jrand.split(jrand.key(11), 20000))
    for yv in (True, False):
        sel = ys == yv
        got = float(jnp.sum(jnp.where(sel, jnp.exp(-ws), 0.0)) / jnp.sum(sel))
        if abs(got - 2.0) > 0.15:          # p(y) = 0.5 for both values
            fail("Marginal(select y | x -> y): E[exp(-w) | y] != 1/p(y)", y=yv, got=got, want=2.0)


def rejuvenate_family():
    """C27: Rejuvenate.edit returns the Metropolis-Hastings log ratio (asymmetric, state-dependent proposal)"""
    import tensorflow_probability.substrates.jax as tfp
    from genjax._src.inference.requests.rejuvenate import Rejuvenate
    N = tfp.distributions.Normal

    @gen
    def model():
        x = normal(0.0, 1.0) @ "x"
        y = normal(x, 0.5) @ "y"
        return y

    @gen
    def prop(x):
        return normal(x + 1.0, 0.3) @ "x"
    for k in range(3):
        key = jrand.key(k)
        tr = model.simulate(key, ())
        new, w, _, bwd = Rejuvenate(prop, lambda chm: (chm["x"],)).edit(jrand.key(100 + k), tr, Diff.no_change(()))
        x0, x1 = tr.get_choices()["x"], new.get_choices()["x"]
        want = new.get_score() - tr.get_score() + N(x1 + 1.0, 0.3).log_prob(x0) - N(x0 + 1.0, 0.3).log_prob(x1)
        if not close(w, want):
            fail("Rejuvenate: weight != MH log acceptance ratio", w=w, want=want)
        if not close(new.get_choices()["y"], tr.get_choices()["y"]):
            fail("Rejuvenate: a choice the proposal does not touch changed")
        wf(new, "Rejuvenate.edit new trace")
    # changed model arguments: p(x') is evaluated (and the new trace recorded) under the NEW arguments

    @gen
    def shifted(mu):
        x = normal(mu, 1.0) @ "x"
        y = normal(x, 0.5) @ "y"
        return y
    for k in range(3):
        tr = shifted.simulate(jrand.key(k), (0.0,))
        new, w, _, _ = Rejuvenate(prop, lambda chm: (chm["x"],)).edit(jrand.key(50 + k), tr, (Diff(2.0, UnknownChange),))
        x0, x1, y = tr.get_choices()["x"], new.get_choices()["x"], tr.get_choices()["y"]
        lp_new = N(2.0, 1.0).log_prob(x1) + N(x1, 0.5).log_prob(y)
        want = lp_new - tr.get_score() + N(x1 + 1.0, 0.3).log_prob(x0) - N(x0 + 1.0, 0.3).log_prob(x1)
        if not (close(w, want) and close(new.get_args()[0], 2.0) and close(new.get_score(), lp_new)):
            fail("Rejuvenate with changed arguments: weight / new trace are not computed under the new arguments",
                 w=w, want=want, args=new.get_args()[0], score=new.get_score(), want_score=lp_new)
    # ... also when the changed value sits INSIDE a container argument (a tuple), next to an unchanged one
    @gen
    def shifted_pair(ms, s):
        x = normal(ms[0], s) @ "x"
        y = normal(x + ms[1], 0.5) @ "y"
        return y
    for k in range(3):
        tr = shifted_pair.simulate(jrand.key(k), ((0.0, 0.0), 1.0))
        ad = ((Diff(2.0, UnknownChange), Diff(0.0, NoChange)), Diff(1.0, NoChange))
        new, w, _, _ = Rejuvenate(prop, lambda chm: (chm["x"],)).edit(jrand.key(60 + k), tr, ad)
        x0, x1, y = tr.get_choices()["x"], new.get_choices()["x"], tr.get_choices()["y"]
        lp_new = N(2.0, 1.0).log_prob(x1) + N(x1, 0.5).log_prob(y)
        want = lp_new - tr.get_score() + N(x1 + 1.0, 0.3).log_prob(x0) - N(x0 + 1.0, 0.3).log_prob(x1)
        if not (close(w, want) and close(new.get_args()[0][0], 2.0) and close(new.get_score(), lp_new)):
            fail("Rejuvenate with a changed value inside a container argument: weight / new trace are not computed under the new "
                 "arguments", w=w, want=want, args=new.get_args()[0], score=new.get_score(), want_score=lp_new)
    # the update changes a choice the proposal did not propose (a switch branch re-run because its index was proposed) and the
    # proposal's arguments are computed from that choice: q(x | x') must use the NEW trace's value
    lo = gen(lambda: normal(-2.0, 1.0) @ "v")
    hi = gen(lambda: normal(2.0, 1.0) @ "v")

    @gen
    def sw_model():
        i = genjax.categorical(jnp.array([0.3, -0.2])) @ "i"
        return genjax.switch(lo, hi)(i, (), ()) @ "z"

    @gen
    def sw_prop(logits):
        genjax.categorical(logits) @ "i"
    means = jnp.array([-2.0, 2.0])
    lp = lambda i, v: genjax.categorical.logpdf(i, jnp.array([0.3, -0.2])) + normal.logpdf(v, means[i], 1.0)
    lq = lambda i, v: genjax.categorical.logpdf(i, jnp.array([-0.7, 0.7]) * v)
    for k in range(8):
        tr = sw_model.simulate(jrand.key(k), ())
        new, w, _, _ = Rejuvenate(sw_prop, lambda chm: (jnp.array([-0.7, 0.7]) * chm["z", "v"].unmask(),)).edit(jrand.key(70 + k), tr, ())
        i, v = tr.get_choices()["i"], tr.get_choices()["z", "v"].unmask()
        i2, v2 = new.get_choices()["i"], new.get_choices()["z", "v"].unmask()
        want = lp(i2, v2) + lq(i, v2) - lp(i, v) - lq(i2, v)
        if not close(w, want):
            fail("Rejuvenate: backward proposal density is not evaluated at arguments computed from the NEW trace", w=w, want=want)


def adev_family():
    """C29: exact enumeration (value and derivative), parameter-dependent baselines, independence of consecutive sampling
    sites (REINFORCE and reparameterised), primal = program value at the sampled randomness, estimate() at the arguments"""
    from genjax.adev import Dual, baseline, expectation, flip_enum, flip_reinforce, normal_reinforce, normal_reparam, add_cost
    payoff = lambda b: jnp.where(b, -1.0, 1.0)

    @expectation
    def enum_plain(p):
        return payoff(flip_enum(p))

    @expectation
    def enum_param_baseline(p):
        return payoff(baseline(flip_enum)(2.0 * p + 0.5, p))

    @expectation
    def reinforce_param_baseline(p):
        return payoff(baseline(flip_reinforce)(2.0 * p + 0.5, p))

    @expectation
    def enum_cond_cost(p):
        b = flip_enum(p)
        add_cost(jnp.where(b, p * p, 0.0))
        return jax.lax.cond(b, lambda: 2.0 * p, lambda: 0.5)
    for p in (0.2, 0.7):
        for name, prog, val, der in (("flip_enum", enum_plain, 1 - 2 * p, -2.0), ("baseline(flip_enum) with a parameter-dependent baseline", enum_param_baseline, 1 - 2 * p, -2.0),
                                     ("flip_enum + cond + add_cost", enum_cond_cost, p * 2 * p + (1 - p) * 0.5 + p * p * p, 4 * p - 0.5 + 3 * p * p)):
            d = prog.jvp_estimate(jrand.key(0), Dual(p, 1.0))
            if not (close(d.primal, val, tol=1e-5) and close(d.tangent, der, tol=1e-5)):
                fail("ADEV enumeration: value / derivative of the expectation is not exact", program=name, p=p, primal=d.primal,
                     tangent=d.tangent, want=(val, der))
            g = prog.grad_estimate(jrand.key(0), (p,))
            if not close(g[0] if isinstance(g, (tuple, list)) else g, der, tol=1e-5):
                fail("ADEV: grad_estimate disagrees with the exact derivative / jvp_estimate", program=name, p=p, grad=g, want=der)
            if not close(prog.estimate(jrand.key(0), (p,)), val, tol=1e-5):
                fail("ADEV: Expectation.estimate is not the program's value at the given arguments", program=name, p=p)
        duals = jax.vmap(lambda k: reinforce_param_baseline.jvp_estimate(k, Dual(p, 1.0)))(jrand.split(jrand.key(1), 6000))
        if abs(float(jnp.mean(duals.primal)) - (1 - 2 * p)) > 0.06 or abs(float(jnp.mean(duals.tangent)) + 2.0) > 0.3:
            fail("ADEV REINFORCE with a parameter-dependent baseline is biased", p=p, mean_primal=jnp.mean(duals.primal), mean_tangent=jnp.mean(duals.tangent))

    @expectation
    def two_reinforce_flips(p):
        return jnp.where(flip_reinforce(p) != flip_reinforce(p), 1.0, 0.0)

    @expectation
    def two_reinforce_normals(mu):
        return (normal_reinforce(mu, 1.0) - normal_reinforce(mu, 1.0)) ** 2

    @expectation
    def two_reparam_normals(mu):
        return (normal_reparam(mu, 1.0) - normal_reparam(mu, 1.0)) ** 2

    @expectation
    def reparam_then_reinforce(mu):
        return (normal_reparam(mu, 1.0) - normal_reinforce(mu, 1.0)) ** 2
    # a sampling site inside a cond branch and the first site after the cond
    @expectation
    def cond_reparam_then_reparam(mu):
        y = jax.lax.cond(mu > 0, lambda: normal_reparam(mu, 1.0), lambda: normal_reparam(mu, 2.0))
        return (y - normal_reparam(mu, 1.0)) ** 2

    @expectation
    def cond_reinforce_then_reinforce(mu):
        y = jax.lax.cond(mu > 0, lambda: normal_reinforce(mu, 2.0), lambda: normal_reinforce(mu, 1.0))
        return (y - normal_reinforce(mu, 1.0)) ** 2
    if "MvNormalREPARAM" in OB:           # the recorded known finding
        from genjax.adev import mv_normal_reparam

        @expectation
        def mvn(mu):
            return jnp.sum(mv_normal_reparam(mu, jnp.eye(2)))
        d = mvn.jvp_estimate(jrand.key(0), (Dual(jnp.array([0.76, -0.3]), jnp.array([1.0, 0.0])),))
        if not close(d.tangent, 1.0, tol=1e-5):
            fail("MvNormalREPARAM: the pathwise derivative of E[sum x] wrt mu[0] is not 1 (tangents read with tree_primal)", tangent=d.tangent)
        return
    # pathwise derivative through the SCALE of a reparameterised normal: d/ds E[x^2], x ~ N(0, s), is 2s

    @expectation
    def second_moment(s):
        return normal_reparam(0.0, s) ** 2
    for s_ in (0.5, 1.5):
        tg = jax.vmap(lambda k_: second_moment.jvp_estimate(k_, Dual(s_, 1.0)).tangent)(jrand.split(jrand.key(5), 4000))
        if abs(float(jnp.mean(tg)) - 2 * s_) > 0.25 * max(1.0, 2 * s_):
            fail("ADEV normal_reparam: the pathwise derivative with respect to the scale is off", s=s_, mean_tangent=jnp.mean(tg), want=2 * s_)
    keys = jrand.split(jrand.key(2), 3000)
    for name, prog, arg, want in (("two flip_reinforce sites", two_reinforce_flips, 0.5, 0.5), ("two normal_reinforce sites", two_reinforce_normals, 0.3, 2.0),
                                  ("two normal_reparam sites", two_reparam_normals, 0.3, 2.0), ("normal_reparam then normal_reinforce", reparam_then_reinforce, 0.3, 2.0),
                                  ("normal_reparam inside a cond branch, then normal_reparam", cond_reparam_then_reparam, 0.3, 2.0),
                                  ("normal_reinforce inside a cond branch, then normal_reinforce", cond_reinforce_then_reinforce, 0.3, 5.0)):
        m = float(jnp.mean(jax.vmap(lambda k: prog.jvp_estimate(k, Dual(arg, 1.0)).primal)(keys)))
        if abs(m - want) > 0.15 * max(1.0, want):
            fail("ADEV: consecutive sampling sites do not draw independent randomness (mean of the program value is off)",
                 program=name, mean=m, want=want)
        m2 = float(jnp.mean(jax.vmap(lambda k: prog.estimate(k, (arg,)))(keys)))
        if abs(m2 - want) > 0.15 * max(1.0, want):
            fail("ADEV: Expectation.estimate does not average to the expectation", program=name, mean=m2, want=want)


def vi_family():
    """C30: ELBO gradient estimates against closed forms on an enumerable model/guide pair (exact: the guide uses flip_enum) -
    with respect to the guide parameter AND a model parameter, and with a guide that proposes only part of the latents"""
    @gen
    def dmodel(t, r):
        z = genjax.flip(r) @ "z"
        _ = genjax.flip(jnp.where(z, 0.9, 0.2)) @ "y"

    @genjax.marginal()
    @gen
    def dguide(target):
        t, _ = target.args
        _ = genjax.vi.flip_enum(t) @ "z"
    elbo = lambda t, r: t * (jnp.log(r) + jnp.log(0.9) - jnp.log(t)) + (1 - t) * (jnp.log(1 - r) + jnp.log(0.2) - jnp.log(1 - t))
    grad = genjax.vi.ELBO(dguide, lambda t, r: genjax.Target(dmodel, (t, r), C.kw(y=True)))
    for i, (t, r) in enumerate([(0.4, 0.3), (0.15, 0.6), (0.85, 0.5)]):
        got = grad(jrand.key(i), (t, r))
        want = jax.grad(lambda a, b: -elbo(a, b), argnums=(0, 1))(t, r)
        for nm, g, w in zip(("guide parameter", "model parameter"), got, want):
            if not close(g, w, tol=1e-3):
                fail("ELBO gradient estimate (exact enumeration) differs from the gradient of the objective", wrt=nm, t=t, r=r, got=g, want=w)

    @gen
    def gmodel(a, b, s_):
        mu = normal(0.0, s_) @ "mu"
        _ = normal(mu, 1.0) @ "y"

    @genjax.marginal()
    @gen
    def gguide(target):
        a, b, _ = target.args
        _ = genjax.vi.normal_reparam(a, b) @ "mu"
    Y, N = 3.0, 20000
    ggrad = genjax.vi.ELBO(gguide, lambda a, b, s_: genjax.Target(gmodel, (a, b, s_), C.kw(y=Y)))
    for a, b, s_ in ((0.5, 0.7, 2.0), (2.0, 1.3, 1.5)):
        gs = jax.jit(jax.vmap(lambda k: ggrad(k, (a, b, s_))))(jrand.split(jrand.key(11), N))
        want = (a / s_ ** 2 - (Y - a), b / s_ ** 2 + b - 1 / b, 1 / s_ - (a ** 2 + b ** 2) / s_ ** 3)
        for nm, g, w in zip(("guide mean", "guide scale", "model prior scale"), gs, want):
            mean, se = float(jnp.mean(g)), float(jnp.std(g) / jnp.sqrt(N))
            if abs(mean - w) > 6 * se + 2e-3:
                fail("ELBO gradient estimate (conjugate Gaussian pair, reparameterised guide) is biased", wrt=nm, params=(a, b, s_), mean=mean, want=w)
    # the objectives read the log-weight of Importance with the guide as proposal (C30's second mechanism): its per-particle
    # weight identities, a guide that proposes a subset of the latents included (the values, not the gradients: there the
    # model's own sampler fills in the rest, which the ADEV estimators do not differentiate through)
    smc_family()


def hmc_family():
    """C28: momenta (independent standard normals per selected leaf, of the leaf's shape), kinetic energy (sum over all
    elements), alpha = H(start) - H(end) for scalar and vector leaves (L = 1, momenta recovered from the leapfrog equations),
    and - only when replaying the recorded known finding - the L >= 2 trajectory against a textbook leapfrog"""
    from genjax._src.inference.requests.hmc import HMC, assess_momenta, sample_momenta, selection_gradient
    grads = {"a": jnp.zeros(()), "b": jnp.zeros(()), "v": jnp.zeros(3)}
    draws = jax.vmap(lambda k: sample_momenta(k, grads)[0])(jrand.split(jrand.key(5), 3000))
    flat = {"a": draws["a"], "b": draws["b"], "v0": draws["v"][:, 0], "v1": draws["v"][:, 1], "v2": draws["v"][:, 2]}
    names = sorted(flat)
    for i, x in enumerate(names):
        if abs(float(jnp.mean(flat[x]))) > 0.08 or abs(float(jnp.var(flat[x])) - 1.0) > 0.12:
            fail("sample_momenta: a momentum component is not a standard normal draw", leaf=x, mean=jnp.mean(flat[x]), var=jnp.var(flat[x]))
        for y in names[i + 1:]:
            c = float(jnp.corrcoef(flat[x], flat[y])[0, 1])
            if abs(c) > 0.08:
                fail("sample_momenta: two momentum components are not independent", a=x, b=y, corr=c)
    m, s = sample_momenta(jrand.key(1), grads)
    want = -0.5 * (m["a"] ** 2 + m["b"] ** 2 + jnp.sum(m["v"] ** 2)) - 5 * 0.5 * jnp.log(2 * jnp.pi)
    if not close(s, want) or not close(assess_momenta(m, mul=-1.0), want):
        fail("assess_momenta: not the summed standard-normal log-density of all momentum components", got=s, want=want)

    @gen
    def vec_model():
        z = genjax.mv_normal_diag(jnp.zeros(4), jnp.array([1.0, 0.5, 2.0, 1.5])) @ "z"
        y = normal(jnp.sum(z * z), 1.0) @ "y"
        return z

    @gen
    def two_scalars():
        a = normal(0.0, 1.0) @ "a"
        b = normal(a * a, 0.7) @ "b"
        return a + b
    eps = jnp.array(0.05)
    cases = [("vector leaf", vec_model, S.at["z"], lambda t: t.get_choices()["z"], lambda t, q: C.kw(z=q, y=t.get_choices()["y"])),
             ("two scalar leaves", two_scalars, S.at["a"] | S.at["b"], lambda t: jnp.stack([t.get_choices()["a"], t.get_choices()["b"]]),
              lambda t, q: C.kw(a=q[0], b=q[1]))]
    for name, model, sel, read, build in cases:
        tr = model.simulate(jrand.key(2), ())
        logp = lambda q: model.assess(build(tr, q), ())[0]
        q0 = read(tr)
        g0 = jax.grad(logp)(q0)
        for k in range(4):
            new, alpha, _, _ = HMC(sel, eps, 1).edit(jrand.key(10 + k), tr, Diff.no_change(()))
            q1 = read(new)
            ph = (q1 - q0) / eps
            p0, p1 = ph - (eps / 2) * g0, ph + (eps / 2) * jax.grad(logp)(q1)
            want = logp(q1) - logp(q0) - 0.5 * jnp.sum(p1 ** 2) + 0.5 * jnp.sum(p0 ** 2)
            if not close(alpha, want, tol=2e-3):
                fail("HMC: the returned weight is not H(start) - H(end)", case=name, alpha=alpha, want=want)
            wf(new, f"HMC.edit[{name}]")
    if "carried_gradient" in OB or "one_leapfrog_step" in OB:          # the recorded known finding (L >= 2)
        @gen
        def nl():
            x = normal(0.0, 1.0) @ "x"
            _ = normal(x * x, 0.5) @ "y"
            return x
        key = jrand.key(3)
        tr, _ = nl.importance(key, C.kw(x=jnp.array(0.8), y=jnp.array(1.0)), ())
        e, L = 0.1, 3
        new, _, _, _ = HMC(S.at["x"], jnp.array(e), L).edit(key, tr, Diff.no_change(()))
        lp = lambda x: nl.assess(C.kw(x=x, y=jnp.array(1.0)), ())[0]
        k, sub = jrand.split(key)
        _, g0 = selection_gradient(S.at["x"], tr, Diff.no_change(()))
        p = sample_momenta(sub, g0)[0]["x"]
        q = jnp.array(0.8)
        for _ in range(L):
            p = p + e / 2 * jax.grad(lp)(q)
            q = q + e * p
            p = p + e / 2 * jax.grad(lp)(q)
        if not close(new.get_choices()["x"], q, tol=1e-5):
            fail("HMC.edit with L = 3 does not follow the leapfrog trajectory (stale gradient in the first half-kick)",
                 got=new.get_choices()["x"], leapfrog=q)


def pytree_family():
    """C21 (Pytree part): Const / Closure / tree_const on the real classes, flatten/unflatten, jit and vmap round trips of the
    repository's Pytree dataclasses, static fields absent from the leaves"""
    from genjax import Pytree
    from genjax._src.core.pytree import Closure, Const
    tu = jax.tree_util
    c = Pytree.const(5)
    if Pytree.const(c) is not c or Pytree.const(7).val != 7:
        fail("Pytree.const: does not keep an existing Const / wrap a concrete value")
    if tu.tree_leaves(c):
        fail("Const.val is a traced leaf", leaves=tu.tree_leaves(c))
    x = jnp.array(2.0)
    t = Pytree.tree_const((c, 3, {"a": "tag"}))
    if t[0] is not c or not isinstance(t[1], Const) or t[1].val != 3 or not isinstance(t[2]["a"], Const):
        fail("Pytree.tree_const: wraps a Const again or leaves a concrete leaf unwrapped", got=t)
    if Pytree.tree_const_unwrap(t) != (5, 3, {"a": "tag"}):
        fail("Pytree.tree_const_unwrap does not invert tree_const", got=Pytree.tree_const_unwrap(t))
    inside = jax.jit(lambda v: isinstance(Pytree.tree_const((v, 3))[0], Const))(x)
    if bool(inside):
        fail("Pytree.tree_const wraps a traced value in a Const")
    try:
        jax.jit(lambda v: Pytree.const(v).val)(x)
        fail("Pytree.const accepts a traced value")
    except AssertionError:
        pass
    if Const.unwrap(c) != 5 or Const.unwrap(9) != 9:
        fail("Const.unwrap")

    def f(a, b, y, scale=1.0):
        return (a - b) * y * scale
    clo = Pytree.partial(x, jnp.array(3.0))(f)
    if not isinstance(clo, Closure) or len(tu.tree_leaves(clo)) != 2:
        fail("Closure: the dynamic arguments are not exactly the leaves", leaves=tu.tree_leaves(clo))
    if not close(clo(jnp.array(10.0), scale=2.0), (2.0 - 3.0) * 10.0 * 2.0):
        fail("Closure.__call__ is not fn(*dyn_args, *args, **kwargs)", got=clo(jnp.array(10.0), scale=2.0))
    leaves, td = tu.tree_flatten(clo)
    back = tu.tree_unflatten(td, leaves)
    if back.fn is not f or not close(back(jnp.array(1.0)), -1.0):
        fail("Closure does not round-trip through flatten/unflatten")
    if not close(jax.jit(lambda cl, y: cl(y))(clo, jnp.array(4.0)), -4.0):
        fail("Closure does not survive jit")
    if not close(jax.vmap(lambda cl, y: cl(y), in_axes=(None, 0))(clo, jnp.arange(3.0)), -jnp.arange(3.0)):
        fail("Closure does not survive vmap")
    if jax.jit(lambda cc: cc.unwrap() + 1)(c) != 6:
        fail("Const does not survive jit as a static value")
    # a sample of the repository's dataclasses: static fields are absent from the leaves, round trip rebuilds them
    tr = inner.simulate(KEY, (0.5,))
    vm = inner.vmap(in_axes=(0,))
    vtr = vm.simulate(KEY, (jnp.arange(3.0),))
    sc = genjax.scan(n=3)(gen(lambda cc, xx: (normal(cc, 1.0) @ "z", xx)))
    for name, obj in (("StaticTrace", tr), ("Vmap", vm), ("VmapTrace", vtr), ("Scan", sc),
                      ("Mask", Mask(x, jnp.array(True))), ("Diff", Diff(x, NoChange)), ("Selection", S.at["x", "y"] | ~S.at["z"]),
                      ("ChoiceMap", C.d({"x": x, "y": {"z": x}}) | C.entry(x, "w").mask(jnp.array(True)))):
        leaves, td = tu.tree_flatten(obj)
        if not all(hasattr(l, "dtype") or isinstance(l, (float, bool)) for l in leaves):
            fail(f"{name}: a non-array (static) value is among the traced leaves", leaves=[type(l).__name__ for l in leaves])
        back = tu.tree_unflatten(td, leaves)
        if tu.tree_structure(back) != td or type(back) is not type(obj):
            fail(f"{name}: flatten/unflatten does not round-trip")
        j = jax.jit(lambda o: o)(obj)
        if tu.tree_structure(j) != td or not all(close(a, b) for a, b in zip(tu.tree_leaves(j), leaves)):
            fail(f"{name}: does not round-trip through jit")


def mask_algebra_family():
    """C19: truth tables of Mask | ^ ~ build flatten unmask for concrete, array and jit-traced flags"""
    import itertools
    kinds = {"concrete": lambda b: b, "array": lambda b: jnp.array(b)}

    def o(m):
        if m is None:
            return (False, None)
        if isinstance(m, Mask):
            return (bool(m.primal_flag()), float(m.value))
        return (True, float(m))
    for (ka, fa), (kb, fb) in itertools.product(kinds.items(), repeat=2):
        for a, b in itertools.product((True, False), repeat=2):
            # build / maybe_mask of a value that already is a mask: valid iff both flags are true
            for name, got in (("build", Mask.build(Mask(1.0, fa(a)), fb(b))), ("maybe_mask", Mask.maybe_mask(Mask(1.0, fa(a)), fb(b)))):
                g = o(got)
                if g[0] != (a and b) or (g[0] and g[1] != 1.0) or (isinstance(got, Mask) and isinstance(got.value, Mask)):
                    fail(f"Mask.{name} of a mask: not valid exactly when both flags are true", inner=a, outer=b, flags=f"{ka},{kb}", got=g)
            A, B = Mask(1.0, fa(a)), Mask(2.0, fb(b))
            for name, got, want in (("|", A | B, (a or b, 1.0 if a else 2.0)), ("^", A ^ B, (a != b, 1.0 if a else 2.0))):
                g = o(got)
                if g[0] != want[0] or (want[0] and g[1] != want[1]):
                    fail(f"Mask {name}: truth table", a=a, b=b, flags=f"{ka},{kb}", got=g, want=want)
            for name, fn, want in (("|", lambda x, y: (x | y), lambda: (a or b, 1.0 if a else 2.0)),
                                   ("^", lambda x, y: (x ^ y), lambda: (a != b, 1.0 if a else 2.0))):
                if ka == "array" or kb == "array":
                    j = jax.jit(lambda fx, fy: fn(Mask(1.0, fx if ka == "array" else a), Mask(2.0, fy if kb == "array" else b)))(jnp.array(a), jnp.array(b))
                    g, w = o(j), want()
                    if g[0] != w[0] or (w[0] and g[1] != w[1]):
                        fail(f"Mask {name} under jit: truth table", a=a, b=b, flags=f"{ka},{kb}", got=g, want=w)
            c = Mask(3.0, fa(a))
            three = Mask.or_n(A, B, Mask(3.0, jnp.array(False)))
            if o(three)[0] != (a or b):
                fail("Mask.or_n flag", a=a, b=b)
    for ka, f in kinds.items():
        for a in (True, False):
            m = Mask(1.0, f(a))
            if o(~m)[0] != (not a):
                fail("Mask ~", a=a, kind=ka)
            if float(m.unmask(9.0)) != (1.0 if a else 9.0):
                fail("Mask.unmask(default)", a=a, kind=ka)
            nested = Mask.build(Mask(1.0, f(a)), f(True))
            if o(nested)[0] != a:
                fail("Mask.build nested flag", a=a, kind=ka)
            mm = Mask.maybe_mask(1.0, f(a))
            if o(mm)[0] != a:
                fail("Mask.maybe_mask", a=a, kind=ka)


def selection_family():
    """C18: bounded-exhaustive Boolean algebra of selections over a small alphabet"""
    import itertools
    atoms = [S.all(), S.none(), S.leaf(), S.at["x"], S.at["x", "y"], S.at["y"], S.at[..., "y"], S.at["x", ...]]
    addrs = [()] + [a for d in (1, 2, 3) for a in itertools.product(("x", "y"), repeat=d)]
    terms = list(atoms)
    for a, b in itertools.product(atoms, repeat=2):
        terms += [a | b, a & b]
    terms += [~t for t in terms[:40]]
    import random
    random.seed(0)
    pool = terms
    for a in atoms:
        for t in pool:
            for op, fn, py in (("|", lambda p, q: p | q, lambda p, q: p or q), ("&", lambda p, q: p & q, lambda p, q: p and q)):
                r = fn(a, t)
                for ad in addrs:
                    if bool(r[ad]) != bool(py(a[ad], t[ad])):
                        fail(f"Selection {op}: membership is not the Boolean combination", a=a, b=t, addr=ad)
    for t in pool[:120]:
        for ad in addrs:
            if bool((~t)[ad]) != (not bool(t[ad])):
                fail("Selection ~: membership is not the negation", t=t, addr=ad)
            if len(ad) >= 2 and bool(t(ad[0])[ad[1:]]) != bool(t[ad]):
                fail("Selection: S(a)[b] != S[a, b]", t=t, addr=ad)


FAMILIES = [
    (("C19.Mask.", "Mask._or_idx", ".Mask.or.", ".Mask.xor.", ".Mask.or_n.", ".Mask.maybe_mask."), mask_algebra_family), (("C18.", ".AndSel.", ".OrSel.", ".ComplementSel."), selection_family), ((".Diff.",), diff_family),
    (("C30.",), vi_family), (("C29.", "TailCallADEVPrimitive", "eval_jaxpr_adev"), adev_family), (("C28.", "sample_momenta"), hmc_family), (("C20.", "FlagOp", "multi_switch", "tree_choose"), staging_family), (("C33.",), invalid_subset_family),
    (("C38.", ".EmptyRequest.", "edit_static_request"), derived_family), (("C36.",), stateful_family), (("C09.", "incremental"), incremental_family), (("C04.",), key_family), (("C21.",), pytree_family), (("C25.", "Marginal"), marginal_family), (("C27.", "Rejuvenate"), rejuvenate_family), (("C31.",), time_travel_family), (("C17.",), choice_map_family), (("C26.",), smc_family),
    (("MaskCombinator", "MaskTrace"), mask_family), (("Distribution", "ExactDensity", "C24."), distribution_family),
    (("Dimap",), dimap_family), (("Switch", ".or_else.", ".mix."), switch_family), (("Vmap", "repeat"), vmap_family),
    (("Scan", "iterate", "accumulate", "reduce", "masked_iterate"), scan_family),
    (("GenerativeFunctionClosure", "IgnoreKwargs", "partial_apply", "handle_kwargs"), closure_family),
    (("Handler", "StaticGenerativeFunction", "StaticTrace"), static_family),
]


def selftest(names=None):
    """every battery must be SILENT on a tree where the properties hold (run by the thorough tier on the tree under check, with
    the known-finding replays switched off): a battery that fails or raises there is a false alarm of the replay harness.
    With `names` (obligation names of one property): only the batteries those obligations are replayed by."""
    global OB
    out = {}
    seen = []
    wanted = None
    if names is not None:
        wanted = []
        for ob in names:
            for keys, fn in FAMILIES:
                if any(k in ob for k in keys):
                    if fn not in wanted:
                        wanted.append(fn)
                    break
    for keys, fn in FAMILIES:
        if fn in seen or (wanted is not None and fn not in wanted):
            continue
        seen.append(fn)
        OB = "selftest"
        del FAILS[:]
        try:
            fn()
            out[fn.__name__] = [w for w, _ in FAILS[:3]]
        except Exception as e:
            out[fn.__name__] = [f"RAISED {type(e).__name__}: {str(e).splitlines()[0][:160]}"]
    print(json.dumps({"batteries": len(out), "noisy": {k: v for k, v in out.items() if v}}))
    return 0


def main():
    if sys.argv[1] == "--selftest":
        return selftest(json.load(open(sys.argv[2])) if len(sys.argv) > 2 else None)
    rec = json.load(open(sys.argv[1]))
    global OB
    ob = OB = rec["obligation"]
    fam = None
    for keys, fn in FAMILIES:
        if any(k in ob for k in keys):
            fam = fn
            break
    if fam is None:
        print("no native checker for", ob)
        return 2
    try:
        fam()
    except Exception as e:
        import traceback
        # an exception that escapes a battery is NOT evidence of a violation (it may be a defect of the battery): no verdict.
        # Sites where the real code raising IS the violation are wrapped by the battery itself and reported through fail()
        print("native checker raised (no verdict):", type(e).__name__, str(e).splitlines()[0][:200])
        traceback.print_exc(limit=3)
        for what, kw in FAILS[:12]:
            print("NATIVE-FAIL:", what, kw)
        return 1 if FAILS else 2
    for what, kw in FAILS[:12]:
        print("NATIVE-FAIL:", what, kw)
    print(f"{len(FAILS)} native failure(s) in {fam.__name__} for {ob}")
    return 1 if FAILS else 0


if __name__ == "__main__":
    sys.exit(main())
