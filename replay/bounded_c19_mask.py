"""C19 bounded stand-in (NOT a proof): the Mask operations on NON-FINITE payloads and defaults (nan, +inf, -inf) - values the SMT
contracts cannot speak about, because they treat machine arithmetic as real arithmetic - on the real class, eagerly and under
jit, with concrete Python-bool flags, traced scalar flags and vector flags.

Grammar (exhaustive for the stated bounds): payloads and defaults from {-inf, -1.5, 0.0, 2.0, +inf, nan} (scalars) and the
length-3 vectors over three of them; flags from {Python True/False, jnp.array(True/False), the 8 Boolean vectors of length 3};
operations unmask(default), unmask(), |, ^, ~, build, maybe_mask, flatten.  Reference: the documented truth tables evaluated
on Python values (selection, never arithmetic).  Prints one JSON object; exit code 0 always (the caller reads `violations`)."""
import itertools
import json
import math
import sys

import jax
import jax.numpy as jnp
import numpy as np

from genjax import Mask

VALS = (-math.inf, -1.5, 0.0, 2.0, math.inf, math.nan)
out = {"bound": "payloads / defaults in {-inf,-1.5,0,2,+inf,nan} (scalars; length-3 vectors for vector flags); flags: Python bools, "
                "traced scalars, all Boolean vectors of length 3; eager and jit; ops unmask(d) unmask() | ^ ~ build maybe_mask flatten",
       "evaluations": 0, "distinct_nontrivial": 0, "violations": [], "samples": [], "cases": 0}


def same(a, b):
    a, b = np.asarray(a, dtype=float), np.asarray(b, dtype=float)
    return a.shape == b.shape and bool(np.all((a == b) | (np.isnan(a) & np.isnan(b))))


def bad(what, **kw):
    ident = "".join(ch if ch.isalnum() else "_" for ch in what.split(":")[0]).strip("_")      # one id per operation
    if not any(v["id"] == ident for v in out["violations"]):
        out["violations"].append({"id": ident, "what": what, **{k: str(v) for k, v in kw.items()}})


def flag_of(m):
    return None if m is None else (np.asarray(m.primal_flag()) if isinstance(m, Mask) else np.asarray(True))


def value_of(m):
    return m.value if isinstance(m, Mask) else m


def check_obs(what, m, want_flag, want_value, **kw):
    """observable result: the flag, and the value wherever the flag is true"""
    out["evaluations"] += 1
    f = flag_of(m)
    wf_ = np.asarray(want_flag)
    if f is None:
        ok = not bool(np.any(wf_))
    else:
        f = np.broadcast_to(f, wf_.shape) if f.shape != wf_.shape else f
        ok = bool(np.all(f == wf_))
        if ok and bool(np.any(wf_)):
            v, w = np.asarray(value_of(m), dtype=float), np.asarray(want_value, dtype=float)
            v = np.broadcast_to(v, wf_.shape) if v.shape != wf_.shape else v
            w = np.broadcast_to(w, wf_.shape) if w.shape != wf_.shape else w
            ok = same(np.where(wf_, v, 0.0), np.where(wf_, w, 0.0))
    if not ok:
        bad(what, got_flag=f, got_value=None if m is None else value_of(m), want_flag=want_flag, want_value=want_value, **kw)


scalar_flags = [("python", True), ("python", False), ("traced", True), ("traced", False)]
for (kind, fb), v, d in itertools.product(scalar_flags, VALS, VALS):
    out["cases"] += 1
    f = fb if kind == "python" else jnp.array(fb)
    want = v if fb else d
    m = Mask(jnp.array(v), f)
    for mode, fn in (("eager", lambda m_, d_: m_.unmask(d_)), ("jit", jax.jit(lambda m_, d_: m_.unmask(d_)))):
        if mode == "jit" and kind == "python":
            fn = (lambda fb_: jax.jit(lambda v_, d_: Mask(v_, fb_).unmask(d_)))(fb)
            got = fn(jnp.array(v), jnp.array(d))
        else:
            got = fn(m, jnp.array(d))
        out["evaluations"] += 1
        if not same(got, want):
            bad("Mask.unmask(default): not the value when the flag is true / the default when it is false", flag=f"{kind} {fb}", mode=mode,
                value=v, default=d, got=got, want=want)
    if fb:
        out["evaluations"] += 1
        if not same(m.unmask(), v):
            bad("Mask.unmask(): not the value of a valid mask", flag=f"{kind} {fb}", value=v)
    inv = ~m
    check_obs("~Mask: flag is the negation, value kept", inv, not fb, v, flag=f"{kind} {fb}", value=v)
    b = Mask.build(jnp.array(v), f)
    check_obs("Mask.build: observable (flag, value)", b, fb, v, flag=f"{kind} {fb}", value=v)
    mm = Mask.maybe_mask(jnp.array(v), f)
    check_obs("Mask.maybe_mask: observable (flag, value)", mm, fb, v, flag=f"{kind} {fb}", value=v)
    # binary operations with a second mask holding the default as payload
    for (kind2, gb) in scalar_flags:
        g = gb if kind2 == "python" else jnp.array(gb)
        m2 = Mask(jnp.array(d), g)
        check_obs("Mask | Mask: valid iff either is, value of the first valid one", m | m2, fb or gb, v if fb else d,
                  flags=(f"{kind} {fb}", f"{kind2} {gb}"), values=(v, d))
        check_obs("Mask ^ Mask: valid iff exactly one is, value of that one", m ^ m2, fb != gb, v if fb else d,
                  flags=(f"{kind} {fb}", f"{kind2} {gb}"), values=(v, d))
        nested = Mask.build(Mask(jnp.array(v), g), f)
        check_obs("Mask.build of a mask: flags are and-ed", nested, fb and gb, v, flags=(f"{kind} {fb}", f"{kind2} {gb}"), value=v)
        mmn = Mask.maybe_mask(Mask(jnp.array(v), g), f)
        check_obs("Mask.maybe_mask of a mask: flags are and-ed", mmn, fb and gb, v, flags=(f"{kind} {fb}", f"{kind2} {gb}"), value=v)

vec_flags = [np.array(bits) for bits in itertools.product((True, False), repeat=3)]
triples = [(-math.inf, math.nan, 2.0), (math.inf, 0.0, math.nan), (math.nan, math.nan, -1.5), (1.0, 2.0, 3.0)]
for fv, vv, dv in itertools.product(vec_flags, triples, triples):
    out["cases"] += 1
    m = Mask(jnp.array(vv), jnp.array(fv))
    want = np.where(fv, np.array(vv), np.array(dv))
    for mode, fn in (("eager", lambda m_, d_: m_.unmask(d_)), ("jit", jax.jit(lambda m_, d_: m_.unmask(d_))),
                     ("vmap", lambda m_, d_: jax.vmap(lambda mi, di: mi.unmask(di))(m_, d_))):
        got = fn(m, jnp.array(dv))
        out["evaluations"] += 1
        if not same(got, want):
            bad("Mask.unmask(default) with a vector flag: not elementwise value-if-flag-else-default", mode=mode, flag=fv, value=vv,
                default=dv, got=got, want=want)
    for gv in vec_flags[::3]:
        m2 = Mask(jnp.array(dv), jnp.array(gv))
        check_obs("Mask | Mask (vector flags)", m | m2, fv | gv, np.where(fv, np.array(vv), np.array(dv)), flags=(fv, gv))
        check_obs("Mask ^ Mask (vector flags)", m ^ m2, fv ^ gv, np.where(fv, np.array(vv), np.array(dv)), flags=(fv, gv))
        for pyflag in (True, False):
            mmn = Mask.maybe_mask(Mask(jnp.array(vv), jnp.array(gv)), pyflag)
            check_obs("Mask.maybe_mask(mask with a vector flag, Python flag): flags are and-ed", mmn, gv & pyflag, np.array(vv),
                      inner_flag=gv, flag=pyflag)
out["distinct_nontrivial"] = out["cases"]
print(json.dumps(out))
