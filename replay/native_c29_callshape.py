"""native demonstration (C29 known findings): FlipMVD / FlipEnumParallel / CategoricalEnumParallel cannot be differentiated"""
import sys, jax, jax.numpy as jnp
from genjax._src.adev.core import expectation
from genjax._src.adev.primitives import flip_mvd, flip_enum_parallel, categorical_enum_parallel
bad = 0
for name, prim, arg in (("flip_mvd", flip_mvd, jnp.array(0.3)), ("flip_enum_parallel", flip_enum_parallel, jnp.array(0.3)),
                        ("categorical_enum_parallel", categorical_enum_parallel, jnp.array([0.2, 0.8]))):
    @expectation
    def prog(p):
        b = prim(p)
        return jnp.where(b, 1.0, 3.0) if name != "categorical_enum_parallel" else b * 1.0
    try:
        print(name, prog.jvp_estimate(jax.random.key(0), (__import__("genjax")._src.adev.core.Dual(arg, jnp.ones_like(arg)),)))
    except Exception as e:
        print(name, "raises", type(e).__name__, str(e).splitlines()[0][:120]); bad = 1
sys.exit(bad)
