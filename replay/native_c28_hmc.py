"""native demonstration for C28: HMC.edit against a hand-written leapfrog integrator (exit 1 when they differ)"""
import sys, jax, jax.numpy as jnp, jax.random as jrand
import genjax
from genjax import gen, normal, Selection as S, Diff, ChoiceMap as C
from genjax._src.inference.requests.hmc import HMC

@gen
def model():
    x = normal(0.0, 1.0) @ "x"
    _ = normal(x * x, 0.5) @ "y"        # non-quadratic potential in x
    return x

key = jrand.key(3)
tr, _ = model.importance(key, C.kw(x=jnp.array(0.8), y=jnp.array(1.0)), ())
eps, L = 0.1, 3
new, alpha, _, _ = HMC(S.at["x"], jnp.array(eps), L).edit(key, tr, Diff.no_change(()))

def logp(x):
    return model.assess(C.kw(x=x, y=jnp.array(1.0)), ())[0]
grad = jax.grad(logp)
# reproduce the momentum draw of HMC.edit
k, sub = jrand.split(key)
from genjax._src.inference.requests.hmc import sample_momenta, selection_gradient
_, g0 = selection_gradient(S.at["x"], tr, Diff.no_change(()))
p, _ = sample_momenta(sub, g0)
p = p["x"]; q = jnp.array(0.8)
for _ in range(L):
    p = p + eps / 2 * grad(q); q = q + eps * p; p = p + eps / 2 * grad(q)
print("HMC.edit x =", float(new.get_choices()["x"]), " leapfrog x =", float(q))
sys.exit(0 if jnp.allclose(new.get_choices()["x"], q, rtol=1e-5, atol=1e-6) else 1)
