"""Axiom conformance (thorough tier): every trusted fact about JAX / TFP that theory/externals.py, theory/vector.py,
theory/keys.py and the tfd.Normal model of contracts/hmc.py rely on (assumptions A4, A5, A7, A8, A10 of DESIGN.md section 3) is
EXECUTED against the real libraries on sampled inputs.  This tests the assumptions; it is not a proof and is never counted as
one.  Prints one JSON object {"checked": n, "failed": [...]}; exit code 0 always (the caller reads `failed`)."""
import itertools
import json
import os

import jax
import jax.numpy as jnp
import jax.random as jrand
import jax.tree_util as jtu
import numpy as np

SEED = int(os.environ.get("VERIF_SEED", "0") or 0)
rng = np.random.default_rng(SEED)
checked, failed = [], []


def ax(name, ok, **info):
    checked.append(name)
    if not bool(ok):
        failed.append({"axiom": name, **{k: str(v)[:200] for k, v in info.items()}})


def close(a, b, tol=1e-6):
    return bool(jnp.allclose(jnp.asarray(a, dtype=float), jnp.asarray(b, dtype=float), rtol=tol, atol=tol))


# ---- A4 control / selection primitives
for p in (True, False):
    ax("A4 lax.cond(p,t,f,*a) = t(*a) if p else f(*a)", close(jax.lax.cond(jnp.array(p), lambda x: x + 1.0, lambda x: x * 10.0, 2.0), 3.0 if p else 20.0))
    ax("A4 jnp.where = ite elementwise", close(jnp.where(jnp.array([p, not p]), jnp.array([1.0, 2.0]), jnp.array([5.0, 6.0])), [1.0, 6.0] if p else [5.0, 2.0]))
fs = [lambda x: x + 1.0, lambda x: x * 10.0, lambda x: -x]
for i in (-5, -1, 0, 1, 2, 3, 9):
    ax("A4 lax.switch(i, fs, x) runs fs[clamp(i,0,n-1)]", close(jax.lax.switch(jnp.array(i), fs, 2.0), fs[min(max(i, 0), 2)](2.0)), i=i)
    ax("A4 jnp.choose(i, vs, mode='wrap') = vs[i mod n]", close(jnp.choose(jnp.array(i), [jnp.array(1.0), jnp.array(2.0), jnp.array(3.0)], mode="wrap"), [1.0, 2.0, 3.0][i % 3]), i=i)
    ax("A4 jnp.clip(i, 0, n-1) clamps", int(jnp.clip(jnp.array(i), 0, 2)) == min(max(i, 0), 2), i=i)
for a, b in itertools.product((True, False), repeat=2):
    ax("A4 jnp.logical_* are the connectives", bool(jnp.logical_and(a, b)) == (a and b) and bool(jnp.logical_or(a, b)) == (a or b)
       and bool(jnp.logical_xor(a, b)) == (a != b) and bool(jnp.logical_not(a)) == (not a))
ax("A4 jnp.arange(n)[i] = i", all(int(jnp.arange(5)[i]) == i for i in range(5)))
ax("A4 jnp.sum over an empty axis = 0, of a scalar = itself", close(jnp.sum(jnp.zeros((0,))), 0.0) and close(jnp.sum(jnp.array(3.5)), 3.5))
ax("A4 logsumexp([a]) = a", close(jax.scipy.special.logsumexp(jnp.array([1.7])), 1.7))
ax("A4 expand_dims(v, 0) = [v]", close(jnp.expand_dims(jnp.array(2.0), 0), [2.0]))
xs = jnp.array(rng.normal(size=4))
ax("A4 concatenate([a[None], xs])", close(jnp.concatenate([jnp.array(9.0)[None], xs])[0], 9.0) and close(jnp.concatenate([jnp.array(9.0)[None], xs])[1:], xs))
for i in (0, 2, 3, -1, 7):
    y = xs.at[i].set(100.0)
    want = np.array(xs)
    if -4 <= i < 4:
        want[i] = 100.0
    ax("A4 x.at[i].set(v): point update, negative from the end, out of range dropped", close(y, want), i=i)
    ax("A4 x[i] of a traced out-of-range index clamps", close(jax.jit(lambda v, j: v[j])(xs, jnp.array(i)), np.array(xs)[min(max(i if i >= 0 else i + 4, 0), 3)]), i=i)
M = jnp.array(rng.normal(size=(3, 4)))
ax("A4 jnp.take(v, i, axis=k) slices along axis k", close(jnp.take(M, 2, axis=1), M[:, 2]) and close(jnp.take(M, 1, axis=0), M[1]))
f2 = lambda col, c: jnp.sum(col) * c
ax("A4 vmap(f, in_axes)(xs)[i] = f(slice_i(xs))", close(jax.vmap(f2, in_axes=(1, None))(M, 2.0), [f2(M[:, j], 2.0) for j in range(4)])
   and close(jax.vmap(f2, in_axes=(0, None))(M, 2.0), [f2(M[j], 2.0) for j in range(3)]))
step = lambda c, x: (c * 0.5 + x, c - x)
c, ys = jax.lax.scan(step, 1.0, xs)
cc, yy = 1.0, []
for x in np.array(xs):
    cc, y = step(cc, x)
    yy.append(y)
ax("A4 lax.scan is the left fold with stacked outputs", close(c, cc) and close(ys, yy))
ax("A4 lax.scan over zero steps returns the initial carry", close(jax.lax.scan(step, 1.0, jnp.zeros((0,)))[0], 1.0))
sh = jax.eval_shape(lambda a: (a * 2.0, {"k": a[0]}), xs)
ax("A4 eval_shape returns the output structure", jtu.tree_structure(sh) == jtu.tree_structure((xs, {"k": xs[0]})) and sh[0].shape == (4,))
ax("A4 jnp.asarray preserves the value", close(jnp.asarray(2.5), 2.5) and bool(jnp.asarray(True)))

# ---- A5 pytrees
tree = {"b": (1.0, 2.0), "a": [3.0, {"z": 4.0, "y": 5.0}]}
ax("A5 tree_leaves order: dict keys sorted, sequences in order", jtu.tree_leaves(tree) == [3.0, 5.0, 4.0, 1.0, 2.0])
ax("A5 tree_map is leafwise and structure preserving", jtu.tree_map(lambda v: v * 2, tree) == {"b": (2.0, 4.0), "a": [6.0, {"z": 8.0, "y": 10.0}]})
ax("A5 tree_unflatten(tree_structure(t), leaves) rebuilds in leaf order", jtu.tree_unflatten(jtu.tree_structure(tree), [10, 20, 30, 40, 50]) == {"b": (40, 50), "a": [10, {"z": 30, "y": 20}]})
ax("A5 None is an empty subtree", jtu.tree_leaves((None, 1.0)) == [1.0])
from genjax import Pytree  # noqa: E402
from genjax._src.core.pytree import Closure, Const  # noqa: E402
ax("A5 a Pytree dataclass flattens to exactly its non-static fields in declaration order",
   jtu.tree_leaves(Closure((1.0, 2.0), print)) == [1.0, 2.0] and jtu.tree_leaves(Const(3)) == [])

# ---- A7 derivatives
g = lambda m, s: m + s * 0.7
p, t = jax.jvp(g, (1.0, 2.0), (0.3, -0.5))
ax("A7 jax.jvp = (f(primals), total derivative applied to tangents)", close(p, 1.0 + 2.0 * 0.7) and close(t, 0.3 - 0.5 * 0.7))
ax("A7 jax.grad is the gradient", close(jax.grad(lambda q: jnp.sum(q ** 2))(xs), 2 * xs))

# ---- A8 keys
k = jrand.key(SEED + 1)
for n in (1, 2, 5):
    ks = jrand.split(k, n)
    ax("A8 split(k, n)[a] == fold_in(k, a) (one slot namespace in theory/keys.py)",
       all(bool(jnp.all(jrand.key_data(ks[a]) == jrand.key_data(jrand.fold_in(k, a)))) for a in range(n)), n=n)
    data = [tuple(np.array(jrand.key_data(x)).tolist()) for x in ks] + [tuple(np.array(jrand.key_data(k)).tolist())]
    ax("A8 derived keys are pairwise distinct and differ from the parent", len(set(data)) == n + 1, n=n)
ax("A8 samplers are functions of (key, params)", close(jrand.normal(k, (3,)), jrand.normal(k, (3,))))
d1 = jax.vmap(lambda kk: jrand.normal(jrand.fold_in(kk, 0)))(jrand.split(k, 4000))
d2 = jax.vmap(lambda kk: jrand.normal(jrand.fold_in(kk, 1)))(jrand.split(k, 4000))
ax("A8 sibling keys draw (empirically) uncorrelated values", abs(float(jnp.corrcoef(d1, d2)[0, 1])) < 0.06)

# ---- A10 TFP
from tensorflow_probability.substrates import jax as tfp  # noqa: E402
tfd = tfp.distributions
v = jnp.array(rng.normal(size=5))
ax("A10 Normal(0,1).log_prob(x) = -x^2/2 - log(2 pi)/2 elementwise", close(tfd.Normal(0.0, 1.0).log_prob(v), -v ** 2 / 2 - jnp.log(2 * jnp.pi) / 2, tol=1e-5))
s = tfd.Normal(jnp.zeros(3), 1.0).sample(seed=k)
ax("A10 Normal(zeros(shape), 1).sample(seed=k) has that shape and is a function of k", s.shape == (3,) and close(s, tfd.Normal(jnp.zeros(3), 1.0).sample(seed=k)))
ax("A10 Bernoulli(probs=p, dtype=bool).log_prob", close(tfd.Bernoulli(probs=0.3, dtype=jnp.bool_).log_prob(True), jnp.log(0.3), tol=1e-5))
ax("A10 Categorical(logits) normalises", close(jnp.exp(tfd.Categorical(logits=jnp.array([0.1, 0.5, -1.0])).log_prob(jnp.arange(3))).sum(), 1.0, tol=1e-5))

e3 = tfd.Normal(loc=0.0, scale=1.0).sample(sample_shape=(3,), seed=k)
ax("A10 Normal(0,1).sample(sample_shape=s, seed=k) has shape s with distinct components", e3.shape == (3,) and len(set(np.asarray(e3).tolist())) == 3)

# ---- A4 (additions of round 4): maximum / minimum, sequence repetition, the extended reals
for a_, b_ in ((1.0, 2.0), (3, -1), (0.5, 0.5)):
    ax("A4 jnp.maximum / jnp.minimum on scalars are max / min", close(jnp.maximum(a_, b_), max(a_, b_)) and close(jnp.minimum(a_, b_), min(a_, b_)))
ax("A1' x > -inf is NOT valid for every float (x = -inf)", not bool(jnp.array(-jnp.inf) > -jnp.inf) and bool(jnp.array(0.0) > -jnp.inf))

# ---- A11 staging: staging jaxpr_as_fun(closed jaxpr) on its operands gives a jaxpr with the same equations (same primitives in
# the same order) and one output list - the ADEV interpreter's cond branch and forward_mode rely on it
from jax.extend.core import jaxpr_as_fun  # noqa: E402
from genjax._src.core.compiler.staging import stage  # noqa: E402
cj = jax.make_jaxpr(lambda x, y: jnp.sin(x) * y + 2.0)(1.0, 3.0)
closed2, (flat_in, _, out_tree) = stage(jaxpr_as_fun(cj))(1.0, 3.0)
ax("A11 stage(jaxpr_as_fun(cj))(*operands) has cj's equations", [e.primitive.name for e in closed2.jaxpr.eqns] == [e.primitive.name for e in cj.jaxpr.eqns],
   got=[e.primitive.name for e in closed2.jaxpr.eqns], want=[e.primitive.name for e in cj.jaxpr.eqns])
ax("A11 the staged function returns a list with one entry per output", out_tree().num_leaves == 1 and isinstance(jtu.tree_unflatten(out_tree(), [0.0]), list))
ax("A11 the staged program computes the same value", close(jax.core.eval_jaxpr(closed2.jaxpr, closed2.literals, 1.0, 3.0)[0], jnp.sin(1.0) * 3.0 + 2.0))

print(json.dumps({"checked": len(checked), "distinct": len(set(checked)), "failed": failed}))
