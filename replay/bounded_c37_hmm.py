"""C37 bounded stand-in (NOT a proof): the real DiscreteHMM against exhaustive enumeration.

For every configuration / observation sequence of the stated grid:
  * estimate_logpdf(z) for EVERY latent sequence z  ==  log p(z, y) - log sum_z' p(z', y)   (brute force over N^T sequences)
  * data_logpdf == log sum_z p(z, y)
  * the sampler: forward_filtering_backward_sampling is driven along EVERY latent sequence z by replacing
    jax.random.categorical with a function that returns the forced state and accumulates log softmax(logits)[state]
    (jit disabled so that lax.scan runs eagerly); the accumulated value is the exact probability with which the real
    sampler emits z; it must equal the posterior.  random_weighted must return (estimate_logpdf(v), v).
Prints one JSON object; exit code 0 always (the caller reads `violations`)."""
import itertools
import json
import os
import sys

import jax
import jax.numpy as jnp
import numpy as np

import genjax._src.generative_functions.distributions.custom.discrete_hmm as H

TIER = sys.argv[1] if len(sys.argv) > 1 else "quick"
TOL = 2e-4


def softmax_rows(m):
    m = np.asarray(m, dtype=np.float64)
    e = np.exp(m - m.max(axis=-1, keepdims=True))
    return e / e.sum(axis=-1, keepdims=True)


def brute(cfg, obs):
    n = int(cfg.linear_grid_dim)
    P, O = softmax_rows(cfg.transition_tensor()), softmax_rows(cfg.observation_tensor())
    prior = P[n // 2]
    joint = {}
    for z in itertools.product(range(n), repeat=len(obs)):
        p = prior[z[0]] * O[z[0], obs[0]]
        for t in range(1, len(obs)):
            p *= P[z[t - 1], z[t]] * O[z[t], obs[t]]
        joint[z] = p
    tot = sum(joint.values())
    return {z: float(np.log(p / tot)) for z, p in joint.items()}, float(np.log(tot))


def sampler_logprob(cfg, obs, z):
    """log-probability with which the real FFBS emits z (forced path; the backward scan visits z from the last state)"""
    forced = list(z)[::-1]
    acc = {"lp": 0.0, "i": 0}
    real = jax.random.categorical

    def fake(key, logits, *a, **k):
        s = forced[acc["i"]]
        acc["i"] += 1
        lg = np.asarray(logits, dtype=np.float64)
        acc["lp"] += float(lg[s] - np.log(np.exp(lg - lg.max()).sum()) - lg.max())
        return jnp.asarray(s)
    jax.random.categorical = fake
    try:
        with jax.disable_jit():
            _, (samples, _) = H.forward_filtering_backward_sampling(jax.random.key(0), cfg, jnp.asarray(obs))
    finally:
        jax.random.categorical = real
    return acc["lp"], tuple(int(v) for v in np.asarray(samples)), acc["i"]


def grid():
    if TIER == "quick":
        # even and odd N; truncation distances below and ABOVE half the grid (the circulant tensors are asymmetric only then)
        cfgs = [(2, 1, 1, 0.5, 0.5), (3, 1, 1, 0.5, 0.8), (3, 1, 2, 0.5, 0.8), (3, 2, 1, 0.3, 0.8)]
        lens = (1, 2, 3)
        per_len = 1
    else:
        pairs = ((0.3, 1.5), (0.9, 0.5))
        cfgs = [(n, kt, ko) + pairs[(n + kt + ko) % 2] for n in (2, 3, 4) for kt in (1, 2, 3) for ko in (1, 2, 3) if kt < n and ko < n]
        lens = (1, 2, 3)
        per_len = 1
    rng = np.random.default_rng(int(os.environ.get("VERIF_SEED", "0") or 0))
    for c in cfgs:
        for T in lens:
            if c[0] ** T > 300:
                continue
            allobs = list(itertools.product(range(c[0]), repeat=T))
            idx = rng.permutation(len(allobs))[:per_len]
            for i in sorted(idx):
                yield c, allobs[i]


def main():
    out = {"bound": f"tier={TIER}: " + ("N in {2,3}, " if TIER == "quick" else "N in {2,3,4}, all truncation distances kt, ko < N (below and above "
                                        "N/2), ") + "observation sequences of length 1..3 (one per length and configuration, chosen by VERIF_SEED), "
                    "ALL N^T latent sequences enumerated per case; quick configurations: (N,kt,ko) = (2,1,1), (3,1,1), (3,1,2), (3,2,1)",
           "evaluations": 0, "distinct_nontrivial": 0, "violations": [], "samples": [], "cases": 0}
    key = jax.random.key(1)
    for c, obs in grid():
        n, kt, ko, st, so = c
        cfg = H.DiscreteHMMConfiguration(jnp.array(n), jnp.array(kt), jnp.array(ko), jnp.array(st), jnp.array(so))
        case = f"N={n},k_trans={kt},k_obs={ko},sigma_trans={st},sigma_obs={so},obs={list(obs)}"
        out["cases"] += 1
        out["distinct_nontrivial"] += 1
        try:
            post, logz = brute(cfg, obs)
            o = jnp.asarray(obs)
            dl = float(H.DiscreteHMM.data_logpdf(cfg, o))
            out["evaluations"] += 1
            if abs(dl - logz) > TOL:
                out["violations"].append({"id": "data_logpdf", "what": f"data_logpdf={dl} but log marginal likelihood={logz} ({case})"})
            worst = 0.0
            for z, lp in post.items():
                e = float(H.DiscreteHMM.estimate_logpdf(key, jnp.asarray(z), cfg, o))
                out["evaluations"] += 1
                if abs(e - lp) > TOL:
                    out["violations"].append({"id": "estimate_logpdf", "what": f"estimate_logpdf({list(z)})={e} but exact log posterior={lp} ({case})"})
                    break
                slp, got, ncalls = sampler_logprob(cfg, obs, z)
                out["evaluations"] += 1
                if got != tuple(z) or ncalls != len(obs) or abs(slp - lp) > TOL:
                    out["violations"].append({"id": "sampler", "what": f"the sampler emits {list(z)} with log-probability {slp} "
                                              f"(returned {list(got)}, {ncalls} draws) but the exact log posterior is {lp} ({case})"})
                    break
                worst = max(worst, abs(e - lp), abs(slp - lp))
            w, v = H.DiscreteHMM.random_weighted(key, cfg, o)
            out["evaluations"] += 1
            vz = tuple(int(x) for x in np.asarray(v))
            if vz not in post or abs(float(w) - post[vz]) > TOL:
                out["violations"].append({"id": "random_weighted", "what": f"random_weighted returned ({float(w)}, {list(vz)}); exact log posterior of that sequence {post.get(vz)} ({case})"})
            if len(out["samples"]) < 3:
                out["samples"].append({"case": case, "latent_sequences_enumerated": len(post), "max_abs_error": worst})
        except Exception as e:  # the real code raised
            out["violations"].append({"id": "raises", "what": f"{type(e).__name__}: {str(e).splitlines()[0][:200]} ({case})"})
            break
        if len(out["violations"]) >= 3:
            break
        jax.clear_caches()          # every configuration compiles its own kernels: keep the JIT code cache bounded
    print(json.dumps(out))


main()
