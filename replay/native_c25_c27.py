"""native demonstration of C25 (Marginal) and C27 (Rejuvenate) on the real code; exit 1 if a property fails"""
import sys, jax, jax.numpy as jnp
import genjax
from genjax import gen, normal, ChoiceMap as C, Selection as S, Diff
from genjax._src.inference.requests.rejuvenate import Rejuvenate
bad = 0
@gen
def model():
    x = normal(0.0, 1.0) @ "x"
    y = normal(x, 0.5) @ "y"
    return y
key = jax.random.key(1)
# C25: everything selected -> weight == estimate_logpdf of the same sample == score
m = model.marginal()
w, chm = m.random_weighted(key)
lp = m.estimate_logpdf(key, chm)
print("marginal all: w", w, "estimate_logpdf", lp)
bad |= not jnp.allclose(w, lp, rtol=1e-4)
mx = model.marginal(selection=S.at["x"])
w, chm = mx.random_weighted(key)
import tensorflow_probability.substrates.jax as tfp
want = tfp.distributions.Normal(0.0, 1.0).log_prob(chm["x"])
print("marginal x: w", w, "log p(x)", want)
bad |= not jnp.allclose(w, want, rtol=1e-4)
# C27: drifting random-walk proposal
@gen
def prop(x):
    return normal(x + 1.0, 0.3) @ "x"
tr = model.simulate(key, ())
req = Rejuvenate(prop, lambda chm: (chm["x"],))
new, w, _, _ = req.edit(key, tr, Diff.no_change(()))
x0, x1 = tr.get_choices()["x"], new.get_choices()["x"]
N = tfp.distributions.Normal
want = new.get_score() - tr.get_score() + N(x1 + 1.0, 0.3).log_prob(x0) - N(x0 + 1.0, 0.3).log_prob(x1)
print("rejuvenate: w", w, "MH log ratio", want)
bad |= not jnp.allclose(w, want, rtol=1e-4)
sys.exit(1 if bad else 0)
