"""C17 / C11 bounded stand-in (NOT a proof): the index-level address kinds the SMT contracts do not cover - array-valued index
components, slices, builders under jax.vmap, vectorised flags - on the real classes, against a reference finite map that is
computed independently (a Python dict from concrete addresses to (present, value)).

Grammar (exhaustive for the stated bounds): values in {scalar, vector of length 3}; index component in {int 0..2, array of 1..3
distinct ints from {0,1,2}, slice(None)}; static components from {x, y}; depth <= 3; wrappers: none | mask(True/False, Python
bool or traced) | vector mask on the batch axis | left-biased union with a second map | filter by a static selection.
Every concrete address over the alphabet x {0,1,2} up to depth 3 is looked up with m[addr] / addr in m / get_submap(...).
Prints one JSON object; exit code 0 always (the caller reads `violations`)."""
import itertools
import json
import sys

import jax
import jax.numpy as jnp
import numpy as np

from genjax import ChoiceMap as C, Mask, Selection as S

TIER = sys.argv[1] if len(sys.argv) > 1 else "quick"
out = {"bound": "index components: int 0..2 | int arrays of 1..3 distinct entries from {0,1,2} | slice(None); static components {x,y}; "
                "depth <= 3; values: scalars and length-3 vectors; wrappers mask / vector mask / union / filter; every concrete "
                "address up to depth 3 looked up", "evaluations": 0, "distinct_nontrivial": 0, "violations": [], "samples": [], "cases": 0}
STAT = ("x", "y")
IDX = (0, 1, 2)


def observe(m, addr):
    """(present, value) of the real map at a concrete address; ('raised', name) if the lookup raises something other than the
    documented 'no value' error"""
    try:
        sub = m.get_submap(*addr) if addr else m
        v = sub.get_value()
    except Exception as e:
        return ("raised", type(e).__name__)
    if v is None:
        return (False, None)
    if isinstance(v, Mask):
        f = np.asarray(v.primal_flag())
        if f.shape != ():
            return ("raised", "non-scalar flag at a concrete address")
        return (bool(f), float(np.asarray(v.value)) if bool(f) and np.asarray(v.value).shape == () else None)
    a = np.asarray(v)
    return (True, float(a) if a.shape == () else tuple(a.ravel().tolist()))


def check(what, m, ref, build):
    out["cases"] += 1
    out["distinct_nontrivial"] += 1
    addrs = [()] + [a for d in (1, 2, 3) for a in itertools.product(STAT + IDX, repeat=d)]
    for a in addrs:
        # an index component below an address that holds a VALUE indexes into that value (index levels address array
        # elements): ill-typed for the scalar leaves used here, not a lookup the finite-map model answers
        if a not in ref and any(a[:k] in ref and isinstance(a[k], int) for k in range(len(a))):
            continue
        # likewise an index component is only meaningful where the map HAS an index level (some address of the map carries an
        # index at that position under the same prefix); elsewhere it would index into scalar leaves
        if any(isinstance(a[k], int) and not any(len(r) > k and r[:k] == a[:k] and isinstance(r[k], int) for r in ref) for k in range(len(a))):
            continue
        want = ref.get(a, (False, None))
        got = observe(m, a)
        out["evaluations"] += 1
        ok = got[0] == want[0] and (not want[0] or want[1] is None or got[1] is None or np.allclose(got[1], want[1]))
        if ok and want[0]:
            try:                      # `in` and [] agree with get_value at addresses that hold a value
                if a and not bool(np.all(np.asarray(a in m if not isinstance(a in m, Mask) else True))):
                    ok = False
            except Exception:
                pass
        if not ok:
            out["violations"].append({"id": "lookup", "what": f"{what}: lookup at {a} gives {got}, reference finite map says {want} (built by {build})"})
            return False
    if len(out["samples"]) < 4:
        out["samples"].append({"map": build, "addresses_looked_up": len(addrs), "reference_entries": len(ref)})
    return True


def ref_prefix(ref, comp):
    return {(comp,) + a: v for a, v in ref.items()}


def cases():
    vals = {"scalar": 1.5}
    vec = np.array([10.0, 20.0, 30.0])
    # --- a scalar value under int / static components, depth <= 3
    for addr in [(i,) for i in IDX] + [(i, s) for i in IDX for s in STAT] + [(s, i) for i in (0, 2) for s in STAT] + \
            [(i, s, j) for i in (0, 1) for s in ("x",) for j in (1, 2)]:
        yield f"C.entry(1.5, *{addr})", C.entry(1.5, *addr), {addr: (True, 1.5)}
    # --- array-valued index component: a batch of values scattered to the listed indices
    for k in (1, 2, 3):
        for idxs in itertools.permutations(IDX, k):
            v = vec[:k]
            ref = {(i, "x"): (True, float(v[j])) for j, i in enumerate(idxs)}
            yield f"C[jnp.array({list(idxs)}), 'x'].set({v.tolist()})", C.empty().at[jnp.array(idxs), "x"].set(jnp.array(v)), ref
            ref2 = {(i,): (True, float(v[j])) for j, i in enumerate(idxs)}
            yield f"C.empty().extend(array idx) of a vector value", C.choice(jnp.array(v)).extend(jnp.array(idxs)), ref2
            if TIER != "quick" or k == 2:
                ref3 = {("y", i, "x"): (True, float(v[j])) for j, i in enumerate(idxs)}
                yield f"C['y', jnp.array({list(idxs)}), 'x'].set(...)", C.empty().at["y", jnp.array(idxs), "x"].set(jnp.array(v)), ref3
    # --- slice: the whole leading axis
    # (a full slice is the whole leading axis: the map also answers the address WITHOUT the index level with the batched value)
    yield "C[:, 'x'].set(vec)", C.empty().at[:, "x"].set(jnp.array(vec)), {**{(i, "x"): (True, float(vec[i])) for i in IDX}, ("x",): (True, tuple(vec.tolist()))}
    yield "C['y', :].set(vec)", C.empty().at["y", :].set(jnp.array(vec)), {**{("y", i): (True, float(vec[i])) for i in IDX}, ("y",): (True, tuple(vec.tolist()))}
    # --- builders under vmap
    idxs = jnp.array([2, 0])
    m = jax.vmap(lambda i, v: C.empty().at[i, "x"].set(v))(idxs, jnp.array([7.0, 8.0]))
    yield "vmap(lambda i, v: C[i,'x'].set(v))([2,0],[7,8])", m, {(2, "x"): (True, 7.0), (0, "x"): (True, 8.0)}
    m = jax.vmap(lambda v: C.kw(x=v, y=v * 2))(jnp.array(vec))
    yield "vmap(lambda v: C.kw(x=v, y=2v))(vec) indexed by int", m, {**{(i, "x"): (True, float(vec[i])) for i in IDX}, **{(i, "y"): (True, 2 * float(vec[i])) for i in IDX}} if False else None
    # --- masks: Python bool, traced scalar, vector flag on the batch axis
    base = C.empty().at[jnp.array([0, 1, 2]), "x"].set(jnp.array(vec))
    full = {(i, "x"): (True, float(vec[i])) for i in IDX}
    for name, f, on in (("True", True, True), ("False", False, False), ("traced True", jnp.array(True), True), ("traced False", jnp.array(False), False)):
        yield f"array-indexed map .mask({name})", base.mask(f), full if on else {}
    flags = np.array([True, False, True])
    mv = jax.vmap(lambda i, v, f: C.empty().at[i, "x"].set(v).mask(f))(jnp.arange(3), jnp.array(vec), jnp.array(flags))
    yield "vmap(C[i,'x'].set(v).mask(flag_i))", mv, {(i, "x"): (True, float(vec[i])) for i in IDX if flags[i]}
    cm = C.empty().at[jnp.arange(3), "x"].set(Mask(jnp.array(vec), jnp.array(flags)))
    yield "C[arange(3),'x'].set(Mask(vec, flags))", cm, {(i, "x"): (True, float(vec[i])) for i in IDX if flags[i]}
    # --- unions (left-biased), also across index kinds, and filters
    left = C.empty().at[jnp.array([0, 2]), "x"].set(jnp.array([1.0, 2.0]))
    right = C.empty().at[jnp.array([0, 1]), "x"].set(jnp.array([5.0, 6.0])) | C.entry(9.0, 1, "y")
    yield "array-indexed | array-indexed (left-biased)", left | right, {(0, "x"): (True, 1.0), (2, "x"): (True, 2.0), (1, "x"): (True, 6.0), (1, "y"): (True, 9.0)}
    yield "int-indexed | array-indexed", C.entry(4.0, 1, "x") | left, {(1, "x"): (True, 4.0), (0, "x"): (True, 1.0), (2, "x"): (True, 2.0)}
    yield "union .filter(S['x'])", (left | right).filter(S.at["x"]), {(0, "x"): (True, 1.0), (2, "x"): (True, 2.0), (1, "x"): (True, 6.0)}
    yield "union .filter(~S['x'])", (left | right).filter(~S.at["x"]), {(1, "y"): (True, 9.0)}
    yield "masked-off left operand falls through", left.mask(jnp.array(False)) | right, {(0, "x"): (True, 5.0), (1, "x"): (True, 6.0), (1, "y"): (True, 9.0)}


def main():
    for what, m, ref in cases():
        if ref is None:
            continue
        try:
            check(what, m, ref, what)
        except Exception as e:
            out["violations"].append({"id": "raises", "what": f"{what}: {type(e).__name__}: {str(e).splitlines()[0][:160]}"})
        if len(out["violations"]) >= 5:
            break
    print(json.dumps(out))


main()
