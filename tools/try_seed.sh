#!/bin/bash
# usage: tools/try_seed.sh <seed-dir containing patch.diff and demo.py> <prop> [<prop> ...]
# applies the patch to a scratch copy of /repo (outside /repo and /verif), confirms the demo, runs the named checks on it
S=$1; shift
D=/var/tmp/seedscratch.$$
rm -rf $D; mkdir -p $D; cp -r /repo/src $D/src; cp -r /repo/tests $D/tests 2>/dev/null
( cd $D && patch -p1 -s < $S/patch.diff ) || { echo "PATCH FAILED"; rm -rf $D; exit 9; }
echo "demo on clean tree:   exit $(cd /var/tmp && PYTHONPATH=/repo/src /venv/bin/python $S/demo.py >/dev/null 2>&1; echo $?)"
echo "demo on patched tree: exit $(cd /var/tmp && PYTHONPATH=$D/src /venv/bin/python $S/demo.py >/dev/null 2>&1; echo $?)"
for p in "$@"; do
  out=$(cd /verif && VERIF_REPO=$D VERIF_EVIDENCE_DIR=/var/tmp/seed_evidence ./check $p 2>/dev/null)
  echo "$p exit=$? :: $(echo "$out" | head -1)"
  echo "$out" | grep "^VIOLATION\|^UNDECIDED\|^CHECKER" | cut -c1-200 | head -6
done
rm -rf $D
