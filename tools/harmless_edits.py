"""usage: python3 tools/harmless_edits.py  - applies, one at a time, semantics-preserving edits of the repository (renamed
locals, temporaries, reordered independent statements, the two halves of a key split swapped, a generator turned into a list
comprehension ...) to a scratch copy under /var/tmp and runs the checks that read the edited function.  Every check must stay
at exit 0: a VIOLATION here is a FALSE ALARM of the framework (a contract that talks about incidental temporaries instead of the
abstraction), an exit 2 / 3 means the edit left the engine's Python subset (no verdict - reported, not an alarm)."""
import os
import shutil
import subprocess

EDITS = [
    ("H1 mask.simulate: slices via temporaries, renamed locals", "genjax/_src/generative_functions/combinators/mask.py",
     "        check, inner_args = args[0], args[1:]\n        tr = self.gen_fn.simulate(key, inner_args)\n        return MaskTrace.build(self, tr, check)",
     "        flag = args[0]\n        rest = args[1:]\n        callee = self.gen_fn\n        inner_trace = callee.simulate(key, rest)\n        return MaskTrace.build(self, inner_trace, flag)",
     ["C14", "C01"]),
    ("H2 vmap.simulate: lambda instead of bound method, renamed locals", "genjax/_src/generative_functions/combinators/vmap.py",
     "        sub_keys = jax.random.split(key, dim_length)\n\n        # vmapping over `gen_fn`'s `simulate` gives us a new trace with vector-shaped leaves.\n        tr = jax.vmap(self.gen_fn.simulate, (0, self.in_axes))(sub_keys, args)\n\n        return VmapTrace.build(self, tr, args, dim_length)",
     "        ks = jax.random.split(key, dim_length)\n        run_one = lambda k_, a_: self.gen_fn.simulate(k_, a_)\n        stacked = jax.vmap(run_one, (0, self.in_axes))(ks, args)\n        return VmapTrace.build(self, stacked, args, dim_length)",
     ["C11", "C04"]),
    ("H3 rejuvenate: the two halves of the key split swapped", "genjax/_src/inference/requests/rejuvenate.py",
     "        key, sub_key = jrand.split(key)", "        sub_key, key = jrand.split(key)", ["C27"]),
    ("H4 adev cond: the two halves of the key split swapped", "genjax/_src/adev/core.py",
     "                        key, sub_key = jax.random.split(key)\n\n                        # Create dual continuation for the computation after the cond_p.",
     "                        sub_key, key = jax.random.split(key)\n\n                        # Create dual continuation for the computation after the cond_p.",
     ["C29"]),
    ("H5 smc: evidence estimate with the count hoisted into locals", "genjax/_src/inference/smc.py",
     "        return logsumexp(self.log_weights) - jnp.log(len(self.log_weights))",
     "        n_particles = len(self.log_weights)\n        total = logsumexp(self.log_weights)\n        return total - jnp.log(n_particles)",
     ["C26"]),
    ("H6 scan.edit_index: two independent statements reordered", "genjax/_src/generative_functions/combinators/scan.py",
     "        idx_array = jnp.arange(trace.scan_length)\n        slice_scanned_out = Diff.tree_primal(scanned_retdiff)",
     "        slice_scanned_out = Diff.tree_primal(scanned_retdiff)\n        idx_array = jnp.arange(trace.scan_length)",
     ["C12", "C06"]),
    ("H7 switch.edit: generator turned into a list comprehension over the records", "genjax/_src/generative_functions/combinators/switch.py",
     "        if all(Diff.static_check_no_change(rd) for _, _, rd, _ in rets):",
     "        if all([Diff.static_check_no_change(r[2]) for r in rets]):", ["C05", "C13"]),
    ("H8 static request handler: weight accumulated and site recorded before the backward request is stored",
     "genjax/_src/generative_functions/static.py",
     "        self.bwd_requests.append(bwd_request)\n        self.weight += w\n        self.record(addr, tr)\n        return retval_diff\n\n\ndef static_edit_request_transform",
     "        self.weight = self.weight + w\n        self.record(addr, tr)\n        self.bwd_requests.append(bwd_request)\n        return retval_diff\n\n\ndef static_edit_request_transform",
     ["C38"]),
    ("H9 tail call primitive: the two halves of the key split swapped", "genjax/_src/adev/core.py",
     "        key, sub_key = jax.random.split(key)\n        return kdual(key, self.before_tail_call(sub_key, dual_tree))",
     "        sub_key, key = jax.random.split(key)\n        return kdual(key, self.before_tail_call(sub_key, dual_tree))", ["C29"]),
    ("H11 static handlers: ANOTHER key derivation scheme with the same guarantees (the handler key is split at every site "
     "instead of folding in a counter) - results change for a given key, the property (independent site keys derived from the "
     "caller's key, deterministic in the key) does not", "genjax/_src/generative_functions/static.py",
     "        new_key = jax.random.fold_in(self.key, self.key_counter)\n        self.key_counter += 1\n        return new_key\n",
     "        self.key, new_key = jax.random.split(self.key)\n        self.key_counter += 1\n        return new_key\n",
     ["C04", "C22", "C05", "C07"]),
    ("H12 smc: the two halves of every key split swapped (Importance / ImportanceK run_smc and run_csmc, the SampleDistribution face)",
     "genjax/_src/inference/smc.py",
     "        key, sub_key = jrandom.split(key)\n", "        sub_key, key = jrandom.split(key)\n", ["C26", "C30"]),
    ("H13 hmc: the two halves of the key split swapped (momenta from one half, the leapfrog updates from the other)",
     "genjax/_src/inference/requests/hmc.py",
     "        key, sub_key = jrand.split(key)\n", "        sub_key, key = jrand.split(key)\n", ["C28"]),
    ("H14 marginal: the two halves of both key splits of Marginal.random_weighted swapped", "genjax/_src/inference/sp.py",
     "        key, sub_key = jax.random.split(key)\n", "        sub_key, key = jax.random.split(key)\n", ["C25"]),
    ("H15 adev primitives: the two halves of every `key, sub_key = split(key)` swapped (REINFORCE, the reparameterised primitives)",
     "genjax/_src/adev/primitives.py",
     "        key, sub_key = jax.random.split(key)\n", "        sub_key, key = jax.random.split(key)\n", ["C29", "C30"]),
    ("H10 distribution.edit_regenerate: new value computed into differently named locals", "genjax/_src/generative_functions/distributions/distribution.py",
     "            w, new_v = self.random_weighted(key, *primals)\n            incremental_w = w - trace.get_score()\n            old_v = trace.get_retval()\n            new_trace = DistributionTrace(self, primals, new_v, w)",
     "            old_v = trace.get_retval()\n            fresh_score, fresh_value = self.random_weighted(key, *primals)\n            new_v, w = fresh_value, fresh_score\n            new_trace = DistributionTrace(self, primals, fresh_value, fresh_score)\n            incremental_w = fresh_score - trace.get_score()",
     ["C07"]),
]


def main():
    D = "/var/tmp/harmless/tree"
    alarms = 0
    import sys
    only = sys.argv[1] if len(sys.argv) > 1 else ""
    for name, rel, a, b, props in EDITS:
        if only and not name.startswith(only):
            continue
        shutil.rmtree(D, ignore_errors=True)
        shutil.copytree("/repo/src", D + "/src")
        p = f"{D}/src/{rel}"
        s = open(p).read()
        if s.count(a) != 1 and not (name.startswith("H11") and s.count(a) == 5) and not (name.startswith(("H12", "H14", "H15")) and s.count(a) >= 2):
            # (H11: every handler class; H12: every split of the module)
            print(name, ":: PATTERN NOT FOUND (the repository changed: adapt the edit)", s.count(a))
            continue
        open(p, "w").write(s.replace(a, b))
        for pr in props:
            env = dict(os.environ, VERIF_REPO=D, VERIF_EVIDENCE_DIR=D + "/ev", VERIF_REPLAY_DIR=D + "/replays", VERIF_JOBS="4")
            r = subprocess.run(["./check", pr], cwd=os.path.dirname(os.path.dirname(os.path.abspath(__file__))), env=env,
                               capture_output=True, text=True)
            first = r.stdout.splitlines()[0] if r.stdout else r.stderr[-200:]
            verdict = {0: "silent", 1: "FALSE ALARM", 2: "no verdict (undecided)", 3: "no verdict (checker)"}.get(r.returncode, "?")
            alarms += r.returncode == 1
            print(f"{name} :: ./check {pr} -> exit {r.returncode} {verdict} :: {first[:110]}")
            for l in r.stdout.splitlines():
                if l.startswith(("VIOLATION", "UNDECIDED", "CHECKER")):
                    print("     ", l[:220])
        shutil.rmtree(D, ignore_errors=True)
    print("false alarms:", alarms)
    return 1 if alarms else 0


if __name__ == "__main__":
    raise SystemExit(main())
