"""usage: python3-vt tools/uncovered.py [Cxx]  - for every property: the functions / methods DEFINED in the property's anchor
files that no contract task lists among its `functions` (i.e. that are not under contract for any property).  This is the
complement of the 'functions under contract' lists of the evidence: code a property may depend on that no obligation reads.
Abstract methods, dunder methods other than __call__/__or__/..., and pure data classes are listed too - read with judgement."""
import ast
import importlib
import json
import os
import pkgutil
import sys

ROOT = os.path.dirname(os.path.dirname(os.path.abspath(__file__)))
sys.path.insert(0, ROOT)
REPO = os.environ.get("VERIF_REPO", "/repo")


def defined(path):
    """qualified names 'Class.method' / 'function' defined in a source file (nested functions excluded)"""
    tree = ast.parse(open(path).read())
    out = []
    for n in tree.body:
        if isinstance(n, (ast.FunctionDef, ast.AsyncFunctionDef)):
            out.append(n.name)
        elif isinstance(n, ast.ClassDef):
            for m in n.body:
                if isinstance(m, (ast.FunctionDef, ast.AsyncFunctionDef)):
                    body = [s for s in m.body if not (isinstance(s, ast.Expr) and isinstance(s.value, ast.Constant))]
                    trivial = len(body) == 1 and isinstance(body[0], (ast.Pass, ast.Raise))
                    abstract = any(isinstance(d, ast.Name) and d.id == "abstractmethod" or
                                   isinstance(d, ast.Attribute) and d.attr == "abstractmethod" for d in m.decorator_list)
                    if not (trivial or abstract):
                        out.append(f"{n.name}.{m.name}")
    return out


def main():
    import contracts
    from pyvc.task import TASKS
    for m in pkgutil.iter_modules(contracts.__path__):
        importlib.import_module("contracts." + m.name)
    under = {}
    for td in TASKS.values():
        for q in td.functions:
            mod, _, name = q.partition(":")
            under.setdefault(mod, set()).add(name)
    only = sys.argv[1] if len(sys.argv) > 1 else None
    seen_files = {}
    for line in open(os.path.join(ROOT, "properties.jsonl")):
        p = json.loads(line)
        if only and p["id"] != only:
            continue
        rows = []
        for rel in p["anchors"]["files"]:
            path = os.path.join(REPO, rel)
            if not os.path.exists(path) or not rel.endswith(".py"):
                continue
            mod = rel[len("src/"):-3].replace("/", ".")
            if mod.endswith(".__init__"):
                mod = mod[:-9]
            names = defined(path)
            cov = under.get(mod, set())
            missing = [n for n in names if n not in cov]
            seen_files[rel] = (len(names), len(missing))
            rows.append((rel, len(names), missing))
        print(f"## {p['id']} {p['title']}")
        for rel, n, missing in rows:
            print(f"- `{rel}`: {n - len(missing)}/{n} defined functions under contract" + ("" if not missing else "; not under contract: " +
                  ", ".join(f"`{x}`" for x in missing)))
        print()
    tot = sum(a for a, _ in seen_files.values())
    mis = sum(b for _, b in seen_files.values())
    print(f"anchor files: {len(seen_files)}; functions defined: {tot}; under contract: {tot - mis}; not under contract: {mis}")


if __name__ == "__main__":
    main()
