import sys, importlib
sys.path.insert(0, '/verif')
from pyvc.loader import Repo
from pyvc.task import TASKS, E
from pyvc.ctx import Ctx
from pyvc.interp import Interp
from theory.gfi import Theory
mod, name, path = sys.argv[1], sys.argv[2], eval(sys.argv[3])
importlib.import_module("contracts." + mod)
ctx = Ctx(path); I = Interp(Repo(), ctx, Theory())
try:
    TASKS[name].fn(E(I, TASKS[name]))
except Exception as e:
    import traceback; traceback.print_exc()
for t in ctx.trace: print(t)
for o in ctx.obligations:
    if o.status != 'proved': print(o.name, o.status, o.model)
