import sys, importlib, time
sys.path.insert(0, '/verif')
from pyvc.loader import Repo
from pyvc.task import TASKS, run_task
from theory.gfi import Theory
mod, pat = sys.argv[1], (sys.argv[2] if len(sys.argv) > 2 else "")
importlib.import_module("contracts." + mod)
repo = Repo()
for name, td in TASKS.items():
    if pat and pat not in name: continue
    r = run_task(td, repo, Theory)
    print(f"== {name}: paths={r.paths} infeasible={r.infeasible} secs={r.secs:.2f} crash={bool(r.crash)}")
    if r.crash: print(r.crash)
    for u in r.undecided[:5]: print("   UNDECIDED", u)
    agg = {}
    for ob in r.obligations:
        agg.setdefault(ob.name, []).append(ob)
    for n, obs in agg.items():
        st = {o.status for o in obs}
        print(f"   {n}: {sorted(st)} x{len(obs)}")
        for o in obs:
            if o.status != "proved" and not n.startswith("canary"):
                print("      path", o.path, "info", o.info); print("      model", {k:v for k,v in (o.model or {}).items() if not v.startswith('[') and not v.startswith('U!')}); break
    print("   covers", r.covers)
