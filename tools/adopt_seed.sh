#!/bin/bash
# usage: tools/adopt_seed.sh <worktree-seed-dir e.g. /tmp/wt_C25/_seed/seed1> <seeded-id e.g. C25-marginal-foo> <prop> [<prop> ...]
# copies patch.diff / demo.py / notes.txt into /verif/seeded/<id>/ (no meta.json: that is written by hand once the outcome is
# known) and runs tools/try_seed.sh (demo on clean + patched scratch copy, then the named checks on the patched copy)
set -e
SRC=$1; ID=$2; shift 2
D=/verif/seeded/$ID
mkdir -p $D
cp $SRC/patch.diff $SRC/demo.py $D/
[ -f $SRC/notes.txt ] && cp $SRC/notes.txt $D/
/verif/tools/try_seed.sh $D "$@"
