#!/bin/bash
# usage: tools/mut.sh <file-relative-to-src> <python-regex-from> <to> <contracts-module> [task-pattern]
set -e
D=/var/tmp/mutscratch
rm -rf $D; mkdir -p $D; cp -r /repo/src $D/src
python3 - "$D/src/$1" "$2" "$3" <<'PY'
import sys,re
p,a,b=sys.argv[1:4]
s=open(p).read()
n=s.count(a)
assert n>=1, f"pattern not found: {a}"
s=s.replace(a,b,1)
open(p,'w').write(s)
PY
VERIF_REPO=$D python3-vt /verif/tools/dev_run.py $4 $5 2>&1 | grep -v "proved'\] x" | grep -v "^   covers" || true
rm -rf $D
