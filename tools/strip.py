#!/usr/bin/env python3
"""print a python file without docstrings / license header, with original line numbers"""
import ast, sys
src = open(sys.argv[1]).read()
tree = ast.parse(src)
skip = set()
for node in ast.walk(tree):
    if isinstance(node, (ast.FunctionDef, ast.ClassDef, ast.AsyncFunctionDef, ast.Module)):
        b = node.body
        if b and isinstance(b[0], ast.Expr) and isinstance(b[0].value, ast.Constant) and isinstance(b[0].value.value, str):
            for l in range(b[0].lineno, b[0].end_lineno + 1):
                skip.add(l)
for i, line in enumerate(src.splitlines(), 1):
    if i in skip: continue
    s = line.strip()
    if not s or s.startswith('#'): continue
    print(f"{i}\t{line}")
