#!/usr/bin/env python3-vt
"""regenerates /verif/MANIFEST.json from the registered tasks + the per-property notes in tools/manifest_notes.json"""
import json, os, sys
ROOT = os.path.dirname(os.path.dirname(os.path.abspath(__file__)))
sys.path.insert(0, ROOT)
from pyvc.check import load_contracts
from pyvc.task import TASKS

load_contracts()
props = [json.loads(l) for l in open(os.path.join(ROOT, "properties.jsonl"))]
notes = json.load(open(os.path.join(ROOT, "tools", "manifest_notes.json")))
served = {}
for n, td in TASKS.items():
    for p in td.props:
        served.setdefault(p, {"proof": 0, "bounded": 0})[td.kind if td.kind in ("proof", "bounded") else "proof"] += 1
checks, na = [], []
for p in props:
    pid = p["id"]
    nt = notes.get(pid, {})
    if pid not in served or nt.get("not_applicable"):
        na.append({"property_id": pid, "reason": nt.get("not_applicable") or "no contract built yet for this property"})
        continue
    s = served[pid]
    only_bounded = s["proof"] == 0
    cat = nt.get("category") or ("exploration" if only_bounded else "proof")
    checks.append({
        "property_id": pid,
        "quick_cmd": f"./check {pid} --tier quick",
        "thorough_cmd": f"./check {pid} --tier thorough",
        "evidence_file": f"evidence/{pid}.json",
        "replay_cmd_template": f"./check {pid} --replay {{path}}",
        "engine": "pyvc",
        "level_claimed": {"category": cat, "text": nt.get("text", "contract obligations on the real functions discharged by SMT"),
                          "design_ref": nt.get("design_ref", "DESIGN.md §5 " + pid)},
        "level_note": nt.get("level_note", notes.get("_default_note", "trusted base: A1-A12 of DESIGN.md §3 (listed per run in the evidence file)")),
        "technique": nt.get("technique", "contract-based deductive verification: AST symbolic execution of the real functions against "
                                         "sidecar contracts, VCs discharged by z3/cvc5") if not only_bounded else
        nt.get("technique", "bounded check of the real functions (stand-in, not counted as proved)"),
    })
m = {
    "version": 1,
    "setup_cmd": "python3-vt -m pyvc.selfcheck",
    "hooks": {"guard": "GENJAX_VERIF", "enable": "none: the engine parses /repo/src on every run; replays and bounded stand-ins "
              "import the real genjax under /venv/bin/python; no hook code is compiled into the repository",
              "baseline_off_cmd": "cd /repo && /venv/bin/python -m pytest -ra -q -p no:cacheprovider --timeout=900 --continue-on-collection-errors",
              "source_commits": [], "add_only": True},
    "engines": [{"name": "pyvc", "path": "pyvc/", "serves_properties": sorted(served),
                 "kind_free_text": "verification-condition generator: symbolic executor over the Python AST of the real genjax sources, "
                                   "sidecar contracts in contracts/, abstract callees in theory/, SMT back ends z3 5.1 -> cvc5 -> z3 4.8"}],
    "checks": checks,
    "notes": notes.get("_notes", ""),
    "not_applicable": na,
}
json.dump(m, open(os.path.join(ROOT, "MANIFEST.json"), "w"), indent=1)
print(f"{len(checks)} checks, {len(na)} not applicable")
