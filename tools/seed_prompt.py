"""prints the brief given to an independent sub-agent that seeds property-breaking changes (only the property text and the
path of its own scratch worktree; nothing from /verif)
usage: python3 tools/seed_prompt.py C12 [/tmp/wt_C12]"""
import json
import sys

pid = sys.argv[1]
wt = sys.argv[2] if len(sys.argv) > 2 else f"/tmp/wt_{pid}"
p = [json.loads(l) for l in open("/verif/properties.jsonl") if l.strip()]
p = [x for x in p if x["id"] == pid][0]
files = ", ".join(p["anchors"]["files"])
mech = "; ".join(f"{m['name']} ({m['where']})" for m in p["anchors"].get("mechanism", []))
print(f"""You are helping to evaluate a verification harness by producing a realistic, subtle BUG in a Python library. Work ONLY inside the git worktree {wt} (a checkout of the library genjax: probabilistic programming on JAX). Do NOT read or write anything under /repo or /verif. The Python interpreter to use is /venv/bin/python and you MUST set PYTHONPATH={wt}/src so that the worktree's sources are imported (check with: cd {wt} && PYTHONPATH={wt}/src /venv/bin/python -c "import genjax; print(genjax.__file__)"). There is no network. NEVER use `git stash` (the stash is shared with other checkouts); to switch between clean and changed code use `git diff > /tmp/<name>.diff`, `git checkout -- .` and `git apply /tmp/<name>.diff`.

PROPERTY (must hold for the library; your job is to break it):
Title: {p['title']}
"{p['statement']}"
Quantified over: {p['quantifier']['text']}
Relevant source files (under {wt}/): {files}
Mechanisms involved: {mech}

TASK: produce TWO different, independent source changes (seed1 and seed2, each a small edit to files under src/genjax/) such that each one:
 1. breaks the property above for some inputs;
 2. still imports fine and still passes the EXISTING test suite: run `cd {wt} && PYTHONPATH={wt}/src /venv/bin/python -m pytest -q -p no:cacheprovider --timeout=900 -x tests` (takes 7-15 minutes; you may first run the most relevant test files, but the full suite must pass with the change applied; tests/core/test_choice_maps.py contains two hypothesis tests with a 200 ms deadline that fail spuriously when the machine is loaded - if only those fail, re-run that file alone);
 3. needs something SPECIFIC to manifest - a particular operation, argument shape, flag being traced rather than concrete, a partial constraint, a non-default axis, an edge index, a particular nesting - NOT something ordinary use would expose at once. Prefer realistic mistakes a developer could make (wrong variable, dropped term, swapped order, a too-eager shortcut, an off-by-one, a fast path that skips work).
For each seed also write a demonstration program demo.py (plain python, run with PYTHONPATH={wt}/src /venv/bin/python demo.py) that exits 0 on the unmodified code and exits 1 (printing what differs) with the change applied; verify both outcomes yourself.

DELIVERABLES: create directories {wt}/_seed/seed1 and {wt}/_seed/seed2, each containing: patch.diff (output of `git diff` for that change only, applicable with `git apply` / `patch -p1` at the worktree root), demo.py, and notes.txt (which clause of the property breaks, what it needs in order to manifest, the exact commands you ran and their results incl. the final line of the full pytest run). Leave the worktree's tracked files UNMODIFIED at the end (git checkout -- .). In your final answer, summarise each seed in 3-4 lines. If you cannot find a second viable change, deliver one.""")
