#!/bin/bash
# runs every check registered in MANIFEST.json (quick tier), 4 at a time; prints one line per check
cd "$(dirname "$0")/.."
TIER=${1:-quick}
python3 -c "
import json
for c in json.load(open('MANIFEST.json'))['checks']: print(c['property_id'])" | \
  xargs -P 4 -I{} sh -c "VERIF_JOBS=4 ./check {} --tier $TIER > /var/tmp/check_{}.out 2>&1; echo \"{} exit=\$? \$(head -1 /var/tmp/check_{}.out)\""
