#!/bin/bash
# usage: tools/seed_regression.sh [jobs [egrep-pattern on the seed directory name]]   - re-runs every kept seeded change (seeded/<Cxx>-*/patch.diff) against ./check Cxx on a
# scratch copy and prints one line per seed: DETECTED (natively reproduced | no-failing-input-found) / MISSED / UNDECIDED / BROKEN
cd "$(dirname "$0")/.."
J=${1:-4}
one() {
  d=$(realpath $1); id=$(basename $d); prop=${id%%-*}
  S=/var/tmp/seedreg.$id.$$
  rm -rf $S; mkdir -p $S; cp -r /repo/src $S/src
  ( cd $S && patch -p1 -s < $d/patch.diff ) >/dev/null 2>&1 || { echo "$id PATCH-FAILED"; rm -rf $S; return; }
  out=$(VERIF_REPO=$S VERIF_EVIDENCE_DIR=$S/ev VERIF_REPLAY_DIR=$S/replays VERIF_JOBS=4 ./check $prop 2>/dev/null)
  rc=$?
  nv=$(echo "$out" | grep -c "^VIOLATION")
  nr=$(echo "$out" | grep "^VIOLATION" | grep -vc "no-failing-input-found")
  case $rc in
    1) echo "$id DETECTED violations=$nv natively_reproduced=$nr";;
    0) echo "$id MISSED";;
    2) echo "$id UNDECIDED";;
    *) echo "$id BROKEN rc=$rc $(echo "$out" | grep CHECKER | head -1 | cut -c1-120)";;
  esac
  rm -rf $S
}
export -f one
ls -d seeded/C*/ | grep -E "${2:-.}" | xargs -P $J -I{} bash -c 'one {}'
